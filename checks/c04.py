"""C04 -- the sample log likelihood is the weighted sum of per-observation values.

(A) Aggregation.tla: TLC explores EVERY split of the rows into contiguous blocks and EVERY
    interleaving of the threads' steps (N <= 4 rows, T <= 5 threads) and, separately, the shipped
    engine's concrete partition rule for all N <= 8, T <= 10: total = sum w_r f_r, each row once.
(B) AggData.tla: every permutation of every subset of a row pool with the expected aggregates
    (value, gradient, Hessian, BHHH; weighted and unweighted; every prefix split) -- replayed into
    BIOGEME.calculate_likelihood / calculate_likelihood_and_derivatives / simulate for every thread
    count 1..N+2 and 0 (= cpu count); T > 1 cases repeated (real schedules vary).
(C) the calls crossing the engine boundary are checked against the protocol: setData rows = table
    rows, setExpressions carries the resolved thread count and a weight signature iff a weight
    formula exists.
"""

from __future__ import annotations

import os
import sys

sys.path.insert(0, '/verif')

import numpy as np

from vb import boundary, check, par, rt, tlc
from vb.rt import close

PID = 'C04'
ROWPOOL = [(2, 1, 2), (-1, 3, 4), (3, -2, 1), (1, 1, 0), (4, 2, 3)]
POINTS = [(1, 2), (-2, 3)]


def agg_cfg(n, t, engine, props=True):
    s = f'''SPECIFICATION Spec
CONSTANTS
 N = {n}
 T = {t}
 W <- G_W
 F <- G_F
 EngineRule = {"TRUE" if engine else "FALSE"}
INVARIANT TotalOK
INVARIANT EachRowOnce
INVARIANT NeverTwice
INVARIANT BlocksDisjointCover
'''
    if props:
        s += 'PROPERTY Terminates\n'
    return s


def agg_mod(n):
    w = [1, 2, 0, 3, 1, 2, 5, 1, 4, 2][:n]
    f = [5, -2, 7, 1, -3, 4, 2, -6, 3, 8][:n]

    def sq(v):
        return '<<' + ', '.join(str(x) if x >= 0 else f'(0 - {-x})' for x in v) + '>>'

    return f'---- MODULE AggGen ----\nEXTENDS Aggregation\nG_W == {sq(w)}\nG_F == {sq(f)}\n====\n'


def data_mod(pool):
    rows = ', '.join(f'[x |-> {x if x >= 0 else f"(0 - {-x})"}, z |-> {z if z >= 0 else f"(0 - {-z})"}, w2 |-> {w}]' for x, z, w in pool)
    pts = ', '.join(f'<<{a if a >= 0 else f"(0 - {-a})"}, {b}>>' for a, b in POINTS)
    return f'---- MODULE AggDataGen ----\nEXTENDS AggData\nG_Pool == <<{rows}>>\nG_Points == <<{pts}>>\n====\n'


def data_cfg(maxrows):
    return f'''SPECIFICATION Spec
CONSTANTS
 RowPool <- G_Pool
 MaxRows = {maxrows}
 Points <- G_Points
INVARIANT PartsAddUp
INVARIANT OrderIrrelevant
INVARIANT EmitInv
'''


def make(rows, weighted, threads, weight_key='weight', loglike_key='log_like', labels=0):
    import pandas as pd
    import biogeme.biogeme as bio
    import biogeme.database as db
    import biogeme.expressions as ex

    df = pd.DataFrame({'x': [float(r['x']) for r in rows], 'z': [float(r['z']) for r in rows], 'w': [r['w2'] / 2.0 for r in rows]})
    # the rows of a data set are its rows in table order, whatever their labels (a table that was filtered, sorted or
    # concatenated keeps the labels it had)
    n_ = len(rows)
    df.index = [list(range(n_)), list(range(n_ - 1, -1, -1)), [10 * (k + 1) for k in range(n_)], [(7 * k + 3) % n_ for k in range(n_)] if n_ not in (7,) else list(range(n_))][labels % 4]
    d = db.Database('c04', df)
    b1 = ex.Beta('b1', 0, None, None, 0)
    b2 = ex.Beta('b2', 0, None, None, 0)
    ll = b1 * ex.Variable('x') + b2 * ex.Variable('z') + b1 * b2
    formulas = {loglike_key: ll, weight_key: ex.Variable('w')} if weighted else {loglike_key: ll}
    b = bio.BIOGEME(d, formulas, number_of_threads=threads)
    b.generate_html = False
    b.generate_pickle = False
    b.save_iterations = False
    return b, d, ll


def cmp_tot(out, label, got, tot2, div=1.0):
    """tot2 holds twice the expected aggregates"""
    n = 0
    for fld, key in (('function', 'f'), ('gradient', 'g'), ('hessian', 'h'), ('bhhh', 'bh')):
        want = np.asarray(tot2[key], dtype=float) / 2.0 / div
        g = np.asarray(getattr(got, fld), dtype=float)
        n += 1
        if g.shape != want.shape or not np.allclose(g, want, rtol=1e-12, atol=1e-12):
            out.append(dict(what=f'{label}: {fld}', got=g.tolist(), want=want.tolist()))
    return n


def replay(args):
    rec, repeats = args
    rows = rec['rows']
    n_rows = len(rows)
    out = []
    n = 0
    boundary.install()
    for weighted in (False, True):
        key = 'weighted' if weighted else 'plain'
        for threads in list(range(1, n_rows + 3)) + [0]:
            boundary.reset()
            # both documented spellings of the formula names are used
            wkey = 'weight' if (threads + n_rows) % 2 == 0 else 'weights'
            lkey = 'log_like' if threads % 3 != 2 else 'loglike'
            b, d, ll = make(rows, weighted, threads, wkey, lkey, labels=threads + len(rows))
            resolved = threads if threads > 0 else os.cpu_count()
            if b.number_of_threads != resolved:
                out.append(dict(what='number_of_threads resolution', got=b.number_of_threads, want=resolved))
            for c in boundary.LOG:
                if c['call'] == 'setExpressions':
                    if c['args'][1] != resolved:
                        out.append(dict(what='boundary: thread count', got=c['args'][1], want=resolved))
                    if (len(c['args']) == 3) != weighted:
                        out.append(dict(what='boundary: weight signature present iff weight formula', nargs=len(c['args']), weighted=weighted))
                if c['call'] == 'setData':
                    got_rows = c['args'][0]['rows']
                    want_rows = [[float(r['x']), float(r['z']), r['w2'] / 2.0] for r in rows]
                    if got_rows != want_rows:
                        out.append(dict(what='boundary: setData rows', got=got_rows, want=want_rows))
            for rep in range(repeats if threads != 1 else 1):
                for p, pt in enumerate(POINTS):
                    tot2 = rec['totals'][p][key]
                    x = [float(pt[0]), float(pt[1])]
                    f = b.calculate_likelihood(x, scaled=False)
                    fs = b.calculate_likelihood(x, scaled=True)
                    n += 2
                    if not close(f, tot2['f'] / 2.0, rel=1e-12):
                        out.append(dict(what=f'calculate_likelihood T={threads} {key}', got=f, want=tot2['f'] / 2.0, point=pt))
                    if not close(fs, tot2['f'] / 2.0 / n_rows, rel=1e-12):
                        out.append(dict(what=f'calculate_likelihood scaled T={threads} {key}', got=fs, want=tot2['f'] / 2.0 / n_rows))
                    n += cmp_tot(out, f'derivatives T={threads} {key} point {pt}',
                                 b.calculate_likelihood_and_derivatives(x, scaled=False, hessian=True, bhhh=True), tot2)
                    n += cmp_tot(out, f'derivatives scaled T={threads} {key} point {pt}',
                                 b.calculate_likelihood_and_derivatives(x, scaled=True, hessian=True, bhhh=True), tot2, div=float(n_rows))
            # likelihood = sum over rows of weight x simulated per-row value
            for p, pt in enumerate(POINTS):
                sim = b.simulate({'b2': float(pt[1]), 'b1': float(pt[0])})     # the dictionary is not written in the sorted order of the names
                per_row = sim[lkey].tolist()
                n += 1
                if per_row != [float(v) for v in rec['per_row'][p]]:
                    out.append(dict(what=f'simulate per row T={threads}', got=per_row, want=rec['per_row'][p]))
                wts = [r['w2'] / 2.0 for r in rows] if weighted else [1.0] * n_rows
                if weighted and sim[wkey].tolist() != wts:
                    out.append(dict(what='simulate weight column', got=sim[wkey].tolist(), want=wts))
                tot = sum(w * v for w, v in zip(wts, per_row))
                f = b.calculate_likelihood([float(pt[0]), float(pt[1])], scaled=False)
                if not close(f, tot, rel=1e-12):
                    out.append(dict(what=f'likelihood vs sum of weight x simulate T={threads} {key}', got=f, want=tot))
    # histories: after an estimation with bootstrap (the engine is fed re-samples), the object still reports the
    # likelihood of the data set
    if n_rows >= 2:
        import pandas as pd
        import biogeme.biogeme as bio
        import biogeme.database as db
        import biogeme.expressions as ex

        for weighted in (False, True):
            key = 'weighted' if weighted else 'plain'
            if weighted and sum(r['w2'] for r in rows) == 0:
                continue
            df = pd.DataFrame({'x': [float(r['x']) for r in rows], 'z': [float(r['z']) for r in rows], 'w': [r['w2'] / 2.0 for r in rows]})
            d2 = db.Database('c04b', df)
            b1 = ex.Beta('b1', 0.0, None, None, 0)
            b2 = ex.Beta('b2', 0.0, None, None, 0)
            ll2 = -(b1 - ex.Variable('x')) * (b1 - ex.Variable('x')) - (b2 - ex.Variable('z')) * (b2 - ex.Variable('z'))
            f2 = {'log_like': ll2, 'weight': ex.Variable('w')} if weighted else {'log_like': ll2}
            bg = bio.BIOGEME(d2, f2, bootstrap_samples=3, generate_html=False, generate_pickle=False, save_iterations=False)
            bg.modelName = 'c04b'
            for when in ('before', 'after estimate(run_bootstrap=True)'):
                for p, pt in enumerate(POINTS):
                    want = rec['concave'][p][key] / 2.0
                    got = bg.calculate_likelihood([float(pt[0]), float(pt[1])], scaled=False)
                    n += 1
                    if not close(got, want, rel=1e-12):
                        out.append(dict(what=f'likelihood of the data set {when} ({key})', got=got, want=want, point=pt))
                    tot = bg.simulate({'b1': float(pt[0]), 'b2': float(pt[1])})['log_like']
                    wts = [r['w2'] / 2.0 for r in rows] if weighted else [1.0] * n_rows
                    if not close(sum(w * v for w, v in zip(wts, tot)), want, rel=1e-12):
                        out.append(dict(what=f'sum of weight x simulate {when} ({key})', got=float(sum(w * v for w, v in zip(wts, tot))), want=want))
                if when == 'before':
                    bg.estimate(run_bootstrap=True)
    # splits: the totals of the two parts add up to the total of the whole (all through the real code)
    for k in range(1, n_rows):
        for weighted in (False, True):
            key = 'weighted' if weighted else 'plain'
            ba, _, _ = make(rows[:k], weighted, 2, labels=1)
            bb, _, _ = make(rows[k:], weighted, 3, labels=2)
            for p, pt in enumerate(POINTS):
                x = [float(pt[0]), float(pt[1])]
                fa = ba.calculate_likelihood(x, scaled=False)
                fb = bb.calculate_likelihood(x, scaled=False)
                n += 1
                if not close(fa, rec['prefix'][p][k - 1][key]['f'] / 2.0, rel=1e-12):
                    out.append(dict(what=f'prefix part {k} {key}', got=fa, want=rec['prefix'][p][k - 1][key]['f'] / 2.0))
                if not close(fa + fb, rec['totals'][p][key]['f'] / 2.0, rel=1e-12):
                    out.append(dict(what=f'parts do not add up at split {k} {key}', got=fa + fb, want=rec['totals'][p][key]['f'] / 2.0))
    boundary.reset()
    return dict(mismatches=out, n=n)


def body(chk: check.Check):
    rt.setup(chk.seed)
    quick = chk.tier == 'quick'
    # (A) schedules
    for n, t in ([(3, 2), (4, 3), (3, 5), (5, 4), (6, 3)] if quick else [(3, 2), (4, 3), (3, 5), (5, 4), (6, 3), (6, 5), (7, 4), (8, 3)]):
        res = tlc.run('AggGen', agg_cfg(n, t, False), extra_modules={'AggGen': agg_mod(n)}, workers='auto', timeout=1500)
        chk.add_tlc(f'Aggregation: every split and interleaving, N={n} T={t}', res)
    nmax, tmax = (12, 16) if quick else (40, 32)
    res = tlc.run('AggPartition', f'SPECIFICATION Spec\nCONSTANTS\n MaxN = {nmax}\n MaxT = {tmax}\nINVARIANT Inv\n', workers=1, timeout=900)
    chk.add_tlc(f'AggPartition: engine partition rule for all N<={nmax}, T<={tmax}', res)
    # the same rule for ALL n, t >= 1: proved with the TLA+ proof system (specs/AggPartitionProof.tla: blocks start at 1,
    # end at n, follow each other, are non-empty, at most t, every row in exactly one)
    import re
    import shutil
    import subprocess
    if shutil.which('tlapm'):
        wd = tlc.scratch_dir()
        try:
            shutil.copy(os.path.join(tlc.SPECS, 'AggPartitionProof.tla'), wd)
            pr = subprocess.run(['tlapm', '--cleanfp', '--threads', '4', 'AggPartitionProof.tla'], cwd=wd, capture_output=True, text=True, timeout=1200)
            m = re.search(r'All (\d+) obligations proved', pr.stdout + pr.stderr)
            if not m:
                raise tlc.MachineryError('tlapm did not prove AggPartitionProof: ' + (pr.stdout + pr.stderr)[-600:])
            chk.extra['tlaps_obligations_proved_for_the_partition_rule_unbounded'] = int(m.group(1))
        finally:
            shutil.rmtree(wd, ignore_errors=True)
    else:
        chk.uncovered.append('tlapm not found: the unbounded proof of the partition rule was not re-checked')
    chk.extra['engine_partition_instances_checked'] = nmax * tmax
    for n, t in [(4, 2), (5, 3)]:
        res = tlc.run('AggGen', agg_cfg(n, t, True, props=False), extra_modules={'AggGen': agg_mod(n)}, workers=2, timeout=600)
        chk.add_tlc(f'Aggregation with the engine partition rule, every interleaving, N={n} T={t}', res)
    # (B) data sets
    pool = ROWPOOL[:4] if quick else ROWPOOL
    res = tlc.run('AggDataGen', data_cfg(3 if quick else 4), extra_modules={'AggDataGen': data_mod(pool)}, workers='auto', timeout=900)
    chk.add_tlc(f'AggData: permutations of subsets of {len(pool)} rows', res)
    recs = res.emitted
    chk.rule = ('every permutation of every subset (size <= 3 quick / 4 thorough) of a pool of integer rows with half-integer weights '
                '(incl. zero weight), x weighted/unweighted x thread counts 1..N+2 and 0 x 2 parameter points x every prefix split; '
                'distinct = distinct row sequences')
    repeats = 2 if quick else 20
    results = par.pmap(replay, [(r, repeats) for r in recs], chunk=3)
    for rec, (st, val) in zip(recs, results):
        key = tuple((r['x'], r['z'], r['w2']) for r in rec['rows'])
        chk.replayed += 1
        if st != 'ok':
            chk.violation(f'replay:{st}', dict(rows=key, error=val), match=dict(kind='exception'))
            continue
        chk.count(key, val['n'])
        chk.sample(dict(rows=key, expected_twice_totals_point1=rec['totals'][0]['weighted']))
        for m in val['mismatches']:
            chk.violation('replay:' + m['what'].split(' T=')[0][:50], {**dict(rows=key), **m}, match=dict(kind='value'))
    # (D) whole sessions at the engine boundary (construction, likelihood, derivatives, simulation, estimation with
    # bootstrap, validation) validated by Engine.tla
    from vb import enginetrace

    sessions = []
    for panel in (False, True):
        for draws in (False, True):
            for weighted in ((False, True) if not panel else (False,)):
                st, val = rt.forked(enginetrace.session, panel, draws, weighted, chk.seed % 1000 + 1, timeout=600)
                if st != 'ok':
                    chk.violation('engine-session:exception', dict(panel=panel, draws=draws, weighted=weighted, error=val), match=dict(kind='exception'))
                else:
                    sessions += val
    verdicts, eres = enginetrace.validate(sessions)
    chk.add_tlc(f'Engine: {len(sessions)} recorded engine-object sessions', eres)
    for tr in sessions:
        v = verdicts.get(tr['tid'], 'not-consumed')
        chk.count(tr['tid'], len(tr['events']))
        if v == 'ok':
            chk.traces += 1
        else:
            chk.violation('engine-session:' + v.split('@')[0], dict(session=tr['tid'], verdict=v, calls=[e['call'] for e in tr['events']][:40]),
                          match=dict(kind='trace', clause=v.split('@')[0]))
    if sessions:
        chk.sample(dict(session=sessions[0]['tid'], calls=[e['call'] for e in sessions[0]['events']]))
    import copy

    ctl = []
    main = next((t for t in sessions if any(e['call'] == 'setData' for e in t['events'][2:])), None)
    if main:
        a = copy.deepcopy(main); a['tid'] = 'ctl/foreign-row'
        later = [e for e in a['events'] if e['call'] == 'setData'][1]
        later['rowids'] = later['rowids'][:-1] + [999]
        ctl.append(a)
        b_ = copy.deepcopy(main); b_['tid'] = 'ctl/literal-ids-reversed'
        for e in b_['events']:
            if e['call'] == 'calculateLikelihoodAndDerivatives':
                e['literals'] = [1] + e['literals'][1:] if e['literals'] else [1]
                break
        ctl.append(b_)
        c_ = copy.deepcopy(main); c_['tid'] = 'ctl/no-restore'
        idx = max(i for i, e in enumerate(c_['events']) if e['call'] == 'setData')
        del c_['events'][idx]
        ctl.append(c_)
        d_ = copy.deepcopy(main); d_['tid'] = 'ctl/evaluation-before-expressions'
        d_['events'] = [e for e in d_['events'] if e['call'] != 'setExpressions']
        ctl.append(d_)
        cv, _ = enginetrace.validate(ctl)
        for t_ in ctl:
            chk.control(f'corrupted engine session {t_["tid"]}', cv.get(t_['tid'], 'not-consumed') != 'ok', f'verdict={cv.get(t_["tid"])}')
    # negative controls

    base = next(r for r in recs if len(r['rows']) >= 2)
    mut = copy.deepcopy(base)
    mut['totals'][0]['weighted']['f'] += 2
    st, val = rt.forked(replay, (mut, 1))
    chk.control('expected weighted total off by one', st != 'ok' or bool(val['mismatches']))
    mut = copy.deepcopy(base)
    mut['rows'][0]['w2'], mut['rows'][1]['w2'] = base['rows'][1]['w2'] + 1, base['rows'][0]['w2']
    st, val = rt.forked(replay, (mut, 1))
    chk.control('weights attached to other rows than the expectation assumes', st != 'ok' or bool(val['mismatches']))
    res = tlc.run('AggGen', agg_cfg(3, 2, False, props=False).replace('INVARIANT NeverTwice', 'INVARIANT NeverTwice\nINVARIANT NoPartial'),
                  extra_modules={'AggGen': agg_mod(3).replace('====', 'NoPartial == \\A t \\in Threads : part[t] = 0\n====')}, workers=2, timeout=300)
    chk.control('TLC reports a deliberately false invariant on Aggregation (model is not vacuous)', res.violated == 'NoPartial')
    chk.uncovered += ["the engine's internal partition and scheduling are not observable from Python: Aggregation's Dispatch is its contract; an engine race would be seen only if it changed a result (T>1 cases are repeated)"]
    chk.assumptions += ['integer-valued polynomial likelihood so that sums are exact in floating point (compared at 1e-12)']


if __name__ == '__main__':
    check.main(PID, body)
