"""C09 -- panel likelihood is the product over each individual's rows, with shared draws.

PanelDraws.tla: contiguity <=> accepted; the stable sort by individual and the individual map
(blocks partition the rows, each block is exactly one individual's rows); per individual the
trajectory value is the product over exactly its rows, inside a Monte-Carlo integral the mean over
draws of that product with the individual's own r-th draw of each variable's own series; sample
size = number of individuals.  TLC checks MapSound / SortSound on the model and enumerates every id
sequence (arbitrary, non-consecutive id values) x number of draws x row formula; each behaviour is
replayed into Database.panel / individualMap, BIOGEME.simulate, calculate_likelihood (scaled or
not), get_value_c, with the calls crossing the engine boundary (setPanel, setDataMap, sorted
setData, the draw table) compared with the spec, and re-run on a permuted table (other order of
individuals and of the rows of each individual).
"""

from __future__ import annotations

import sys

sys.path.insert(0, '/verif')

from vb import check, exprreplay, flagship, paneldraws, par, rt, tlc

PID = 'C09'


def body(chk: check.Check):
    rt.setup(chk.seed)
    quick = chk.tier == 'quick'
    max_len = 4 if quick else 5
    mod = paneldraws.module([7, 0, 12], max_len, [1, 3] if quick else [1, 2, 3], ['none', 'one', 'two', 'prod'], [True])
    res = tlc.run('PDGen', paneldraws.cfg(max_len), extra_modules={'PDGen': mod}, workers='auto', timeout=2400)
    chk.add_tlc(f'PanelDraws: every id sequence of length <= {max_len} over ids 7, 0, 12', res)
    recs = res.emitted
    chk.rule = ('every sequence of individual ids (values 7, 0, 12: unsorted, non consecutive, one of them 0) of length <= 4 (quick) / 5 (thorough), '
                'contiguous or not, x numbers of draws x 4 row formulas (no draw, one draw variable, two of different types whose sorted '
                'order differs from their order of appearance, product of draws); distinct = distinct (ids, R, formula)')
    results = par.pmap(paneldraws.replay, recs, chunk=10, timeout=900)
    for rec, (st, val) in zip(recs, results):
        key = (tuple(rec['ids']), rec['R'], rec['formula'])
        chk.replayed += 1
        if st != 'ok':
            chk.violation(f'replay:{st}', dict(case=key, error=val), match=dict(kind='exception'))
            continue
        chk.count(key, val['n'])
        if rec['contiguous'] and len(set(rec['ids'])) > 1 and rec['formula'] == 'two':
            chk.sample(dict(ids=rec['ids'], xs=rec['xs'], R=rec['R'], formula=rec['formula'], expected_map=rec['map'], expected_values=rec['values']))
        for m in val['mismatches']:
            chk.violation('replay:' + m['what'][:50], dict(dict(ids=rec['ids'], xs=rec['xs'], R=rec['R'], formula=rec['formula']), **{('perm_' + k if k in ('ids', 'xs') else k): v for k, v in m.items()}), match=dict(kind='value'))
    chk.extra['non_contiguous_sequences_refused'] = sum(1 for r in recs if not r['contiguous'])
    # mixed-logit formulas on panel data (ExprLang with the trajectory and Monte-Carlo operators as inner nodes):
    # proposed from outside, accepted and valued by the specification, one value per INDIVIDUAL
    fpool = flagship.pool_panel()
    props = flagship.proposals(chk.seed + 9, 20 if quick else 120, True)
    fres = tlc.run('MCExprGen', fpool.cfg(0, ['EmitInv']), extra_modules={'MCExprGen': fpool.module(start=props)}, workers='auto', timeout=1800)
    chk.add_tlc(f'ExprLang: {len(props)} proposed mixed-logit formulas on panel data', fres)
    if len(fres.emitted) < len(props) // 2:
        raise tlc.MachineryError(f'only {len(fres.emitted)} of {len(props)} proposed formulas were accepted by the specification')
    exprreplay.init(fpool)
    for rec, (st, val) in zip(fres.emitted, par.pmap(exprreplay.replay_values, fres.emitted, chunk=2, timeout=900)):
        desc = exprreplay.describe(rec)
        chk.replayed += 1
        if st != 'ok':
            chk.violation(f'mixed:{st}', dict(formula=desc, error=val), match=dict(kind='exception'))
            continue
        chk.count(('mixed', desc), val['n'])
        for m in val['mismatches']:
            chk.violation('mixed:value per individual', {**dict(formula=desc), **m}, match=dict(kind='value'))
    chk.extra['mixed_logit_formulas_on_panel_data'] = len(fres.emitted)
    # negative controls
    import copy

    base = next(r for r in recs if r['contiguous'] and len(set(r['ids'])) >= 2 and r['formula'] == 'two' and len(r['ids']) >= 3)
    mut = copy.deepcopy(base)
    mut['map'][0][2] += 1
    st, val = rt.forked(paneldraws.replay, mut)
    chk.control('expected map with one block one row too long', st != 'ok' or any('Map' in m['what'] for m in val['mismatches']))
    mut = copy.deepcopy(base)
    mut['values'][0], mut['values'][1] = base['values'][1], base['values'][0]
    st, val = rt.forked(paneldraws.replay, mut)
    chk.control('expected values of two individuals exchanged', st != 'ok' or bool(val['mismatches']))
    mut = copy.deepcopy(base)
    for u in mut['table']:
        for r in u:
            r.reverse()
    st, val = rt.forked(paneldraws.replay, mut)
    chk.control('expected draw table with the two variables exchanged', st != 'ok' or any('setDraws' in m['what'] for m in val['mismatches']))
    chk.uncovered += ['formulas inside the trajectory are the four row formulas of the spec (general formulas are covered by C01)',
                      'staleness of the individual map after later edits of the table']
    chk.assumptions += ['deterministic user-defined generators make the draw table exact; products compared at 1e-12']


if __name__ == '__main__':
    check.main(PID, body)
