"""C08 -- every figure of an estimation report follows from the raw outcome by its defining formula.

specs/Results.tla defines, from the mathematics, what each reported figure IS (likelihood ratios,
rho-squares, AIC, BIC, the three variance-covariance estimators with the Moore-Penrose inverse for
singular Hessians, and inside each family se -> t -> p, correlations, pairwise tests) and which
named quantity every table cell (row label, column label) holds, including the tables compiled
across several models and the likelihood-ratio test.  TLC enumerates families of raw outcomes
(specs/MCResults.tla), checks the model's own invariants (family separation, Penrose conditions,
labels) and prints every outcome with all expected figures; the driver builds a real bioResults
from each outcome and compares every figure the library reports.

The families MC_Rat* hold Hessians hs * H and BHHH bs * B with rational scales (thirds, sevenths, tenths):
their entries are not binary floating-point numbers, and a singular Hessian of these families is in general
NOT exactly singular once rounded (Gaussian elimination meets no zero pivot), so that "inverse, pseudo-inverse
only when the inversion fails" is told apart from the pseudo-inverse of the property.
"""

from __future__ import annotations

import os

for _v in ('OMP_NUM_THREADS', 'OPENBLAS_NUM_THREADS', 'MKL_NUM_THREADS'):
    os.environ.setdefault(_v, '1')  # 16 replay processes: no BLAS thread pools inside each

import copy
import json
import sys
from concurrent.futures import ThreadPoolExecutor

sys.path.insert(0, '/verif')

from vb import check, par, rt, tlc
from vb import resultsreplay as rr

PID = 'C08'
INVARIANTS = ['RawWellFormed', 'Penrose', 'FamilySeparation', 'CovSane', 'GeneralSane', 'TablesNamed',
              'CompileNamed', 'LRTSane', 'EmitInv']
COMPANION_IDS = ('c1', 'c2')


ROOT = 'MCResultsRun'


def root_module(family: str) -> str:
    """generated root module: only the family of this run is evaluated when TLC starts"""
    return (f'---- MODULE {ROOT} ----\nEXTENDS MCResults\nRunOutcomes == MC_Family("{family}")\n'
            '=============================================================================\n')


def cfg(family: str, mutant: str = 'none', invariants=INVARIANTS) -> str:
    inv = '\n'.join(f'INVARIANT {i}' for i in invariants)
    return f'''SPECIFICATION Spec
CONSTANTS
 Outcomes <- RunOutcomes
 Companions <- MC_Companions
 CompileStats <- MC_CompileStats
 Mutant = "{mutant}"
{inv}
PROPERTY Frozen
'''


def run_tlc(family: str, mutant: str = 'none', **kw):
    """tlc.run; a JVM that vanished without a verdict (killed from outside: several checks share the
    machine) is started again, an evaluation error or a verdict is final."""
    res = None
    for _ in range(3):
        res = tlc.run(ROOT, cfg(family, mutant), extra_modules={ROOT: root_module(family)}, **kw)
        killed = res.error is not None and res.error != 'timeout' and 'Error:' not in res.raw and res.violated is None
        if not killed:
            break
    return res


def classify(m: dict, raw: dict) -> dict:
    """facts a known-finding matcher may look at: which figure, through which entry point, on what input"""
    key = m['key']
    facts = dict(kind='figure', key=key, K=raw['K'], bootstrap=raw['boot']['ex'])
    if 'ootstrap p-value' in key or 'bootstrap_pValue' in key:
        facts['kind'] = 'bootstrap_pvalue'
    elif key.startswith('compile_estimation_results(formatted=False') and (':row  (std)' in key or ':row  (ttest)' in key):
        facts['kind'] = 'compile_unformatted_row'
    elif 'likelihood_ratio_test:raises' in key and m.get('tie'):
        facts['kind'] = 'lr_test_tie'
    return facts


def body(chk: check.Check):
    rt.setup(chk.seed)
    quick = chk.tier == 'quick'
    families = ['MC_Quick', 'MC_RatQuick'] if quick else \
        ['MC_Quick', 'MC_RatQuick', 'MC_Full1', 'MC_Full2', 'MC_Full3', 'MC_NSD12', 'MC_NSD3', 'MC_Rat12', 'MC_Rat3']
    chk.rule = ('raw outcomes (K, N, L, L0, Lnull, estimates and bounds, gradient, Hessian, BHHH, bootstrap replications) '
                'enumerated by TLC from specs/MCResults.tla and emitted with every expected statistic and table cell; '
                'distinct = distinct raw outcomes replayed into a real bioResults; evaluations = figures compared')

    # the seeded defects on the model itself run next to the main exploration
    pool = ThreadPoolExecutor(max_workers=3)
    # the (small) rational family of the quick tier is explored next to MC_Quick
    early = {'MC_RatQuick': pool.submit(run_tlc, 'MC_RatQuick', workers=4, timeout=3000, heap='4g')}
    mutants = {
        'boot_p_from_robust': pool.submit(run_tlc, 'MC_Tiny', 'boot_p_from_robust', workers=2, timeout=600),
        'compile_rows_value': pool.submit(run_tlc, 'MC_Tiny', 'compile_rows_value', workers=2, timeout=600),
    }

    seen: set = set()
    skipped = {'undef': 0, 'sentinel': 0}
    crashed = 0
    control_rec = None
    panel_rec = None
    companions = None
    image = dict(outcomes_with_an_entry_that_is_no_binary_float=0, singular_hessians=0,
                 singular_hessians_whose_float_image_is_not_exactly_singular=0,
                 largest_ratio_smallest_to_largest_singular_value_of_a_rounded_singular_hessian=0.0,
                 largest_covariance_deviation_relative_floor_1=0.0)
    near_singular: list = []      # singular by the specification, regular as floats
    exactly_singular: list = []   # singular by the specification AND as floats
    for fam in families:
        res = early.pop(fam).result() if fam in early else run_tlc(fam, workers='auto', timeout=3000, heap='8g')
        chk.add_tlc(f'Results on {fam}', res)
        comps = [r for r in res.emitted if r['raw']['id'] in COMPANION_IDS]
        if len(comps) != len(COMPANION_IDS):
            raise tlc.MachineryError(f'{fam}: companions not emitted ({len(comps)})')
        companions = comps
        rr.init(comps)
        rr._BUILT.clear()
        recs = []
        for r in res.emitted:
            k = json.dumps(r['raw'], sort_keys=True)
            if k in seen:
                continue
            seen.add(k)
            recs.append(r)
        chk.extra.setdefault('emitted_total', 0)
        chk.extra['emitted_total'] += len(res.emitted)
        del res
        results = par.pmap(rr.replay, recs, chunk=25, timeout=600)
        for rec, (st, val) in zip(recs, results):
            raw = rec['raw']
            desc = rr.describe(raw)
            chk.replayed += 1
            if st != 'ok':
                crashed += 1
                one_param_boot = raw['K'] == 1 and raw['boot']['ex']
                chk.violation(f'replay:{st}:{val[0] if st == "exc" else ""}', dict(outcome=desc, error=val),
                              match=dict(kind='exception', exception=val[0] if st == 'exc' else st, K=raw['K'],
                                         bootstrap=raw['boot']['ex'], one_parameter_bootstrap=one_param_boot))
                continue
            chk.count(desc, val['n'])
            for k in skipped:
                skipped[k] += val['skipped'][k]
            plain = raw['hs'] == [1, 1] and raw['bs'] == [1, 1]
            if control_rec is None and raw['K'] == 2 and raw['boot']['ex'] and raw['H'] == [[-2, 1], [1, -2]] \
                    and raw['theta'] == [[2, 1], [-1, 2]] and raw['B'] == [[2, 1], [1, 2]] and plain:
                control_rec = rec
            if panel_rec is None and raw['nobs'] != raw['N'] and raw['K'] >= 2 and rec['stats']['cls']['allpos']:
                panel_rec = rec
            im = val['image']
            image['outcomes_with_an_entry_that_is_no_binary_float'] += bool(val['rational'])
            image['singular_hessians'] += bool(im['singular'])
            k = 'largest_covariance_deviation_relative_floor_1'
            image[k] = max(image[k], val['cov_dev'])
            if im['singular']:
                k = 'largest_ratio_smallest_to_largest_singular_value_of_a_rounded_singular_hessian'
                image[k] = max(image[k], im['sv_ratio'] or 0.0)
                if im['float_regular']:
                    image['singular_hessians_whose_float_image_is_not_exactly_singular'] += 1
                    if len(near_singular) < 64:
                        near_singular.append(rec)
                elif len(exactly_singular) < 16 and raw['K'] >= 2:
                    exactly_singular.append(rec)
            if raw['K'] == 3 and raw['boot']['ex'] and rec['stats']['cls']['allpos']:
                chk.sample(dict(outcome=desc, figures_compared=val['n'], mismatches=len(val['mismatches']),
                                expected_vs_observed=val['digest']), limit=3)
            for m in val['mismatches']:
                chk.violation(m['key'], dict(outcome=desc, **m), match=classify(m, raw))
        del results

    chk.extra['cells_excluded_variance_not_positive'] = skipped['undef']
    chk.extra['correlation_cells_excluded_whole_matrix_sentinel'] = skipped['sentinel']
    chk.extra['outcomes_on_which_the_library_raised'] = crashed
    chk.extra['floating_point_image_of_the_hessians'] = image

    # ---- negative controls
    for name, inv in (('boot_p_from_robust', 'FamilySeparation'), ('compile_rows_value', 'CompileNamed')):
        res = mutants[name].result()
        chk.add_tlc(f'seeded defect {name} on MC_Tiny', res, expect_ok=False)
        chk.control(f'model with seeded defect "{name}": TLC must report invariant {inv}', res.violated == inv,
                    note=f'TLC reported {res.violated}')
    if control_rec is None:
        raise tlc.MachineryError('no record for the negative controls')
    rr.init(companions)
    rr._BUILT.clear()

    def keys_of(rec, tamper=None):
        st, val = rt.forked(rr.replay, rec, tamper)
        if st != 'ok':
            return {f'{st}:{val}'}
        return {m['key'] for m in val['mismatches']}

    base = keys_of(control_rec)
    # (a) a mutant of the EXPECTED values: robust covariance := classical covariance
    mut = copy.deepcopy(control_rec)
    mut['stats']['rob']['cov'] = copy.deepcopy(mut['stats']['cls']['cov'])
    got = keys_of(mut) - base
    chk.control('expected robust covariance replaced by the classical one', 'stats:robust_varCovar' in got
                and 'get_robust_var_covar:entry' in got, note=f'{sorted(got)[:4]}')
    # (b) a mutant of the EXPECTED table: the cells of "Std err" and "Rob. Std err" exchange their families
    mut = copy.deepcopy(control_rec)
    for cell in mut['tables']['est_full']['cells']:
        if cell[3] == 'se' and cell[2] in ('cls', 'rob'):
            cell[2] = 'rob' if cell[2] == 'cls' else 'cls'
    got = keys_of(mut) - base
    chk.control('expected table: "Std err" and "Rob. Std err" cells exchanged',
                {'get_estimated_parameters(only_robust=False):Std err',
                 'get_estimated_parameters(only_robust=False):Rob. Std err'} <= got, note=f'{sorted(got)[:4]}')
    # (c) corrupt one OBSERVED field of the real object
    got = keys_of(control_rec, 'akaike') - base
    chk.control('observed AIC of the real object shifted by 1',
                'stats:akaike' in got and 'get_general_statistics:Akaike Information Criterion' in got
                and any(k.startswith('compile_estimation_results') and 'Akaike' in k for k in got), note=f'{sorted(got)[:4]}')
    got = keys_of(control_rec, 'robust_stdErr') - base
    chk.control('observed robust standard error of the first parameter doubled',
                'stats:robust_stdErr' in got and 'get_estimated_parameters(only_robust=True):Rob. Std err' in got
                and any(k.startswith('compile_estimation_results(formatted=True') and ':se' in k for k in got),
                note=f'{sorted(got)[:4]}')

    # (d) the library patched (inside forked children only): the Hessian is INVERTED and the pseudo-inverse is only
    # the fallback when the inversion raises LinAlgError.  Must be reported on every singular Hessian whose
    # floating-point image is regular; is invisible (by construction) where the image is exactly singular.
    if not near_singular:
        raise tlc.MachineryError('no singular Hessian whose floating-point image is regular was explored')
    outs = par.pmap(rr.replay_inv_fallback, near_singular, chunk=16, timeout=600)
    caught = sum(1 for st, val in outs if st == 'ok' and any(m['key'] == 'stats:varCovar' for m in val['mismatches']))
    outs = par.pmap(rr.replay_inv_fallback, exactly_singular, chunk=16, timeout=600)
    unseen = sum(1 for st, val in outs if st == 'ok' and not any(m['key'] == 'stats:varCovar' for m in val['mismatches']))
    chk.control('library patched to invert the Hessian (pseudo-inverse only as fallback on LinAlgError): reported on every '
                'singular Hessian whose rounded image is regular', caught == len(near_singular),
                note=f'reported on {caught} of {len(near_singular)} such outcomes; the same patch goes unnoticed on {unseen} of '
                     f'{len(exactly_singular)} outcomes whose Hessian is exactly singular as floats (inversion raises, fallback)')
    # (e) the library patched to use the number of observations as the N of BIC (panel data: N = individuals)
    if panel_rec is None:
        raise tlc.MachineryError('no outcome whose number of observations differs from the sample size')
    got = keys_of(panel_rec, 'bic_nobs') - keys_of(panel_rec)
    chk.control('library patched to use the number of observations instead of the reported sample size in BIC '
                f'(outcome with sample size {panel_rec["raw"]["N"]}, {panel_rec["raw"]["nobs"]} observations)',
                'stats:bayesian' in got and 'get_general_statistics:Bayesian Information Criterion' in got
                and not any('Sample size' in k or 'sampleSize' in k for k in got), note=f'{sorted(got)[:4]}')

    chk.uncovered += [
        'se / t / p of a parameter whose variance is <= 0 in that family, and pairwise tests whose variance '
        'var_i + var_j - 2 cov_ij is <= 0: no figure is defined; the library reports sentinels (largest float, 0) that it does '
        'not document -- those cells are not compared (count in cells_excluded_variance_not_positive); the covariance '
        'entries themselves are always compared',
        'correlations when ANOTHER parameter of the same family has a variance <= 0: the library replaces the whole '
        'correlation matrix by the largest float; these cells are not compared (count in '
        'correlation_cells_excluded_whole_matrix_sentinel)',
        'eigenvalues, singular values and condition number of the Hessian (irrational in general) are not compared',
        'outcomes without a Hessian, with a reference log likelihood equal to 0, or with more than 3 parameters',
        'likelihood_ratio_test between two models with the same number of parameters (no restricted/unrestricted pair)',
        'HTML, LaTeX, F12 and text renderings of the same figures are not parsed; use_short_names and pickle-file inputs '
        'of compile_estimation_results',
        'raw outcomes of real estimations (floating-point raw matrices cannot be decided by TLC); the packaging of a real '
        'outcome into RawResults belongs to C07',
        'Hessians with a non-zero eigenvalue below 1e-4 of the largest one (32-bit integers of TLC), in particular eigenvalue '
        'ratios near the cut-off (about K * 2.2e-16) of the pseudo-inverse, where "singular" is a matter of convention',
    ]
    chk.assumptions += [
        'sqrt, log and Phi are interpreted by vb/terms.py (math.sqrt, math.log, erfc); the chi-square quantile by the power series '
        'of the incomplete gamma function + bisection in vb/resultsreplay.py; comparison at 1e-9 relative (exact rationals) and '
        '1e-8 where a primitive enters; formatted cells to the 3 significant digits the library prints',
        'the stub model object exposes exactly the attributes RawResults.__init__ reads; its database answers '
        'get_sample_size() and get_number_of_observations() separately (N = 7 individuals with 10 observations in part of the '
        'outcomes); the specification takes the N of BIC from the figure the report labels "Sample size" (results.py: '
        'sampleSize = "number of individuals if panel data")',
        'rational Hessian / BHHH entries reach the library as the nearest floats; their exact pseudo-inverse is compared at 1e-9 '
        'relative (floor 1): rounding perturbs a singular Hessian by <= sqrt(K) * 1.1e-16 of its norm, below the relative cut-off '
        'K * 2.2e-16 of scipy.linalg.pinv, so the rank is kept and the pseudo-inverse moves by <= 3 |X|^2 |E| <= 1e-10 on these '
        'families (largest observed deviation and singular-value ratio: extra.floating_point_image_of_the_hessians); a library '
        'that inverts the rounded matrix reports entries of about 1e16',
    ]


if __name__ == '__main__':
    check.main(PID, body)
