"""C03 -- parameters are identified by name everywhere, never by position of appearance.

IdManager.tla states what "by name" means (tables = function of the SET of leaves, entry k
belongs to the k-th name in Python string order, dictionaries override exactly the names they
list, the optimum is attached to the role's name) and TLC checks it on the model for every
injective renaming into a pool of order-tricky names x every order of appearance x status x
bound pattern x partial dictionary.  Every behaviour is replayed into the real library:
BIOGEME.free_beta_names, get_bounds_on_beta, calculate_likelihood, simulate(dict),
get_value_c(betas=partial dict), change_init_values, fix_betas, the vectors crossing the engine
boundary, estimate() (sample), and name clashes must be refused with BiogemeError.
"""

from __future__ import annotations

import sys

sys.path.insert(0, '/verif')

from fractions import Fraction as F

import numpy as np

from vb import boundary, check, par, rt, tlc
from vb.exprenv import tla_name, tla_q
from vb.rt import close

PID = 'C03'

POOL = ['b1', 'b10', 'b2', 'B', 'a_z', 'Beta_long']
XS = ['1', '2', '4', '-1']
A = [1, 2, 3]
C = [2, -1, 3]
START = ['1/2', '-2', '3']
DICTV = ['0', '-1/2', '4']     # a dictionary may give the value 0 to a parameter whose starting value is not 0


def bound(lo, hi):
    def side(v):
        return f'[set |-> {"TRUE" if v is not None else "FALSE"}, v |-> {tla_q(F(v if v is not None else 0))}]'

    return f'[lo |-> {side(lo)}, hi |-> {side(hi)}]'


def module(nr, pool, status_pats, bound_pats, clashes):
    def seq(xs):
        return '<<' + ', '.join(xs) + '>>'

    sp = '{' + ', '.join(seq(['TRUE' if b else 'FALSE' for b in p]) for p in status_pats) + '}'
    bp = '{' + ', '.join(seq([bound(*b) for b in p]) for p in bound_pats) + '}'
    return f'''---- MODULE IdGen ----
EXTENDS IdManager
G_Pool == {seq(tla_name(n) for n in pool)}
G_A == {seq(str(a) for a in A[:nr])}
G_C == {seq(str(c) if c >= 0 else f"(0 - {-c})" for c in C[:nr])}
G_Start == {seq(tla_q(F(s)) for s in START[:nr])}
G_Xs == {seq(tla_q(F(x)) for x in XS)}
G_StatusPats == {sp}
G_BoundPats == {bp}
G_DictVals == {seq(tla_q(F(s)) for s in DICTV[:nr])}
G_Clashes == {{{", ".join(f'"{c}"' for c in clashes)}}}
G_SplitSets == {{ {{}}, {{1}}, {{{nr}}} }}
G_Constraint == /\\ (clash = "none" \\/ (dict = {{}} /\\ split = {{}} /\\ \\A r \\in Roles : ord[r] = r))
                /\\ (split = {{}} \\/ \\A r \\in Roles : ord[r] = r)
====
'''


def cfg(nr):
    return f'''SPECIFICATION Spec
CONSTANTS
 NR = {nr}
 Pool <- G_Pool
 A <- G_A
 C <- G_C
 Start <- G_Start
 Xs <- G_Xs
 StatusPats <- G_StatusPats
 BoundPats <- G_BoundPats
 DictVals <- G_DictVals
 Clashes <- G_Clashes
 SplitSets <- G_SplitSets
CONSTRAINT G_Constraint
INVARIANT OrderIrrelevant
INVARIANT SortedByName
INVARIANT Attached
INVARIANT RenamingInvariant
INVARIANT DictOverridesOnlyNamed
INVARIANT EmitInv
'''


def name(cp):
    return ''.join(chr(c) for c in cp)


def fq(x):
    return float(F(x[0], x[1]))


def bnd(b):
    return (fq(b['lo']['v']) if b['lo']['set'] else None, fq(b['hi']['v']) if b['hi']['set'] else None)


def build(rec, extra=None):
    """formula with the terms in the order of appearance `ord`"""
    import biogeme.expressions as ex

    nr = len(rec['ren'])
    x = ex.Variable('x')
    betas = {}
    f = None
    for k in range(nr):
        r = rec['ord'][k] - 1
        lo, hi = bnd(rec['bounds_by_role'][r])
        b = ex.Beta(name(rec['ren'][r]), fq(rec['start'][r]), lo, hi, 0 if rec['free'][r] else 1)
        betas[r] = b
        d = b - C[r] * x
        t = -A[r] * (d * d)
        f = t if f is None else f + t
    return f, betas


def database(extra_cols=None):
    import pandas as pd
    import biogeme.database as db

    cols = {'x': [float(F(v)) for v in XS]}
    cols.update(extra_cols or {})
    return db.Database('c03', pd.DataFrame(cols))


def replay(rec):
    import biogeme.biogeme as bio
    import biogeme.expressions as ex
    from biogeme.exceptions import BiogemeError

    out = []
    n = 0
    nr = len(rec['ren'])
    names = [name(c) for c in rec['ren']]
    free_names = [name(c) for c in rec['free_names']]
    fixed_names = [name(c) for c in rec['fixed_names']]
    if rec['clash'] != 'none':
        victim = names[0]
        formula, betas = build(rec)
        if rec['clash'] == 'beta-variable':
            d = database({victim: [1.0] * len(XS)})
            formula = formula + 0 * ex.Variable(victim)
        elif rec['clash'] == 'free-fixed':
            d = database()
            formula = formula + 0 * ex.Beta(victim, 0, None, None, 1 if rec['free'][0] else 0)
        else:
            d = database()
            formula = formula + 0 * ex.MonteCarlo(ex.bioDraws(victim, 'UNIFORM'))
        for label, fn in (('BIOGEME', lambda: bio.BIOGEME(d, formula)),
                          ('get_value_c', lambda: formula.get_value_c(database=d, prepare_ids=True, number_of_draws=4))):
            st, val = rt.forked(fn)
            n += 1
            if st == 'ok':
                out.append(dict(what=f'clash {rec["clash"]} accepted by {label}', name=victim))
            elif st == 'exc' and 'BiogemeError' not in val[1]:
                out.append(dict(what=f'clash {rec["clash"]}: {label} raised {val[0]} instead of BiogemeError', name=victim, msg=val[2]))
            elif st == 'died':
                out.append(dict(what=f'clash {rec["clash"]}: {label} died', name=victim))
        return dict(mismatches=out, n=n)

    d = database()
    formula, betas = build(rec)
    boundary.install()
    boundary.reset()
    b = bio.BIOGEME(d, formula)
    b.generate_html = False
    b.generate_pickle = False
    b.save_iterations = False
    n += 1
    if list(b.free_beta_names) != free_names:
        out.append(dict(what='free_beta_names', got=list(b.free_beta_names), want=free_names))
        return dict(mismatches=out, n=n)
    for k, nm in enumerate(free_names):
        got = b.get_bounds_on_beta(nm)
        want = bnd(rec['bounds'][k])
        n += 1
        if tuple(got) != tuple(want):
            out.append(dict(what=f'bounds of {nm}', got=list(got), want=list(want)))
    values = {names[r]: fq(rec['values'][r]) for r in range(nr)}
    want_ll = fq(rec['ll'])
    want_rows = [fq(v) for v in rec['per_row']]
    x = [values[nm] for nm in free_names]
    got = b.calculate_likelihood(x, scaled=False)
    n += 1
    if not close(got, want_ll, rel=1e-12):
        out.append(dict(what='calculate_likelihood', got=got, want=want_ll, x=x, names=free_names))
    got = b.calculate_likelihood(x, scaled=True)
    if not close(got, want_ll / len(XS), rel=1e-12):
        out.append(dict(what='calculate_likelihood(scaled)', got=got, want=want_ll / len(XS)))
    # simulate with a complete dictionary given in a scrambled key order
    full = {nm: values[nm] for nm in reversed(free_names)}
    sim = b.simulate(full)
    n += 1
    col = sim[sim.columns[0]].tolist()
    if any(not close(g, w, rel=1e-12) for g, w in zip(col, want_rows)) or len(col) != len(want_rows):
        out.append(dict(what='simulate(dict)', got=col, want=want_rows))
    # boundary: the vectors handed to the engine by BIOGEME (x, fixed) and the Beta leaf lines
    fixed_init = [fq(v) for v in rec['fixed_init']]
    for c in boundary.LOG:
        if c['call'] == 'calculateLikelihood':
            if [float(v) for v in c['args'][1]] != fixed_init:
                out.append(dict(what='boundary fixed vector', got=c['args'][1], want=fixed_init, names=fixed_names))
        if c['call'] == 'setExpressions':
            lines = boundary.parse_signature(c['args'][0])
            for l in lines:
                if l['cls'] == 'Beta':
                    tab = free_names if l['status'] == 0 else fixed_names
                    if l['name'] not in tab or l['kind'] != tab.index(l['name']):
                        out.append(dict(what='boundary Beta line index', line=l['raw'], want_table=tab))
                    want_elem = tab.index(l['name']) + (0 if l['status'] == 0 else len(free_names)) if l['name'] in tab else None
                    if l['elem'] != want_elem:
                        out.append(dict(what='boundary Beta line elementary index', line=l['raw'], want=want_elem))
    boundary.reset()
    # several formulas side by side: the roles of `split` occur only in a second formula
    if any(rec['split']):
        x_ = ex.Variable('x')
        terms_ll, terms_aux, bobj = None, None, {}
        for k in range(nr):
            r = rec['ord'][k] - 1
            lo_, hi_ = bnd(rec['bounds_by_role'][r])
            be = ex.Beta(names[r], fq(rec['start'][r]), lo_, hi_, 0 if rec['free'][r] else 1)
            if rec['split'][r]:
                t_ = A[r] * (be + C[r] * x_)
                terms_aux = t_ if terms_aux is None else terms_aux + t_
            else:
                dd_ = be - C[r] * x_
                t_ = -A[r] * (dd_ * dd_)
                terms_ll = t_ if terms_ll is None else terms_ll + t_
        b6 = bio.BIOGEME(d, {'aux': terms_aux, 'log_like': terms_ll})
        n += 1
        if list(b6.free_beta_names) != free_names:
            out.append(dict(what='several formulas: free_beta_names', got=list(b6.free_beta_names), want=free_names))
        else:
            got = b6.calculate_likelihood(x, scaled=False)
            if not close(got, fq(rec['ll_split']), rel=1e-12):
                out.append(dict(what='several formulas: likelihood', got=got, want=fq(rec['ll_split']), x=x, names=free_names))
            sim6 = b6.simulate({nm: values[nm] for nm in free_names})
            want_aux = [fq(v) for v in rec['aux_per_row']]
            if any(not close(g, w, rel=1e-12) for g, w in zip(sim6['aux'].tolist(), want_aux)):
                out.append(dict(what='several formulas: simulate of the second formula', got=sim6['aux'].tolist(), want=want_aux))
    # partial dictionary through get_value_c: only the named parameters are overridden
    partial = {names[r]: fq(rec['dictvals'][r]) for r in range(nr) if rec['dict'][r]}
    f2, _ = build(rec)
    got = f2.get_value_c(database=d, betas=partial, prepare_ids=True)
    n += 1
    if any(not close(g, w, rel=1e-12) for g, w in zip(got, want_rows)):
        out.append(dict(what='get_value_c(betas=partial dict)', got=list(got), want=want_rows, dict=partial))
    for c in boundary.LOG:
        if c['call'] == 'setFreeBetas' and [float(v) for v in c['args'][0]] != x:
            out.append(dict(what='boundary free vector (get_value_c)', got=c['args'][0], want=x, names=free_names))
        if c['call'] == 'setFixedBetas' and [float(v) for v in c['args'][0]] != fixed_init:
            out.append(dict(what='boundary fixed vector (get_value_c)', got=c['args'][0], want=fixed_init))
    boundary.reset()
    # a history on ONE prepared expression (persistent id manager): a partial dictionary, then no dictionary, then the
    # partial dictionary again -- each call overrides exactly the names IT is given, nothing is remembered
    if partial:
        f5, _ = build(rec)
        f5.prepare(d, 0)
        want_start = [fq(v) for v in rec['per_row_start']]
        for label, dct, want in (('partial dict', partial, want_rows), ('empty dict after a partial one', {}, want_start), ('partial dict again', partial, want_rows)):
            got = f5.get_value_c(database=d, betas=dct, prepare_ids=False)
            n += 1
            if any(not close(g, w, rel=1e-12) for g, w in zip(got, want)):
                out.append(dict(what=f'history on a prepared expression: {label}', got=list(got), want=want, dict=dct))
    # change_init_values by name, then evaluation without a dictionary
    f3, _ = build(rec)
    f3.change_init_values(partial)
    got = f3.get_value_c(database=d, prepare_ids=True)
    n += 1
    if any(not close(g, w, rel=1e-12) for g, w in zip(got, want_rows)):
        out.append(dict(what='change_init_values then get_value_c', got=list(got), want=want_rows, dict=partial))
    # fix_betas by name: the named parameters become fixed at the given value, nothing else changes
    if partial:
        f4, _ = build(rec)
        f4.fix_betas(partial)
        b4 = bio.BIOGEME(d, f4)
        want_free = [nm for nm in free_names if nm not in partial]
        n += 1
        if list(b4.free_beta_names) != want_free:
            out.append(dict(what='fix_betas: free names', got=list(b4.free_beta_names), want=want_free))
        else:
            got = b4.calculate_likelihood([values[nm] for nm in want_free], scaled=False)
            if not close(got, want_ll, rel=1e-12):
                out.append(dict(what='fix_betas: likelihood', got=got, want=want_ll))
    return dict(mismatches=out, n=n)


def replay_estimate(rec):
    import biogeme.biogeme as bio

    d = database()
    formula, betas = build(rec)
    b = bio.BIOGEME(d, formula)
    b.generate_html = False
    b.generate_pickle = False
    b.save_iterations = False
    b.modelName = 'c03est'
    res = b.estimate()
    est = res.get_beta_values()
    out = []
    names = [name(c) for c in rec['ren']]
    for r, nm in enumerate(names):
        if not rec['free'][r]:
            if nm in est:
                out.append(dict(what='fixed parameter reported as estimate', name=nm))
            continue
        want = fq(rec['optimum'][r])
        if nm not in est or not close(est[nm], want, rel=1e-4, abs_=1e-4):
            out.append(dict(what='estimate attached to name', name=nm, got=est.get(nm), want=want, all=est))
    # starting values written back by name; fixed untouched
    for r, bobj in betas.items():
        if rec['free'][r]:
            if not close(bobj.initValue, fq(rec['optimum'][r]), rel=1e-4, abs_=1e-4):
                out.append(dict(what='init value after estimation', name=names[r], got=bobj.initValue, want=fq(rec['optimum'][r])))
        elif bobj.initValue != fq(rec['start'][r]):
            out.append(dict(what='fixed parameter changed', name=names[r], got=bobj.initValue))
    return dict(mismatches=out, n=1)


def body(chk: check.Check):
    rt.setup(chk.seed)
    quick = chk.tier == 'quick'
    nr = 3
    pool = POOL[:4] if quick else POOL[:5]
    status = [[True, True, True], [True, False, True]] if quick else \
             [[True, True, True], [True, False, True], [False, True, True], [True, True, False], [False, False, True]]
    bounds = [[(None, None), (None, None), (None, None)],
              [(-1, 1), (None, 0), (2, None)],
              [(3, 10), (-5, -3), (None, None)]]
    if quick:
        bounds = bounds[1:]
    clashes = ['none', 'beta-variable', 'free-fixed', 'beta-draw']
    res = tlc.run('IdGen', cfg(nr), extra_modules={'IdGen': module(nr, pool, status, bounds, clashes)}, workers='auto', timeout=1800)
    chk.add_tlc(f'IdManager: {nr} roles, pool {pool}, {len(status)} status x {len(bounds)} bound patterns', res)
    recs = res.emitted
    chk.rule = ('behaviours of IdManager.tla: injective renamings into a pool of order-tricky names x orders of appearance x '
                'status patterns x bound patterns x partial dictionaries x name clashes; distinct = distinct (renaming, order, status, '
                'bounds, dict, clash) tuples')
    results = par.pmap(replay, recs, chunk=25)
    for rec, (st, val) in zip(recs, results):
        key = (tuple(name(c) for c in rec['ren']), tuple(rec['ord']), tuple(rec['free']), str(rec['bounds_by_role']), tuple(rec['dict']), rec['clash'])
        chk.replayed += 1
        if st != 'ok':
            chk.violation(f'replay:{st}', dict(error=val, names=key[0], order=key[1], clash=rec['clash']), match=dict(kind='exception'))
            continue
        chk.count(key, val['n'])
        chk.sample(dict(names_by_role=key[0], order=key[1], free=rec['free'], dict=rec['dict'], clash=rec['clash'],
                        expected_free_names=[name(c) for c in rec['free_names']], expected_ll=str(F(*rec['ll']))))
        for m in val['mismatches']:
            chk.violation('replay:' + m['what'].split(':')[0][:40], {**dict(names=key[0], order=key[1], free=rec['free'], dict_roles=rec['dict']), **m},
                          match=dict(kind='value', clash=rec['clash']))
    # estimation on a sample of clash-free behaviours
    rng = np.random.default_rng(chk.seed)
    ok = [r for r in recs if r['clash'] == 'none' and not any(r['dict'])]
    sub = [ok[i] for i in rng.choice(len(ok), size=min(len(ok), 48 if quick else 600), replace=False)]
    results = par.pmap(replay_estimate, sub, chunk=4)
    for rec, (st, val) in zip(sub, results):
        chk.evaluations += 1
        if st != 'ok':
            chk.violation(f'estimate:{st}', dict(error=val, names=[name(c) for c in rec['ren']]), match=dict(kind='exception'))
            continue
        for m in val['mismatches']:
            chk.violation('estimate:' + m['what'][:40], {**dict(names=[name(c) for c in rec['ren']], order=rec['ord']), **m}, match=dict(kind='estimate'))
    chk.extra['estimations'] = len(sub)
    # negative controls: expected tables of another renaming / swapped dictionary values must be reported
    import copy

    base = next(r for r in recs if r['clash'] == 'none' and sum(r['free']) >= 2 and any(r['dict']))
    mut = copy.deepcopy(base)
    mut['free_names'] = mut['free_names'][::-1]
    st, val = rt.forked(replay, mut)
    chk.control('expected free names in reverse order', st != 'ok' or bool(val['mismatches']))
    mut = copy.deepcopy(base)
    i, j = [r for r in range(nr) if base['free'][r]][:2]
    mut['values'][i], mut['values'][j] = base['values'][j], base['values'][i]
    st, val = rt.forked(replay, mut)
    chk.control('values of two parameters exchanged in the expectation (likelihood unchanged in the spec)',
                st != 'ok' or any('vector' in m['what'] or 'simulate' in m['what'] or 'get_value_c' in m['what'] or 'likelihood' in m['what'] for m in val['mismatches']))
    chk.uncovered += ['dictionaries naming a FIXED parameter (the statement is ambiguous there)',
                      'statistics attached to names are covered with C08/C07']
    chk.assumptions += ['estimates compared at 1e-4 (optimiser tolerance)']


if __name__ == '__main__':
    check.main(PID, body)
