"""C13 -- data-set transformations keep rows and values intact.

(A) TLC checks specs/Database.tla itself ("model" mode): every history of Remove / AddColumn /
    Scale / Panel / BuildMap / Split / Sample / SampleIndividuals / Extract / Flatten / Count on
    small tables with the label patterns {0..n-1, gaps, permuted, duplicates}; Split and the
    samples take EVERY allowed outcome; invariant ModelInv = RemoveExact, AddExact, ScaleOne,
    PanelSound, FoldsPartition, SamplesExist, ExtractSound, FlattenSound, CountSound,
    ObserversStutter, LabelFree (labels are never used as positions).
(B) spec -> code: every history TLC generates ("gen" mode, exhaustive to the given depth; in
    -simulate mode histories of up to 12 mutating operations on tables of up to 20 rows) is applied
    to a real biogeme.database.Database built from a pandas DataFrame with the given index labels;
    after every step labels and values of Database.data, excludedData, the panel column, the
    individual map, the return value or the refusal are compared with the spec's expectation.
(C) code -> spec: everything the real object returned along the history (folds, samples, extracted
    rows, flat tables, counts, states) is logged and judged by specs/DatabaseTrace.tla: random
    results must be ONE OF the outcomes the design allows (folds: validation parts form a partition,
    estimation = complement, groups intact; samples: existing rows / individuals, right size).
"""

from __future__ import annotations

import copy
import json
import sys

sys.path.insert(0, '/verif')

import numpy as np

from vb import check, dbmodel, par, rt, tlc
from vb.tlc import MachineryError

PID = 'C13'
MUTATORS = ('remove', 'add', 'scale', 'panel', 'buildmap')
RANDOM = ('split', 'sample', 'sampleind')


def run_model(chk, name, tables, depth, *, mutant=False):
    pool = dbmodel.model_pool(tables)
    cfg = pool.cfg('model', depth, ['ModelInv'], remove_impl='RemoveByLabel' if mutant else 'RemoveByPosition')
    res = tlc.run('MCDatabase', cfg, extra_modules={'MCDatabase': pool.module()}, workers='auto', timeout=2400)
    chk.add_tlc(name, res, expect_ok=not mutant)
    return res


def generate(chk, name, pool, depth, *, obs_thin, salt, simulate=None, sim_depth=None, seed=None):
    cfg = pool.cfg('gen', depth, ['EmitInv'], obs_thin=obs_thin, salt=salt)
    res = tlc.run('MCDatabase', cfg, extra_modules={'MCDatabase': pool.module()}, workers='auto' if simulate is None else 4,
                  timeout=2400, simulate=simulate, depth=sim_depth, seed=seed)
    chk.add_tlc(name, res)
    hists, seen = [], set()
    for h in res.emitted:
        if not (isinstance(h, dict) and 'steps' in h):
            continue
        key = json.dumps(h, sort_keys=True)
        if key in seen:
            continue
        seen.add(key)
        h['pattern'] = pool.tables[h['tid'] - 1].get('pattern', '?')
        h['base'] = pool.tables[h['tid'] - 1].get('base', -1)
        hists.append(h)
    return hists


def describe(h, upto=None):
    out = []
    for s in h['steps'][:upto]:
        a = s['a']
        if s['op'] in ('remove', 'add'):
            f = a['fm']
            out.append(f"{s['op']}({f['f']} {f['a']} {f['b']} {f['v']}".strip() + (f" -> {a['name']})" if s['op'] == 'add' else ')'))
        elif s['op'] == 'scale':
            out.append(f"scale({a['col']} * {a['num']}/{a['den']})")
        elif s['op'] == 'panel':
            out.append(f"panel({a['col']})")
        elif s['op'] == 'split':
            out.append(f"split({a['k']}, {a['g'] or None})")
        elif s['op'] in ('sample', 'sampleind'):
            out.append(f"{s['op']}({a['nn'] or None})")
        elif s['op'] == 'extract':
            out.append(f"extract({[p - 1 for p in a['ps']]})")
        elif s['op'] == 'flatten':
            out.append(f"flatten({a['kind']})")
        elif s['op'] == 'count':
            out.append(f"count({a['col']} == {a['v']})")
        else:
            out.append(s['op'])
    return out


def mutator_view(h, tr):
    """expected (spec) and observed (real object) state after every mutating operation"""
    out = []
    for s, e in zip(h['steps'], tr['events']):
        if s['op'] in MUTATORS:
            out.append(dict(op=describe(dict(steps=[s]))[0], refused=s['e']['err'] or None,
                            expected_rows=None if s['e']['same'] else s['e']['post']['rows'], observed_rows=e['post']['rows'],
                            observed_excluded=e['post']['excl'], observed_map=e['post']['map']))
    return out


def replay_all(chk, hists, stats, label, batch=8000, keep=300):
    """(B) replay + (C) validation of the logs.  One verdict per history: the first failing clause."""
    kept = []
    for b0 in range(0, len(hists), batch):
        kept += replay_batch(chk, hists[b0:b0 + batch], stats, f'{label} batch {b0 // batch}', keep - len(kept))
    return kept


def replay_batch(chk, hists, stats, label, keep):
    results = par.pmap(dbmodel.replay, hists, chunk=40)
    traces = []
    for k, (h, (st, val)) in enumerate(zip(hists, results)):
        chk.replayed += 1
        if st != 'ok':
            chk.violation(f'replay:{st}', dict(history=describe(h), table=h['init'], error=val),
                          match=dict(kind='exception', pattern=h['pattern']))
            continue
        val['tid'] = stats['ntraces']
        stats['ntraces'] += 1
        val['_h'] = h
        traces.append(val)
        muts = tuple(json.dumps(s['a'], sort_keys=True) + s['op'] for s in h['steps'] if s['op'] in MUTATORS)
        chk.count(hash((h['pattern'], h['base'], muts)), val['nsteps'])
        stats['patterns'][h['pattern']] = stats['patterns'].get(h['pattern'], 0) + 1
        for op in val['ops']:
            stats['ops'][op] = stats['ops'].get(op, 0) + 1
        for note in val['notes']:
            stats['notes'][note] = stats['notes'].get(note, 0) + 1
        nm = sum(1 for s in h['steps'] if s['op'] in MUTATORS)
        stats['max_mutators'] = max(stats['max_mutators'], nm)
        stats['max_rows'] = max(stats['max_rows'], len(h['init']['rows']))
    # every event goes to DatabaseTrace for one history in four; for the others the deterministic reading
    # operations (already compared with the spec's expectation by the replay) are left out of the log
    for tr in traces:
        for i, e in enumerate(tr['events']):
            e['k'] = i + 1
        last = len(tr['events']) - 1
        tr['vevents'] = tr['events'] if tr['tid'] % 4 == 0 else [
            e for i, e in enumerate(tr['events'])
            if e['op'] in MUTATORS or e['op'] in RANDOM or (i == last and tr['mismatch'] is not None)]
        stats['events_validated'] += len(tr['vevents'])
    verdicts, tres = dbmodel.validate(traces, shards=16)
    agg = tlc.TlcResult()
    for r in tres:
        if r.error or r.violated:
            chk.add_tlc(f'DatabaseTrace {label}', r)
        agg.states += r.states
        agg.generated += r.generated
        agg.wall_s = max(agg.wall_s, r.wall_s)
        agg.emitted += r.emitted
    chk.add_tlc(f'DatabaseTrace {label}: {len(traces)} recorded histories in {len(tres)} shards', agg)
    ok = []
    for tr in traces:
        h = tr['_h']
        v = verdicts.get(tr['tid'])
        mm = tr['mismatch']
        if v is None:
            raise MachineryError(f'trace {tr["tid"]} was not consumed by DatabaseTrace')
        if v['events'] != len(tr['vevents']):
            raise MachineryError(f'trace {tr["tid"]}: {v["events"]} of {len(tr["vevents"])} events consumed')
        vstep = tr['vevents'][v['step'] - 1]['k'] if v['step'] else 0
        if v['verdict'] != 'ok' and mm is None:
            # the trace specification rejects an outcome the replay comparison let through (it judges the random
            # outcomes -- folds, samples -- which the replay cannot predict): a violation, reported as such
            mm = dict(clause=v['verdict'], step=vstep, got='(recorded event)', want='(one of the outcomes the specification allows)',
                      before=None, op=v['verdict'].split(':')[0], features=[])
            tr['mismatch'] = mm
        elif mm is not None and mm['clause'].startswith('returned-table:'):
            pass     # aliasing between the data set and a table it handed back: seen by the replay only (the recorded events are values)
        elif (v['verdict'] == 'ok') != (mm is None) or (mm is not None and (v['verdict'] != mm['clause'] or vstep != mm['step'])):
            raise MachineryError('replay and trace validation disagree on one history: '
                                 f'replay {mm and (mm["clause"], mm["step"])}, trace {v}; history {describe(h)} on {h["init"]}')
        if mm is None:
            chk.traces += 1
            for e in tr['events']:
                if e['op'] in ('split', 'sample', 'sampleind') and not e['err']:
                    stats['random_outcomes_accepted'] += 1
            nm = [s for s in h['steps'] if s['op'] in MUTATORS and not s['e']['err']]
            if len(nm) >= 2 and len({s['op'] for s in nm}) >= 2 and any(e['op'] == 'split' and not e['err'] for e in tr['events']):
                j = max(i for i, e in enumerate(tr['events']) if e['op'] == 'split' and not e['err'])
                chk.sample(dict(labels=h['pattern'], table=h['init']['rows'], columns=h['init']['cols'], history=describe(h),
                                mutating_steps=mutator_view(h, tr),
                                one_observed_split=dict(args=tr['events'][j]['a'], folds=tr['events'][j]['ret']),
                                verdict_replay='ok', verdict_DatabaseTrace=v['verdict']), limit=3)
            if len(ok) < keep:
                ok.append(tr)
            continue
        chk.violation(f"{mm['clause']}", dict(labels=h['pattern'], table=h['init']['rows'], history=describe(h, mm['step']),
                                              step=mm['step'], clause=mm['clause'], state_before=mm['before'],
                                              expected=mm['want'], observed=mm['got'], trace_verdict=v['verdict']),
                      match=dict(kind='history', op=mm['op'], clause=mm['clause'], features=mm['features'], pattern=h['pattern']))
    return ok


def controls(chk, ok_traces, hists_by_tid):
    """Negative controls: corruptions of recorded results / of expected values must be reported."""
    cands = []

    def pick(pred):
        for tr in ok_traces:
            for j, e in enumerate(tr['events']):
                if pred(tr, j, e):
                    return tr, j
        return None

    def clone(tr):
        return dict(tid=0, init=copy.deepcopy(tr['init']), events=copy.deepcopy(tr['events']))

    # (1) one row of a recorded validation fold is dropped
    hit = pick(lambda tr, j, e: e['op'] == 'split' and not e['err'] and any(f['val'] for f in e['ret']))
    if hit:
        c = clone(hit[0])
        f = next(f for f in c['events'][hit[1]]['ret'] if f['val'])
        del f['val'][0]
        cands.append(('one row dropped from a recorded validation fold', c))
    # (2) a row of one group is moved to another fold (estimation parts adjusted): the group is separated
    hit = pick(lambda tr, j, e: e['op'] == 'split' and not e['err'] and (e['a']['g'] or e['post']['pcol'])
               and len(e['ret']) == 2 and len(e['ret'][0]['val']) >= 2 and len(e['ret'][1]['val']) >= 1)
    if hit:
        c = clone(hit[0])
        e = c['events'][hit[1]]
        cols = e['post']['cols']
        g = 1 + cols.index(e['post']['pcol'] or e['a']['g'])
        rows0 = e['ret'][0]['val']
        same = [r for r in rows0 if r[g] == rows0[0][g]]
        if len(same) >= 2:
            r = rows0.pop(0)
            e['ret'][1]['val'].append(r)
            e['ret'][0]['est'].append(r)
            e['ret'][1]['est'].remove(r)
            cands.append(('one row of a group moved to the other fold (a group is separated)', c))
    # (3) one cell of the table recorded after add_column is changed
    hit = pick(lambda tr, j, e: e['op'] == 'add' and not e['err'])
    if hit:
        c = clone(hit[0])
        c['events'][hit[1]]['post']['rows'][-1][-1] += 1
        cands.append(('one cell of the table recorded after add_column changed', c))
    # (4) a sampled row is replaced by a row that is not in the table
    hit = pick(lambda tr, j, e: e['op'] == 'sample' and not e['err'])
    if hit:
        c = clone(hit[0])
        c['events'][hit[1]]['ret'][0] = [v + 1 for v in c['events'][hit[1]]['ret'][0]]
        cands.append(('a sampled row replaced by a row that does not exist', c))
    # (5) the recorded event of a remove that deleted something is dropped from the log
    hit = pick(lambda tr, j, e: e['op'] == 'remove' and not e['err'] and e['post']['excl'] > 0 and j + 1 < len(tr['events']))
    if hit:
        c = clone(hit[0])
        del c['events'][hit[1]]
        cands.append(('the event of an effective remove dropped from the log', c))
    # (6) the reported number of removed rows is changed
    hit = pick(lambda tr, j, e: e['op'] == 'remove' and not e['err'])
    if hit:
        c = clone(hit[0])
        c['events'][hit[1]]['post']['excl'] += 1
        cands.append(('reported number of removed rows changed by one', c))
    # (7) the label of one row after a remove is replaced by its position
    hit = pick(lambda tr, j, e: e['op'] == 'remove' and not e['err'] and any(r[0] != i for i, r in enumerate(e['post']['rows'])))
    if hit:
        c = clone(hit[0])
        rows = c['events'][hit[1]]['post']['rows']
        i = next(i for i, r in enumerate(rows) if r[0] != i)
        rows[i][0] = i
        cands.append(('label of a surviving row replaced by its position', c))
    for k, (_, c) in enumerate(cands):
        c['tid'] = k
    if len(cands) < 4:
        raise MachineryError(f'only {len(cands)} trace corruptions could be built')
    verdicts, tres = dbmodel.validate([c for _, c in cands], shards=1)
    for r in tres:
        if r.error:
            raise MachineryError(f'control validation failed: {r.error[:800]}')
    for k, (name, c) in enumerate(cands):
        v = verdicts.get(k, {}).get('verdict', 'not-consumed')
        chk.control(f'trace corruption: {name}', v not in ('ok', 'not-consumed'), f'verdict={v}')

    # direction B: a mutant of the spec's expectation must be reported by the replay
    done = set()
    for tr in ok_traces:
        h = tr['_h']
        for j, s in enumerate(h['steps']):
            e = s['e']
            kind = None
            if s['op'] == 'count' and not e['err'] and 'count' not in done:
                kind = 'count'
            elif s['op'] == 'scale' and not e['err'] and 'scale' not in done:
                kind = 'scale'
            elif s['op'] == 'flatten' and not e['err'] and e['ret'] and e['ret'][0]['obs'] and 'flatten' not in done:
                kind = 'flatten'
            if not kind:
                continue
            m = copy.deepcopy(h)
            me = m['steps'][j]['e']
            if kind == 'count':
                me['ret'] += 1
                name = 'expected count increased by one'
            elif kind == 'scale':
                col = 1 + me['post']['cols'].index(s['a']['col'])
                other = 1 if col != 1 else 2
                me['post']['rows'][0][other] += 1
                name = 'expectation after scale_column: a cell of ANOTHER column changed'
            else:
                me['ret'][0]['obs'][0][0][1] += 1
                name = 'expected flat table: one cell of the first observation changed'
            st, val = rt.forked(dbmodel.replay, m)
            chk.control(f'replay against a mutated expectation: {name}', st == 'ok' and val['mismatch'] is not None
                        and val['mismatch']['step'] == j + 1, f"reported {val['mismatch']['clause'] if st == 'ok' and val['mismatch'] else None}")
            done.add(kind)
        if len(done) == 3:
            break
    if len(done) < 2:
        raise MachineryError('no history suitable for the direction-B controls')


def body(chk: check.Check):
    rt.setup(chk.seed)
    import biogeme.database  # noqa: imported before forking (1.5 s)
    import biogeme.expressions  # noqa

    quick = chk.tier == 'quick'
    salt = chk.seed % 97
    dbmodel.SEED = chk.seed
    stats = dict(ntraces=0, events_validated=0, patterns={}, ops={}, notes={}, max_mutators=0, max_rows=0, random_outcomes_accepted=0)
    chk.rule = ('histories generated by TLC from Database.tla; distinct = distinct (label pattern, table, sequence of mutating '
                'operations with arguments); an evaluation = one operation applied to the real Database and compared '
                '(state with labels, return value / refusal) with the specification')

    # ------------------------------------------------------------------ (A) the model itself
    five = ([t for t in dbmodel.small_tables([0, 1]) if (t['base'], t['pattern']) in ((0, 'duplicate'), (1, 'gaps'))] if quick
            else dbmodel.small_tables([0]) + dbmodel.small_tables([1], patterns=('gaps', 'duplicate')))
    small = dbmodel.small_tables([2, 3, 4])
    run_model(chk, f'Database model, {len(five)} tables of 5 rows, depth {2 if quick else 3}', five, 2 if quick else 3)
    run_model(chk, f'Database model, {len(small)} tables of 1-4 rows, depth {2 if quick else 4}', small, 2 if quick else 4)
    res = run_model(chk, 'Database model with Remove-by-label (mutant)', dbmodel.small_tables([2]), 1, mutant=True)
    chk.control('model mutant: Remove deletes by index label -> TLC must find ModelInv violated', res.violated == 'ModelInv',
                f'violated={res.violated}')

    # ------------------------------------------------------------------ (B) + (C)
    all_tables = dbmodel.small_tables()
    hists = generate(chk, f'histories of 2 mutators, full alphabet, {len(all_tables)} tables', dbmodel.gen_pool(all_tables, 'full'), 2,
                     obs_thin=5 if quick else 3, salt=salt)
    if quick:
        t3 = dbmodel.small_tables([0])
        hists += generate(chk, f'histories of 3 mutators, reduced alphabet, {len(t3)} tables', dbmodel.gen_pool(t3, 'small'), 3,
                          obs_thin=4, salt=salt)
    else:
        t3 = dbmodel.small_tables([0, 2]) + dbmodel.small_tables([1], patterns=('gaps', 'duplicate'))
        hists += generate(chk, f'histories of 3 mutators, full alphabet, {len(t3)} tables', dbmodel.gen_pool(t3, 'full'), 3,
                          obs_thin=4, salt=salt)
        t4 = dbmodel.small_tables([0, 2], patterns=('gaps', 'duplicate'))
        hists += generate(chk, f'histories of 4 mutators, reduced alphabet, {len(t4)} tables', dbmodel.gen_pool(t4, 'small'), 4,
                          obs_thin=6, salt=salt)
    ok_traces = replay_all(chk, hists, stats, 'exhaustive')
    del hists

    # random walks: up to 12 mutating operations on tables of up to 20 rows
    rng = np.random.default_rng(chk.seed)
    big = dbmodel.random_tables(rng, 4 if quick else 16, 20)
    pool = dbmodel.gen_pool(big, 'full')
    pool.bound = 20000
    walks = generate(chk, f'random walks (TLC -simulate) of up to 12 mutators on {len(big)} tables of 6-20 rows', pool, 12,
                     obs_thin=6, salt=salt, simulate=dict(num=3 if quick else 60), sim_depth=14, seed=chk.seed)
    ok_traces += replay_all(chk, walks, stats, 'random walks', keep=100)

    controls(chk, ok_traces, None)

    chk.extra['histories_by_label_pattern'] = stats['patterns']
    chk.extra['operations_replayed'] = stats['ops']
    chk.extra['random_outcomes_accepted_by_DatabaseTrace'] = stats['random_outcomes_accepted']
    chk.extra['events_judged_by_DatabaseTrace'] = stats['events_validated']
    chk.extra['longest_history_mutators'] = stats['max_mutators']
    chk.extra['largest_table_rows'] = stats['max_rows']
    chk.extra['observations_outside_the_property'] = dict(
        stats['notes'], note='panel-flag-after-refusal: Database.panel() on non-consecutive data raises BiogemeError but leaves '
                             'panelColumn set (is_panel() is True afterwards); counted, not judged')
    chk.uncovered += [
        'freshness of the individual map after remove/scale on a panel table (the map is only rebuilt by build_panel_map; samples are judged against the map the object holds)',
        'order of the lines of the flat table and of the rows inside folds/samples (compared as mappings / bags)',
        'balance of the fold sizes',
        'cells are small integers (scales num/den only where the result is integral); no NaN, no non-numeric columns',
        'the state of the object after a refused panel() (see observations_outside_the_property)',
        'flatten_database with row_name, save_on_file, identical_columns naming a varying column',
    ]
    chk.assumptions += ['engine evaluation of +, *, comparisons on small integers is exact (values compared exactly)',
                        'pandas index labels and cells read back through DataFrame.index / .values']


if __name__ == '__main__':
    check.main(PID, body)
