"""C02 -- gradient, Hessian and BHHH returned with a value are its true derivatives.

The oracle is ExprLang!Jet: second-order forward-mode differentiation by the calculus rules,
built by TLC as terms (TLC decides which rule applies at each node, including every discrete
decision; the driver does the arithmetic exactly with fractions / libm).  Entry k belongs to the
k-th NAME (Names order) among the free parameters occurring in the formula.  Replayed into
get_value_and_derivatives (all legal flag combinations, aggregated and per observation, named
results), BIOGEME.calculate_likelihood_and_derivatives (scaled or not), create_function and
create_objective_function; the literal ids crossing the engine boundary must be 0..K-1.
"""

from __future__ import annotations

import sys

sys.path.insert(0, '/verif')

import numpy as np

from vb import check, exprenv, exprreplay, flagship, par, rt, tlc

PID = 'C02'


def body(chk: check.Check):
    rt.setup(chk.seed)
    quick = chk.tier == 'quick'
    salt = (chk.seed + 17) % 9973
    invs = ['GradSupport', 'HessSym', 'TabAgrees', 'EmitInv']
    runs = []
    pool1 = exprenv.pool_mid() if quick else exprenv.pool_full()
    runs.append((pool1, 1, (1,), 0))
    pool2 = exprenv.pool_small()
    runs.append((pool2, 2, (3, 4) if quick else (2, 3), salt))
    if not quick:
        runs.append((pool2, 3, (6, 8, 12), salt))
    # formulas CONTAINING the Monte-Carlo operator (log(MonteCarlo(f(beta, draws))) and the like): the derivative of
    # a mean over the draws is the mean of the derivatives, whatever is built above the operator
    pool_mc = exprenv.pool_mc()
    runs.append((pool_mc, 2, (2, 2) if quick else (1, 1), salt))
    if not quick:
        runs.append((pool_mc, 3, (4, 6, 8), salt))
    chk.rule = ('differentiable DAGs emitted by TLC from ExprLang with their jets (value, gradient, Hessian as terms); '
                'distinct = distinct canonical formulas with at least one free parameter; each is evaluated at 2 points x 3 rows '
                'through every derivative entry point')
    # deep formulas of the kind users estimate (mixed logit on cross-sectional and on panel data, 6-14 operators):
    # proposed from outside (vb/flagship.py), accepted by the specification only if inside the domain (ProposalOK),
    # expected values and jets computed by the specification bottom-up (ValTab / JetTab, which TabAgrees ties to
    # the recursive definitions on the enumerated formulas above)
    nprop = 25 if quick else 150
    for panel in (False, True):
        fpool = flagship.pool_panel() if panel else flagship.pool_cross()
        runs.append((fpool, 0, flagship.proposals(chk.seed, nprop, panel), 0))
    nb = 0
    for pool, max_ops, thin, s in runs:
        if max_ops == 0:
            res = tlc.run('MCExprGen', pool.cfg(0, ['EmitInv']), extra_modules={'MCExprGen': pool.module(start=thin)}, workers='auto', timeout=2400)
            chk.add_tlc(f'ExprLang: {len(thin)} proposed mixed-logit formulas on {"panel" if pool.panel else "cross-sectional"} data', res)
            chk.extra.setdefault('proposed_formulas', 0)
            chk.extra['proposed_formulas'] += len(thin)
            chk.extra.setdefault('proposed_formulas_accepted', 0)
            chk.extra['proposed_formulas_accepted'] += len(res.emitted)
            if len(res.emitted) < len(thin) // 2:
                raise tlc.MachineryError(f'only {len(res.emitted)} of {len(thin)} proposed formulas were accepted by the specification')
        else:
            res = tlc.run('MCExprGen', pool.cfg(max_ops, invs, salt=s), extra_modules={'MCExprGen': pool.module(thin=thin)},
                          workers='auto', timeout=2400)
            chk.add_tlc(f'ExprLang {max_ops} operator(s), thin {thin}, salt {s}, {len(pool.leaves)} leaves', res)
        recs = [r for r in res.emitted if r['diff'] and r['freeocc']]
        chk.extra.setdefault('emitted_total', 0)
        chk.extra['emitted_total'] += len(res.emitted)
        chk.extra.setdefault('not_differentiable_skipped', 0)
        chk.extra['not_differentiable_skipped'] += sum(1 for r in res.emitted if not r['diff'])
        exprreplay.init(pool)
        nl = len(pool.leaves)
        results = par.pmap(exprreplay.replay_derivatives, recs, chunk=40 if max_ops else 2)
        for rec, (st, val) in zip(recs, results):
            desc = exprreplay.describe(rec)
            feats = exprenv.features(rec['ops'], rec['root'], nl)
            chk.replayed += 1
            if st != 'ok':
                chk.violation(f'replay:{st}', dict(formula=desc, ops=rec['ops'], error=val),
                              match=dict(kind='exception', features=feats))
                continue
            chk.count(desc, val['n'])
            if len(rec['freeocc']) >= 2:
                chk.sample(dict(formula=desc, free_parameters=rec['freeocc'],
                                gradient_row1_point1=[exprreplay.terms.show(t) for t in rec['jets'][0][0]['g']],
                                evaluations=val['n'], mismatches=len(val['mismatches'])))
            for m in val['mismatches']:
                chk.violation('replay:derivative', dict(formula=desc, ops=rec['ops'], **{k: v for k, v in m.items() if k not in ('got_all', 'want_all')}),
                              match=dict(kind='derivative', features=feats, what=m.get('what', '').split('[')[0]))
        # BIOGEME / create_function paths on a sample (each needs a BIOGEME object)
        rng = np.random.default_rng(chk.seed + max_ops)
        clean = [r for r in recs if not exprenv.features(r['ops'], r['root'], nl)]
        k = min(len(clean), 250 if quick else 2500)
        sub = [clean[i] for i in rng.choice(len(clean), size=k, replace=False)] if clean else []
        results = par.pmap(exprreplay.replay_biogeme_derivatives, sub, chunk=20 if max_ops else 2)
        for rec, (st, val) in zip(sub, results):
            desc = exprreplay.describe(rec)
            nb += 1
            if st != 'ok':
                chk.violation(f'biogeme:{st}', dict(formula=desc, ops=rec['ops'], error=val), match=dict(kind='exception', features=[]))
                continue
            chk.evaluations += val['n']
            for m in val['mismatches']:
                chk.violation('biogeme:derivative', dict(formula=desc, ops=rec['ops'], **{k: v for k, v in m.items() if k not in ('got_all', 'want_all')}),
                              match=dict(kind='derivative', features=[]))
    chk.extra['formulas_through_BIOGEME_and_create_function'] = nb
    # negative control: the expected gradient with two entries swapped must be reported
    for pool, max_ops, thin, s in runs[:1]:
        pass
    exprreplay.init(pool2)
    res = tlc.run('MCExprGen', pool2.cfg(1, ['EmitInv']), extra_modules={'MCExprGen': pool2.module()}, workers='auto', timeout=600)
    for rec in res.emitted:
        if rec['diff'] and len(rec['freeocc']) == 2 and rec['ops'][-1]['op'] == 'Minus':
            import copy
            mut = copy.deepcopy(rec)
            for row in mut['jets']:
                for j in row:
                    j['g'] = j['g'][::-1]
            st, val = rt.forked(exprreplay.replay_derivatives, mut)
            chk.control('expected gradient with the entries of the two parameters exchanged', st != 'ok' or bool(val['mismatches']))
            break
    chk.uncovered += ['formulas that are not Differentiable (free parameter below a comparison, logical operator, key, condition; ties of min/max) are outside the property',
                      'finite-difference self-check tools.derivatives.check_derivatives is exercised only through BIOGEME']
    chk.assumptions += ['primitives interpreted by Python math; comparison at 1e-8 relative to the largest expected entry']


if __name__ == '__main__':
    check.main(PID, body)
