"""C18 -- MDCEV forecasts solve the consumer problem and the model pieces agree, whatever the labels.

specs/Mdcev.tla states the consumer problem max sum U_k(e_k) s.t. sum e_k = B, e >= 0 for the four utility profiles, its
Kuhn-Tucker conditions as predicates, and the forecasting procedure (Order / TryNext / Solve).  TLC enumerates small
instances; where the optimum is rational (gamma profile; the other three with all alpha = 1/2) it computes the optimum on
the model, checks that it is THE Kuhn-Tucker point (uniqueness over all consumed sets, independence of tie order, safety of
stopping at the first refusal, inverse = inverse of the derivative) and emits instance + expected consumptions; for general
exponents it emits the instance with utility, derivative and inverse as terms.

spec -> code: every emitted instance is built with the real classes of biogeme.mdcev under several labellings of the goods
and compared: forecast_bisection_one_draw / forecast = the spec's point, numeric utility = symbolic utility (engine) = the
spec's term, derivative = the spec's term = finite difference = engine gradient, optimal consumption = the spec's inverse
and inverts the derivative, the library's validation() is silent, results identical under every labelling.
code -> spec: every forecast is recorded (candidates tried and accepted, chosen set, expenditures) and annotated with the
spec's marginal utilities and objective; specs/MdcevTrace.tla judges each trace against the Kuhn-Tucker predicates of the
design module, the order of the tries and the brute-force optimiser's objective.

One model object on several data sets (specs/MdcevSeq.tla, EXTENDS Mdcev): a history forecasts data set A, then data set B (same
columns, other values), then A again, row by row with the procedure of the design module; the observable after each step is
the optimum for the data of THAT step (SeqForecastIsOptimum, SeqSameDataSameForecast ...), whatever the row labels are (default
index, offset, the same labels in both data sets, the same labels on other rows, one label for all rows).  The replay builds
ONE real model object per history whose utilities read the columns of the observation and runs forecast(), the one-draw
forecast, the pieces and validation() on every step; every forecast is also judged by MdcevTrace.
"""

from __future__ import annotations

import collections
import copy
import sys
import threading
import time

sys.path.insert(0, '/verif')

from vb import check, mdcev, par, rt, tlc

PID = 'C18'


def run_models(chk, tier, seed):
    """Three TLC runs (exact mode with all model invariants; kkt mode = generator only; seq mode = MdcevSeq: one model object
    on several data sets, all model invariants + those of the histories), concurrently;
    -> {(mode, variant): [records]}, [history records]"""
    out = {}

    def go(mode):
        inst = mdcev.instance(tier, seed, mode)
        out[mode] = tlc.run('MCMdcev', mdcev.cfg(inst, invariants=['StagesOK'] if mode == 'kkt' else None),
                            extra_modules={'MCMdcev': mdcev.module(inst, base='MdcevSeq' if mode == 'seq' else 'Mdcev')},
                            workers={'exact': 10, 'kkt': 2, 'seq': 4}[mode], timeout=2400, heap='4g')

    ths = [threading.Thread(target=go, args=(m,)) for m in ('exact', 'kkt', 'seq')]
    for t in ths:
        t.start()
    for t in ths:
        t.join()
    res = out.pop('seq')
    chk.add_tlc(f'MdcevSeq, four variants: {", ".join(mdcev.MODEL_INVARIANTS + mdcev.SEQ_INVARIANTS)}', res)
    histories = [r for r in res.emitted if isinstance(r, dict) and 'hist' in r]
    if not histories or res.states < len(histories) or {r['c']['v'] for r in histories} != set(mdcev.VARIANTS):
        raise tlc.MachineryError(f'MdcevSeq: {len(histories)} histories emitted, {res.states} states: {res.raw[-1500:]}')
    emitted = {}
    for mode, res in sorted(out.items()):
        invs = ', '.join(mdcev.MODEL_INVARIANTS) if mode == 'exact' else 'StagesOK (generator only)'
        chk.add_tlc(f'Mdcev {mode}, four variants: {invs}', res)
        for v in mdcev.VARIANTS:
            recs = [r for r in res.emitted if isinstance(r, dict) and 'c' in r and r['c']['v'] == v and r['c']['mode'] == mode]
            if not recs or res.states < len(res.emitted):
                raise tlc.MachineryError(f'Mdcev {mode} {v}: {len(recs)} instances emitted, {res.states} states: {res.raw[-1500:]}')
            emitted[(mode, v)] = recs
    return emitted, histories


def distinct_instances(chk, emitted):
    """One record per instance (TLC emits one per behaviour, i.e. per order of tied goods); all behaviours of an instance
    must carry the same expected point (the model invariant KktUnique says so; re-checked here on the emitted data)."""
    out = []
    tie_orders = 0
    for (mode, v), recs in sorted(emitted.items()):
        seen = {}
        for r in recs:
            k = mdcev.inst_key(r['c'])
            if k in seen:
                tie_orders += 1
                if mode == 'exact' and seen[k]['x'] != r['x']:
                    raise tlc.MachineryError(f'two behaviours of one instance emit different optima: {k}')
            else:
                seen[k] = r
        out += [seen[k] for k in sorted(seen)]
    chk.extra['behaviours_differing_only_in_tie_order'] = tie_orders
    return out


def body(chk: check.Check):
    rt.setup(chk.seed)
    mdcev.preload()
    quick = chk.tier == 'quick'
    timing = chk.extra.setdefault('timing_s', {})
    t0 = time.time()
    emitted, histories = run_models(chk, chk.tier, chk.seed)
    recs = distinct_instances(chk, emitted)
    timing['tlc_models'] = round(time.time() - t0, 1)

    # the spec's own pieces must agree with each other before they judge anything (machinery, exit 2)
    probs = []
    for r in recs[:: (7 if quick else 3)]:
        probs += mdcev.spec_selfcheck(r)
    for r in histories[:: (5 if quick else 3)]:
        probs += mdcev.seq_selfcheck(r)
    if probs:
        raise tlc.MachineryError(f'Mdcev.tla is not self-consistent: {probs[:3]}')
    # the histories must be able to tell a re-used result from a fresh one: the optimum for the second data set differs from the
    # optimum for the first at a row of the same label (resp. the same position) in most of them
    telling = sum(1 for r in histories if any(a['x'] != b['x'] for a in r['hist'] for b in r['hist']
                                               if a['step'] == 1 and b['step'] == 2 and (a['lab'] == b['lab'] or a['row'] == b['row'])))
    chk.extra['histories'] = dict(emitted=len(histories), second_data_set_changes_the_optimum=telling,
                                  row_labels=dict(collections.Counter(f"{r['seq']['la']} then {r['seq']['lb']}" for r in histories)),
                                  rows_forecast_by_the_model=sum(len(r['hist']) for r in histories))
    if telling * 2 < len(histories) or len(chk.extra['histories']['row_labels']) < len(mdcev.SCENARIOS):
        raise tlc.MachineryError(f'the histories do not exercise re-use: {chk.extra["histories"]}')

    # ------------------------------------------------------------------ replay
    nlab = 2 if quick else 3
    items = []
    for i, r in enumerate(recs):
        if quick and (i + chk.seed) % 3:      # the quick tier replays every third instance (all are model-checked)
            continue
        j = len(items)
        labs = mdcev.pick_labelings(r['c']['n'], j, nlab)
        items.append(dict(id=f"{r['c']['mode'][0]}{i}", rec=r, labs=labs, engine=j % nlab, public=[j % nlab] if quick else 'all',
                          validation=((j // nlab) % nlab) if j % (3 if quick else 2) == 0 else None))
    chk.extra['validation_calls'] = sum(1 for it in items if it['validation'] is not None)
    chk.extra['labellings_run'] = dict(collections.Counter(str(l) for it in items for l in it['labs']))
    chk.rule = ('instances emitted by TLC from Mdcev.tla (exact mode: with the optimum computed on the model; kkt mode: terms only); '
                'a replayed behaviour = one instance x one labelling of the goods run through the real model classes; distinct = distinct '
                '(variant, goods, outside good, prices, scale, budget) instances; histories (MdcevSeq.tla): a replayed behaviour = one row of one step '
                'forecast by the ONE model object of the history, distinct = distinct (instance, scenario)')
    seq_items = []
    for j, r in enumerate(histories):
        labs = mdcev.LABELINGS[r['c']['n']]
        seq_items.append(dict(id=f'q{j}', rec=r, lab=labs[(j + chk.seed) % len(labs)], seq=True,
                              engine=(2, 1) if j % 2 == 0 else (3, 1), validation=(1, 2) if j % 2 == 0 else (2, 3)))
    t0 = time.time()
    results = par.pmap(mdcev.replay, items, chunk=max(10, len(items) // 160), timeout=600)
    timing['replay'] = round(time.time() - t0, 1)
    t0 = time.time()
    results += par.pmap(mdcev.replay_seq, seq_items, chunk=max(4, len(seq_items) // 160), timeout=600)
    timing['replay_histories'] = round(time.time() - t0, 1)
    items = items + seq_items
    traces, tinfo = [], {}
    by_kind = collections.Counter()
    per_variant = collections.Counter()
    samples = {}
    seq_samples = {}
    seq_forecasts = 0
    for item, (st, val) in zip(items, results):
        c = item['rec']['c']
        ikey = mdcev.seq_key(item['rec']) if item.get('seq') else mdcev.inst_key(c)
        if st != 'ok':
            chk.violation(f"{c['v']}:replay-{st}", dict(instance=ikey, error=val),
                          match=dict(variant=c['v'], kind='replay-died'))
            continue
        chk.replayed += val['done']
        chk.count(ikey, val['n'])
        per_variant[(c['mode'], c['v'])] += 1
        if item.get('seq'):
            seq_forecasts += val['done']
            if val['sample'] and c['v'] not in seq_samples and len(val['sample']['history']) >= 6 and \
                    len({str(h['expected']) for h in val['sample']['history']}) >= 3:
                seq_samples[c['v']] = val['sample']
        traces += val['traces']
        tinfo.update(val['tinfo'])
        for m in val['mism']:
            by_kind[m['key']] += 1
            chk.violation(m['key'], m['detail'], match=m['facts'])
        if val['sample'] and (c['mode'], c['v']) not in samples and c['n'] == 3 and val['sample'].get('tries') and len(val['sample']['tries']) > 1:
            samples[(c['mode'], c['v'])] = val['sample']
    for k in sorted(seq_samples)[:2]:
        chk.sample(dict(mode='seq', **seq_samples[k]), limit=8)
    for k in sorted(samples)[:6]:
        chk.sample(dict(mode=k[0], **samples[k]), limit=8)
    chk.extra['histories']['replayed'] = len(seq_items)
    chk.extra['histories']['forecasts_replayed'] = seq_forecasts

    # ------------------------------------------------------------------ trace validation
    t0 = time.time()
    verdicts, tres = mdcev.validate(traces, parts=4 if quick else 8)
    timing['tlc_traces'] = round(time.time() - t0, 1)
    for k, res in enumerate(tres):
        chk.add_tlc(f'MdcevTrace part {k}: Progress; verdict per trace', res)
    tv = collections.Counter()
    with_brute = 0
    for tr in traces:
        vd = verdicts.get(tr['tid'])
        if vd is None:
            raise tlc.MachineryError(f'no verdict for trace {tr["tid"]}: {tres[0].raw[-1500:]}')
        chk.traces += 1
        with_brute += bool(tr['hasB'])
        tv[vd] += 1
        if vd != 'ok':
            f = tinfo[tr['tid']]
            chk.violation(f"{f['variant']}:trace:{vd}", dict(f, verdict=vd, trace=tr), match=dict(f, kind=f'trace-{vd}'))
    chk.extra['trace_verdicts'] = dict(tv)
    chk.extra['traces_with_feasible_brute_force_point'] = with_brute
    chk.extra['instances_replayed'] = {f'{m}:{v}': n for (m, v), n in sorted(per_variant.items())}
    chk.extra['instances_model_checked'] = {f'{m}:{v}': len({mdcev.inst_key(r['c']) for r in rs}) for (m, v), rs in sorted(emitted.items())}
    chk.extra['mismatch_kinds'] = dict(by_kind)

    t0 = time.time()
    controls(chk, emitted, recs, traces, tinfo, verdicts, histories)
    timing['controls'] = round(time.time() - t0, 1)

    chk.uncovered += [
        'rows with explanatory variables entering the baseline utilities through estimated parameters (estimation_results set): the '
        'baseline utility is an expression evaluated on a one-row database (constant columns outside the histories, one column per good '
        'holding V in the histories); its value V is what the specification sees',
        'more than 4 goods; exponents outside {1/4, 1/3, 1/2, 3/4, 9/10}; budgets above 20',
        'error draws are a small set of rationals / scale * log r, not Gumbel samples (generate_epsilons is not exercised)',
        'the numeric clause "objective >= brute force" is decided on the objective computed from the specification\'s utility terms at '
        'the two points; brute-force points that miss the budget by more than 1e-7 are not used (counted in the evidence)',
        'forecast_comparison_one_draw / validate_forecast (they only log warnings) and the estimation side (loglikelihood) of the classes',
        'histories of one model object: three steps (first data set, second, first again), data sets of one or two rows, exact mode only; '
        'a Database object whose data frame is modified IN PLACE between two forecasts (the library caches the baseline utilities per '
        'Database object; every step of a history hands over a new Database, as forecast() itself does for every row); '
        'estimation_results replaced between two forecasts',
    ]
    chk.assumptions += [
        'primitives exp / log / pow of the term language are interpreted by Python math (vb/terms.py)',
        'error draws are handed to the library in the order of its public attribute key_to_index (the library documents no other order)',
        'fixed-point unit of the traces is 1e-6; MdcevTrace tolerances: 3 units + 5e-8 relative on marginal utilities and objectives, '
        'n + 3 units on the budget; forecast vs exact optimum 1e-8, forecast() with default tolerances vs one-draw forecast 1e-6, '
        'pieces 1e-9, finite differences 1e-6',
    ]


def controls(chk, emitted, recs, traces, tinfo, verdicts, histories):
    """Negative controls: the machinery must notice each of these."""
    # (0) one model object on several data sets.  Model level: an object that remembers what it computed for a row label
    inst = mdcev.one_variant(mdcev.instance('quick', chk.seed, 'seq'), 'gamma')
    res = tlc.run('MCMdcev', mdcev.cfg(inst, mutation='reuse-by-row-label', emit=False), extra_modules={'MCMdcev': mdcev.module(inst, base='MdcevSeq')},
                  workers=4, timeout=600, heap='2g')
    chk.control('MdcevSeq with Mutation = reuse-by-row-label: TLC must report SeqForecastIsOptimum',
                res.violated == 'SeqForecastIsOptimum', f'violated={res.violated}')
    # replay level: real model classes that remember the baseline utility of a row label
    cand = [r for r in histories if set(r['seq']['la']) & set(r['seq']['lb']) and
            any(a['x'] != b['x'] for a in r['hist'] for b in r['hist'] if a['step'] == 1 and b['step'] == 2 and a['lab'] == b['lab'])]
    by_variant = {}
    for r in cand:
        by_variant.setdefault(r['c']['v'], r)
    seq_ctl = [dict(id=f'ctl-seq-{v}', rec=r, lab=mdcev.LABELINGS[r['c']['n']][1], seq=True, engine=None, validation=(2,))
               for v, r in sorted(by_variant.items())]

    def run_cached():
        cl = mdcev.cached_by_row_label_classes()
        return [mdcev.replay_seq(it, classes=cl) for it in seq_ctl]

    st, val = rt.forked(run_cached)
    hits = [sorted({m['key'].split(':', 1)[1] for m in v['mism']}) for v in val] if st == 'ok' else []
    chk.control('model classes that remember the baseline utility of a row label, used on two data sets with the same row labels: '
                'every variant must be reported (forecast of the second data set)',
                st == 'ok' and len(seq_ctl) == len(mdcev.VARIANTS) and
                all(any(m['key'].endswith('seq:forecast-vs-spec') and m['facts']['step'] >= 2 for m in v['mism']) and
                    any(m['key'].endswith('seq:forecast-public-vs-spec') for m in v['mism']) for v in val),
                f'variants={[it["rec"]["c"]["v"] for it in seq_ctl]} clauses={hits[:1]}')

    # (1) model level: a procedure that accepts every candidate reaches a point that is not a Kuhn-Tucker point
    inst = mdcev.one_variant(mdcev.instance('quick', chk.seed, 'exact'), 'gamma')
    res = tlc.run('MCMdcev', mdcev.cfg(inst, mutation='always-accept', emit=False), extra_modules={'MCMdcev': mdcev.module(inst)},
                  workers=4, timeout=600, heap='2g')
    chk.control('Mdcev with Mutation = always-accept: TLC must report a violated invariant',
                res.violated in ('SolvedIsKkt', 'NoNegativeDemand', 'ChosenIsSupport', 'StopIsSafe'), f'violated={res.violated}')

    # (2) spec -> code: a mutant of the expected point must be reported by the driver
    ex = [r for r in recs if r['c']['mode'] == 'exact' and r['c']['n'] == 3 and len({str(q) for q in r['x']}) == 3]
    item = dict(id='ctl', rec=ex[0], labs=mdcev.pick_labelings(3, 0, 2), engine=None, validation=None)

    def swap(want):
        w = list(want)
        w[0], w[1] = w[1], w[0]
        return w

    st, val = rt.forked(lambda: mdcev.replay(item, corrupt=swap))
    chk.control('expected consumptions of two goods swapped: replay must report forecast-vs-spec',
                st == 'ok' and any(m['key'].endswith('forecast-vs-spec') for m in val['mism']))

    # (3) spec -> code against known-wrong implementations
    def buggy_classes():
        import numpy as np
        from biogeme import mdcev as M

        class LabelAsPosition(M.GammaProfile):
            """the outside good recognised by comparing a LABEL with its POSITION"""

            def derivative_utility_one_alternative(self, the_id, the_consumption, epsilon, one_observation):
                if the_id == self.outside_good_index and the_consumption == 0.0:
                    return np.inf
                return super().derivative_utility_one_alternative(the_id, the_consumption, epsilon, one_observation)

        class WrongInverse(M.Translated):
            """the closed-form consumption forgets the translation"""

            def optimal_consumption_one_alternative(self, the_id, dual_variable, epsilon, one_observation):
                x = super().optimal_consumption_one_alternative(the_id, dual_variable, epsilon, one_observation)
                return x if self.gamma_parameters[the_id] is None else x + self.gamma_parameters[the_id].get_value()

        return dict(gamma=LabelAsPosition, translated=WrongInverse)

    lab_items = [dict(id='ctl-lab', rec=r, labs=[[1, 2, 3]], engine=None, validation=None)
                 for r in recs if r['c']['v'] == 'gamma' and r['c']['n'] == 3 and r['c']['out'] == 2][:8]

    def run_lab():
        cl = buggy_classes()
        return [mdcev.replay(it, classes=cl) for it in lab_items]

    st, val = rt.forked(run_lab)
    hit = st == 'ok' and any(m['facts'].get('label_equals_outside_position') and m['facts']['kind'] in ('forecast-exception', 'derivative', 'forecast-value')
                             for v in val for m in v['mism'])
    chk.control('gamma profile that compares a label with the position of the outside good, labels 1..3, outside good 2', hit)

    tr_items = [dict(id='ctl-inv', rec=r, labs=[[10, 3, 7]], engine=None, validation=None)
                for r in recs if r['c']['v'] == 'translated' and r['c']['n'] == 3][:4]

    def run_inv():
        cl = buggy_classes()
        return [mdcev.replay(it, classes=cl) for it in tr_items]

    st, val = rt.forked(run_inv)
    keys = {m['key'] for v in val for m in v['mism']} if st == 'ok' else set()
    ctl_traces = [t for v in val for t in v['traces']] if st == 'ok' else []
    chk.control('translated profile whose closed-form consumption forgets the translation: inverse clauses',
                'translated:optimal-consumption-does-not-invert' in keys and 'translated:optimal-consumption-vs-spec' in keys, f'keys={sorted(keys)[:6]}')

    # (4) code -> spec: corrupted traces must be rejected by MdcevTrace with the right clause
    good = [t for t in traces if verdicts.get(t['tid']) == 'ok']
    wanted = {}
    batch = []
    for how in ('outside-to-zero', 'budget', 'swap-order', 'drop-try', 'brute-better'):
        for t in good:
            r = mdcev.corrupt_trace(t, how)
            if r is not None:
                ct, clause = r
                ct['tid'] = f'ctl:{how}'
                wanted[ct['tid']] = clause
                batch.append(ct)
                break
    # consumption moved from one consumed good to another: budget kept, marginal utilities (re-computed with the spec's terms) differ
    moved = shift_consumption(good, tinfo, recs)
    if moved is not None:
        moved['tid'] = 'ctl:shift-consumption'
        wanted[moved['tid']] = 'EqualMU'
        batch.append(moved)
    batch += [dict(t, tid=f"ctl:wrong-model:{k}") for k, t in enumerate(ctl_traces[:4])]
    vd, tres = mdcev.validate(batch, parts=1)
    for tid, clause in wanted.items():
        got = vd.get(tid)
        chk.control(f'MdcevTrace on a corrupted trace ({tid[4:]}): must answer {clause or "a failing clause"}',
                    got is not None and got != 'ok' and (clause is None or got == clause), f'verdict={got}')
    for how in ('outside-to-zero', 'budget', 'swap-order', 'drop-try', 'brute-better', 'shift-consumption'):
        if f'ctl:{how}' not in wanted:
            chk.control(f'MdcevTrace on a corrupted trace ({how})', False, 'no recorded trace admits this corruption')
    wm = [vd.get(f'ctl:wrong-model:{k}') for k in range(len(ctl_traces[:4]))]
    chk.control('forecasts of the wrong-inverse model: MdcevTrace must reject them', bool(wm) and None not in wm and any(x != 'ok' for x in wm), f'verdicts={wm}')


def shift_consumption(good, tinfo, recs):
    """Move 5% of the budget between two consumed goods of a recorded forecast and re-annotate with the spec's terms."""
    index = {}
    for i, r in enumerate(recs):
        index[f"{r['c']['mode'][0]}{i}"] = r
    for t in good:
        pos = [i for i in range(t['n']) if t['x'][i] > 200000]
        if len(pos) < 2:
            continue
        rec = index.get(t['tid'].split('/')[0])
        if rec is None:
            continue
        c = rec['c']
        ct = copy.deepcopy(t)
        d = t['B'] // 20
        if ct['x'][pos[0]] <= d:
            continue
        ct['x'][pos[0]] -= d
        ct['x'][pos[1]] += d
        for i in pos[:2]:
            ct['mu'][i] = mdcev.fix(mdcev.evx(c['goods'][i]['dU'], ct['x'][i] / mdcev.UNIT))
        ct['hasB'] = False
        return ct
    return None


if __name__ == '__main__':
    check.main(PID, body)
