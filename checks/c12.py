"""C12 -- invalid specifications are refused with a clear error wherever the fault sits.

Audit.tla defines Valid along every path of a formula DAG (unknown column, one name two kinds,
draws / integration variables / trajectory placement, logit keys) for the estimation object and
for direct evaluation, on panel and non-panel data; TLC generates formulas with fault leaves in
every operand slot of every operator class (one operator exhaustively modulo thinning, two and
three operators modulo a residue class) with the expected verdict; each is handed to the real
BIOGEME(...), BIOGEME({'log_like': ...}) or get_value_c in a forked child: the library must raise
its own error type with a message exactly when ~Valid and nothing when Valid.
AuditScenarios.tla does the same for nest structures, data tables, derivative flags, the choice
column and the missing-data code (read => error, not read => harmless).
"""

from __future__ import annotations

import sys

sys.path.insert(0, '/verif')

import numpy as np

from vb import audit, check, par, rt, tlc

PID = 'C12'


def scen_cfg(families):
    fam = '{' + ', '.join(f'"{f}"' for f in families) + '}'
    return f'''SPECIFICATION Spec
CONSTANTS
 ChoiceSet = {{1, 2, 3}}
 Universe = {{1, 2, 3, 9}}
 MaxNests = 2
 CellKinds = {{"num", "nan", "str"}}
 MaxRows = 2
 NCols = 2
 Alts = {{1, 3}}
 ChoiceVals = {{1, 3, 2}}
 NRowsChoice = 3
 Families <- G_Families
INVARIANT RulesSane
INVARIANT EmitInv
''', f'---- MODULE ScenGen ----\nEXTENDS AuditScenarios\nG_Families == {fam}\n====\n'


def run_scenario(sc):
    import pandas as pd
    import biogeme.biogeme as bio
    import biogeme.database as db
    import biogeme.expressions as ex
    from biogeme import models
    from biogeme.expressions import _bioLogLogit
    from biogeme.nests import (NestsForCrossNestedLogit, NestsForNestedLogit, OneNestForCrossNestedLogit,
                               OneNestForNestedLogit)

    fam = sc['fam']
    out = {}
    if fam == 'nests':
        def go(naming='unnamed'):
            V = {1: ex.Beta('b1', 0.1, None, None, 0), 2: ex.Numeric(0.2), 3: ex.Beta('b3', 0.3, None, None, 0)}
            if sc['kind'] == 'nested':
                # the validity of a nest structure does not depend on how the nests are named
                k_ = len(sc['nests'])
                names = {'unnamed': [None] * k_, 'same-name': ['n'] * k_, 'clash-with-default': ['nest_2'] + [None] * (k_ - 1)}[naming]
                nests = NestsForNestedLogit(choice_set=[1, 2, 3], tuple_of_nests=tuple(
                    OneNestForNestedLogit(nest_param=1.5, list_of_alternatives=sorted(n), name=names[j]) for j, n in enumerate(sc['nests'])))
                e = models.lognested(V, None, nests, 1)
            else:
                nests = NestsForCrossNestedLogit(choice_set=[1, 2, 3], tuple_of_nests=tuple(
                    OneNestForCrossNestedLogit(nest_param=1.5, dict_of_alpha={a: 0.5 for a in sorted(n)}) for n in sc['nests']))
                e = models.logcnl(V, None, nests, 1)
            return float(e.get_value_c(prepare_ids=True))
        out['models'] = audit.classify(rt.forked(go, timeout=300))
        if sc['kind'] == 'nested':
            out['models(same nest name)'] = audit.classify(rt.forked(go, 'same-name', timeout=300))
            out['models(name clashing with a default one)'] = audit.classify(rt.forked(go, 'clash-with-default', timeout=300))
    elif fam == 'data':
        def go():
            cell = {'num': 1.5, 'nan': float('nan'), 'str': 'abc'}
            rows = [[cell[c] for c in r] for r in sc['table']]
            df = pd.DataFrame(rows, columns=['c1', 'c2']) if rows else pd.DataFrame({'c1': [], 'c2': []})
            d = db.Database('t', df)
            return True
        out['Database'] = audit.classify(rt.forked(go, timeout=300))

        # a history: the table is sound when the data set is created, the missing entries are written into it
        # AFTERWARDS (same layout, same types), then an estimation object is built on it
        kinds = {c for r in sc['table'] for c in r}
        if sc['table'] and 'str' not in kinds:
            def go_later():
                df = pd.DataFrame([[1.5 for _ in r] for r in sc['table']], columns=['c1', 'c2'])
                d = db.Database('t', df)
                for i, r in enumerate(sc['table']):
                    for j, c in enumerate(r):
                        if c == 'nan':
                            d.data.iloc[i, j] = float('nan')
                bio.BIOGEME(d, ex.Beta('b', 0.5, None, None, 0) * ex.Variable('c1') + ex.Variable('c2'))
                return True
            out['BIOGEME on a data set edited after its creation'] = audit.classify(rt.forked(go_later, timeout=300))

        def go2():
            cell = {'num': 1.5, 'nan': float('nan'), 'str': 'abc'}
            rows = [[cell[c] for c in r] for r in sc['table']]
            df = pd.DataFrame(rows, columns=['c1', 'c2']) if rows else pd.DataFrame({'c1': [], 'c2': []})
            d = db.Database.__new__(db.Database)
            try:
                d = db.Database('t', df)
            except Exception:
                # the data audit is also applied when the estimation object is built
                raise
            return True
    elif fam == 'flags':
        def go():
            d = db.Database('t', pd.DataFrame({'x': [1.0, 2.0]}))
            e = ex.Beta('b', 0.5, None, None, 0) * ex.Variable('x')
            e.get_value_and_derivatives(database=d, prepare_ids=True, gradient=sc['g'], hessian=sc['h'], bhhh=sc['b'])
            return True
        out['get_value_and_derivatives'] = audit.classify(rt.forked(go, timeout=300))
    elif fam == 'choice':
        def mk():
            d = db.Database('t', pd.DataFrame({'ch': [float(v) for v in sc['col']], 'x': [1.0, 2.0, 3.0]}))
            e = _bioLogLogit({1: ex.Beta('b', 0.5, None, None, 0) * ex.Variable('x'), 3: ex.Numeric(0)}, {1: 1, 3: 1}, ex.Variable('ch'))
            return d, e
        def go_b():
            d, e = mk()
            bio.BIOGEME(d, e)
            return True
        def go_v():
            d, e = mk()
            return [float(v) for v in e.get_value_c(database=d, prepare_ids=True)]
        out['BIOGEME'] = audit.classify(rt.forked(go_b, timeout=300))
        out['get_value_c'] = audit.classify(rt.forked(go_v, timeout=300))
    elif fam == 'missing':
        M = 99999.0
        def mk():
            miss = set(sc['miss'])
            vals = dict(x=2.0, z=5.0, w=7.0, k=float(sc['k']), c1=float(sc['c1']), c2=float(sc['c2']))
            row = {c: (M if c in miss else v) for c, v in vals.items()}
            clean = dict(x=1.0, z=1.0, w=1.0, k=1.0, c1=1.0, c2=1.0)
            d = db.Database('t', pd.DataFrame([clean, row]))
            x, z = ex.Variable('x'), ex.Variable('z')
            b = ex.Beta('b', 1.0, None, None, 0)
            if sc['tp'] in ('plus', 'unmentioned'):
                e = b * x + z
                want = vals['x'] + vals['z']
            elif sc['tp'] == 'elem':
                e = ex.Elem({1: b * x, 2: z}, ex.Variable('k'))
                want = vals['x'] if sc['k'] == 1 else vals['z']
            else:
                e = ex.ConditionalSum([ex.ConditionalTermTuple(condition=ex.Variable('c1'), term=b * x),
                                       ex.ConditionalTermTuple(condition=ex.Variable('c2'), term=z)])
                want = sc['c1'] * vals['x'] + sc['c2'] * vals['z']
            return d, e, want
        def go_v():
            d, e, want = mk()
            v = [float(t) for t in e.get_value_c(database=d, prepare_ids=True)]
            if abs(v[1] - want) > 1e-12:
                raise AssertionError(f'value {v[1]} instead of {want}')
            return v
        def go_l():
            d, e, want = mk()
            b = bio.BIOGEME(d, e)
            f = b.calculate_likelihood([1.0], scaled=False)
            clean = {'plus': 2.0, 'unmentioned': 2.0, 'elem': 1.0, 'condsum': 2.0}[sc['tp']]
            if not np.isfinite(f) or abs(f - (clean + want)) > 1e-12:
                raise AssertionError(f'likelihood {f} instead of {clean + want}')
            return f
        out['get_value_c'] = audit.classify(rt.forked(go_v, timeout=300))
        out['BIOGEME.calculate_likelihood'] = audit.classify(rt.forked(go_l, timeout=300))
    return out


def judge(valid, fam, cls):
    """-> None if the outcome is what the spec prescribes, else a description"""
    if valid:
        return None if cls == 'ok' else f'valid specification rejected ({cls})'
    if fam == 'missing':  # any error will do for a read missing value; silence is the fault
        return None if cls != 'ok' else 'missing-data code read without an error'
    return None if cls == 'BIO' else (f'invalid specification accepted' if cls == 'ok' else f'invalid specification: {cls} instead of the library error')


def body(chk: check.Check):
    rt.setup(chk.seed)
    quick = chk.tier == 'quick'
    salt = chk.seed % 7919
    slots = set()
    ngen = [0]
    keep = dict(valid=None, invalid=None)     # one record of each kind for the negative controls

    def replay_batch(recs):
        """replay one generated family at once and forget it (the records of all families together make every fork slow)"""
        ngen[0] += len(recs)
        for r_ in recs:
            if keep['valid'] is None and r_['valid']:
                keep['valid'] = r_
            if keep['invalid'] is None and not r_['valid']:
                keep['invalid'] = r_
        results = par.pmap(audit.run_entry_points, recs, chunk=20)
        for rec, (st, val) in zip(recs, results):
            desc = audit.describe(rec['ops'], rec['root'])
            key = (desc, rec['panel'], rec['estimation'])
            chk.replayed += 1
            if st != 'ok':
                chk.violation('audit:machinery', dict(formula=desc, error=val), match=dict(kind='exception'))
                continue
            chk.count(key, len(val))
            for n in rec['ops']:
                for slot, k in enumerate(n['kids']):
                    if k in audit.FAULT_LEAVES:
                        slots.add((n['op'], slot, k))
            chk.sample(dict(formula=desc, panel=rec['panel'], estimation=rec['estimation'], valid=rec['valid'], broken=rec['broken'], observed=val))
            for ep, (cls, msg) in val.items():
                bad = judge(rec['valid'], 'tree', cls)
                if bad:
                    chk.violation(f'audit:{ep}:{bad[:60]}', dict(formula=desc, panel=rec['panel'], entry=ep, valid=rec['valid'], broken=rec['broken'],
                                                                 observed=cls, message=msg),
                                  match=dict(kind='tree', entry=ep, observed=cls, valid=rec['valid'], valid_rowwise=rec['valid_rowwise'], valid_no5b=rec['valid_no5b'], panel=rec['panel'], broken=','.join(sorted(rec['broken'])),
                                             root=rec['ops'][-1]['op']))

    for panel in (False, True):
        for est in (True, False):
            plans = [(1, (3,) if quick else (1,), False), (2, (24, 36) if quick else (16, 24), False)]
            if not quick:
                plans.append((3, (80, 112, 144), False))
            # chains: a logit with unmatched keys below two wrappers (three operators deep), every wrapper class
            plans.append((3, (6, 11, 11) if quick else (3, 5, 5), True))
            for max_ops, thin, chain in plans:
                res = tlc.run('AuditGen', audit.cfg(panel, max_ops, salt, est, chain), extra_modules={'AuditGen': audit.module(panel, thin)},
                              workers='auto', timeout=2400)
                chk.add_tlc(f'Audit: panel={panel} estimation={est} ops<={max_ops} thin={thin}' + (' chains' if chain else ''), res)
                emitted = res.emitted
                del res
                cap = 400 if quick else 2000
                if chain and len(emitted) > cap:      # the residue classes of the chains are lumpy: a regular sample
                    emitted = emitted[:: -(-len(emitted) // cap)]
                for n_, r_ in enumerate(emitted):
                    r_['light'] = quick and n_ % 4 != 0
                replay_batch(emitted)
                del emitted
    chk.rule = ('formula DAGs generated by TLC from Audit.tla (fault leaves: unknown column, parameter named like a column, draw, '
                'integration variable; binders; every operator class; both data kinds; both entry points) with the expected verdict; '
                'distinct = distinct (formula, data kind, entry point); plus the scenarios of AuditScenarios.tla')
    chk.extra['formulas_generated'] = ngen[0]
    chk.extra['operator_slot_fault_triples_covered'] = len(slots)
    # scenarios
    cfg, mod = scen_cfg(['nests', 'data', 'flags', 'choice', 'missing'])
    res = tlc.run('ScenGen', cfg, extra_modules={'ScenGen': mod}, workers='auto', timeout=900)
    chk.add_tlc('AuditScenarios: nests, data, flags, choice, missing', res)
    scs = res.emitted
    results = par.pmap(run_scenario, scs, chunk=20)
    for sc, (st, val) in zip(scs, results):
        chk.replayed += 1
        if st != 'ok':
            chk.violation('scenario:machinery', dict(scenario=sc, error=val), match=dict(kind='exception'))
            continue
        chk.count(str(sc), len(val))
        for ep, cls in val.items():
            bad = judge(sc['valid'], sc['fam'], cls)
            if bad:
                facts = dict(kind='scenario', fam=sc['fam'], entry=ep, observed=cls, valid=sc['valid'])
                if sc['fam'] == 'choice':
                    facts['wrong_rows'] = ','.join(str(i) for i, v in enumerate(sc['col']) if v not in (1, 3))
                if sc['fam'] == 'missing':
                    facts['tp'] = sc['tp']
                    facts['miss'] = ','.join(sorted(sc['miss']))
                chk.violation(f'scenario:{sc["fam"]}:{ep}:{bad[:50]}', dict(scenario=sc, entry=ep, observed=cls), match=facts)
    # negative controls: flipped expectations must be reported
    flip_v = keep['valid']
    flip_i = keep['invalid']
    for r, name in ((flip_v, 'a valid formula expected to be refused'), (flip_i, 'an invalid formula expected to be accepted')):
        st, val = rt.forked(audit.run_entry_points, r)
        detected = st == 'ok' and any(judge(not r['valid'], 'tree', cls) for cls, _ in val.values())
        chk.control(name, detected)
    chk.uncovered += ['BIOGEME.simulate returns NaN on a read missing value (not an observe_at point of the property)',
                      'key / choice slots hold leaves only (an operator in a key slot would make validity depend on values)',
                      'rule 5b (variables below the trajectory on panel data) applies to the estimation object only: direct evaluation '
                      'applies formulas row by row (the library itself evaluates choice and availability expressions that way)']
    chk.assumptions += ['each evaluation runs in a forked child (sticky engine errors)']


if __name__ == '__main__':
    check.main(PID, body)
