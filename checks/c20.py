"""C20 -- every deprecated name behaves exactly like the function it points users to.

(A) The alias structure of the imported package is EXTRACTED (vb/aliases.py: every class with its
    direct bases and own dictionary, every module holding an alias, every deprecation wrapper with
    the function it captured, the name it advertises and how it dispatches -- measured by probing
    the wrapper --, every keyword-renaming map) and handed to Aliases.tla as constants.
(B) TLC explores Call(receiver, name) for every receiver space and every visible name and checks
    on the model: the C3 linearisations are well formed, an ordinary function runs itself
    silently, and -- the property -- ResolutionInv (the alias runs what the advertised name runs
    ON THAT RECEIVER, adding exactly one warning), ReplacementInv (the advertised name is the one
    the old name designates by its spelling), StaticDispatch.  Every (receiver, alias) pair is
    emitted with the spec's expectations and verdicts.
(C) spec -> code: for every emitted pair the driver compares the spec's linearisation and
    resolution with the interpreter's, plants a recording stub on the definer the spec expects
    and another in the wrapper's closure, calls old and new name with the same sentinel arguments
    and compares what ran, the arguments, the result, the warnings, the receiver.  The emitted
    keyword-renaming cases are replayed through the real wrappers the same way.
(D) old and new names are called on real objects with real arguments (expressions of every
    class, Database, BIOGEME, bioResults, module functions) and results, receiver state, files
    and warnings compared.
"""

from __future__ import annotations

import sys

sys.path.insert(0, '/verif')

import concurrent.futures
import copy
import gc
import inspect
import os
import shutil

from vb import aliases, aliasreal, check, par, rt
from vb.tlc import MachineryError

PID = 'C20'

STRUCT = ['TypeOK', 'StaticOK', 'MroInv', 'IdentityInv', 'PlainInv', 'OwnNameInv', 'KwInv', 'KwModelInv', 'KwOrderInv', 'EmitInv', 'EmitMro', 'EmitKw',
          'EmitKwOrder']
PROPERTY = ['ResolutionInv', 'ReplacementInv', 'StaticDispatch', 'SameNameInv']


def mutate_for_controls(model: aliases.Model, d: dict) -> dict:
    """A corrupted copy of the extracted model: three planted faults TLC must find."""
    m = copy.deepcopy(d)
    facts = {}
    # 1. a module-level alias captures another function than the one its new name designates
    f1 = 'biogeme.draws.getUniform (alias)'
    m['fn'][f1]['captured'] = 'biogeme.draws.get_halton_draws'
    facts['resolution'] = ('module biogeme.draws', 'getUniform')
    # 2. an alias advertises (and forwards to) a function whose name is not a re-spelling of the old one
    f2 = 'biogeme.version.getText (alias)'
    m['fn'][f2]['newname'] = 'get_html'
    m['fn'][f2]['captured'] = 'biogeme.version.get_html'
    facts['replacement'] = ('module biogeme.version', 'getText')
    # 3. a class whose bases are not what the interpreter used: the spec's MRO must then differ from __mro__
    c3 = 'biogeme.expressions.beta_parameters.Beta'
    m['bases'][c3] = ['biogeme.expressions.base_expressions.Expression']
    facts['mro'] = c3
    for f in (f1, f2):
        if f not in d['fn']:
            raise MachineryError(f'negative control anchor {f} not in the extracted model')
    # 4. classes told apart BY NAME: the namesake subclass of Database is merged into its parent (the later
    #    definition of a name wins, as in a dictionary keyed by the printed name)
    t4 = next((t for t, p in sorted(model.namesake_parent.items()) if p == 'biogeme.database.Database'), None)
    if t4 is None:
        raise MachineryError('no namesake subclass of biogeme.database.Database in the extracted model')
    p4 = model.namesake_parent[t4]
    m['table'][p4] = dict(m['table'][p4], **m['table'][t4])
    m['spaces'] = [x for x in m['spaces'] if x != t4]
    for key in ('bases', 'table', 'cname', 'home'):
        m[key].pop(t4, None)
    m['static'] = [x for x in m['static'] if x[0] != t4]
    facts['collapsed'] = (p4, t4)
    return m, facts


def body(chk: check.Check):
    scratch = rt.setup(chk.seed)
    quick = chk.tier == 'quick'
    model = aliases.Model()
    if model.import_errors:
        chk.uncovered.append(f'modules that could not be imported: {model.import_errors}')
    d = model.to_dict()
    mutated, facts = mutate_for_controls(model, d)
    with concurrent.futures.ThreadPoolExecutor(3) as pool:
        f_struct = pool.submit(aliases.run_tlc, d, STRUCT)
        f_prop = pool.submit(aliases.run_tlc, d, PROPERTY)
        f_ctrl = pool.submit(aliases.run_tlc, mutated, ['EmitInv', 'EmitMro'])
        res, res_prop, res_ctrl = f_struct.result(), f_prop.result(), f_ctrl.result()
    chk.add_tlc('Aliases: Call(receiver, name) for every receiver and visible name; structure invariants; emit', res)
    chk.add_tlc('Aliases: ResolutionInv, ReplacementInv, StaticDispatch on the extracted model', res_prop)
    pairs = {(e['space'], e['alias']): e for e in res.emitted if e['kind'] == 'pair'}
    kws = [e for e in res.emitted if e['kind'] == 'kw']
    kwseq = [e for e in res.emitted if e['kind'] == 'kwseq']
    mros = [e for e in res.emitted if e['kind'] == 'mro']
    if not pairs or not kws or not mros or not kwseq:
        raise MachineryError('TLC emitted nothing')
    # the spaces are identities: one id per class object, also for classes that print the same name
    objs = [c for s, c in model.spaces.items() if not model.is_module[s]]
    if len({id(c) for c in objs}) != len(objs) or any(model.spaces[t] is model.spaces[p] for t, p in model.namesake_parent.items()):
        raise MachineryError('two spaces of the extracted model are the same class object')
    namesake_pairs = {k: e for k, e in pairs.items() if k[0] in model.namesake_classes}
    for (sid, _), e in namesake_pairs.items():
        psid = model.namesake_parent[sid]
        if e['printed_name'] != d['cname'][psid] or psid not in e['namesake_of'] or model.spaces[sid].__name__ != model.spaces[psid].__name__:
            raise MachineryError(f'namesake subclass {sid} is not seen as a namesake of {psid} by the spec')
    if not namesake_pairs or not any(e['new_space'] == e['space'] and e['expected_definer'] == e['space'] for e in namesake_pairs.values()):
        raise MachineryError('no (namesake subclass, alias) pair whose replacement the subclass redefines was emitted')
    chk.rule = ('(receiver space, alias) pairs emitted by TLC from the extracted model: every class of the package (and every module '
                'holding an alias) x every deprecated name visible on it; distinct = distinct pairs, keyword rules and real-argument cases')
    chk.extra['extracted'] = dict(
        spaces=len(d['spaces']), modules=len(d['modules']), classes=len(d['spaces']) - len(d['modules']),
        bindings=sum(len(t) for t in d['table'].values()), functions=len(d['fn']),
        alias_wrappers=sum(1 for r in d['fn'].values() if r['kind'] == 'alias'),
        alias_bindings=len(model.alias_bindings()),
        dispatch={k: sum(1 for r in d['fn'].values() if r['kind'] == 'alias' and r['dispatch'] == k) for k in ('captured', 'dynamic', 'none', 'both')},
        keyword_rules=len(d['kwrenames']), keyword_wrappers=len(model.kwmaps), receiver_alias_pairs=len(pairs),
        user_subclasses=len(model.user_classes), namesake_subclasses=len(model.namesake_classes),
        namesake_subclasses_with_the_module_of_the_parent=sum(1 for t, c in model.namesake_classes.items()
                                                              if c.__module__ == model.spaces[model.namesake_parent[t]].__module__),
        pairs_on_namesake_subclasses=len(namesake_pairs),
        pairs_on_namesake_subclasses_redefining_the_replacement=sum(1 for e in namesake_pairs.values() if e['expected_definer'] == e['space']),
    )
    # ---- completeness of the extraction: every wrapper alive in the process is bound somewhere in the model
    gc.collect()
    loose = []
    for o in gc.get_objects():
        if inspect.isfunction(o) and (aliases.is_alias(o) or aliases.is_kwrenamer(o)) and (o.__module__ or '').startswith('biogeme'):
            if id(o) not in model.fid_of:
                loose.append(f'{o.__module__}.{o.__qualname__}')
    chk.extra['wrappers_not_bound_to_any_name'] = loose
    if loose:
        chk.uncovered.append(f'deprecation wrappers that no class or module binds under a name (unreachable for users): {loose}')
    # ---- (B) the spec's verdicts, pair by pair
    for key, e in sorted(pairs.items()):
        facts_m = dict(space=e['space'], alias=e['alias'])
        if not e['resolution_ok']:
            chk.violation('model:resolution', dict(what='on this receiver the old name does not run what the advertised new name runs',
                                                   receiver=e['space'], alias=e['alias'], advertised=e['newname'], old_name_runs=e['model_runs'],
                                                   new_name_runs=e['expected_fid'], new_name_looked_up_in=e['new_space'], dispatch=e['dispatch'],
                                                   passes_receiver=e['passes_receiver']),
                          match=dict(facts_m, kind='resolution'))
        if not e['replacement_ok']:
            chk.violation('model:replacement', dict(what='the advertised replacement is not the one the old name designates',
                                                    receiver=e['space'], alias=e['alias'], advertised=e['newname'], designated=e['candidates']),
                          match=dict(facts_m, kind='replacement'))
        if not e['static_dispatch_ok']:
            chk.violation('model:static-dispatch', dict(receiver=e['space'], alias=e['alias'], dispatch=e['dispatch']),
                          match=dict(facts_m, kind='static-dispatch'))
        if not e['own_ok']:
            chk.violation('model:own-name', dict(receiver=e['space'], alias=e['alias']), match=dict(facts_m, kind='own-name'))
        if not e['same_name_ok']:
            chk.violation('model:same-name', dict(what='a subclass carrying the name of its parent is not served by its own replacement',
                                                  receiver=e['space'], printed_name=e['printed_name'], alias=e['alias'], advertised=e['newname'],
                                                  old_name_runs=e['model_runs'], new_name_runs=e['expected_fid']),
                          match=dict(facts_m, kind='same-name'))
    chk.extra['model_violating_pairs'] = dict(
        resolution=sorted(f"{e['space']}.{e['alias']}" for e in pairs.values() if not e['resolution_ok']),
        replacement=sorted(f"{e['space']}.{e['alias']} -> {e['newname']} (designated: {e['candidates']})" for e in pairs.values() if not e['replacement_ok']),
    )
    for e in kws:
        if not (e['target_ok'] and e['old_gone']):
            chk.violation('model:keyword-target', dict(function=e['fid'], old=e['old'], new=e['new'], target_ok=e['target_ok'], old_gone=e['old_gone']),
                          match=dict(space=e['fid'], alias=e['old'], kind='keyword-target'))
    # ---- (C1) the spec's linearisation against the interpreter's
    mro = mros[0]['mro']
    nm = 0
    for sid, c in model.spaces.items():
        want = [model.space_id(x) for x in c.__mro__] if inspect.isclass(c) else [sid]
        nm += 1
        if mro.get(sid) != want:
            chk.violation('replay:mro', dict(space=sid, spec=mro.get(sid), python=want), match=dict(space=sid, kind='mro'))
    chk.extra['linearisations_compared'] = nm
    chk.count(None, nm)
    # ---- (C2) spies on every pair
    shapes = [0] if quick else list(range(aliases.SHAPES))
    nspy = 0
    disagree = 0
    for key, e in sorted(pairs.items()):
        for sh in shapes:
            r = aliases.spy_pair(model, e, sh)
            nspy += 1
            chk.replayed += 1
            chk.count(('pair',) + key, r.get('calls', 0))
            spec_ok = e['resolution_ok']
            if r['ok'] != spec_ok:
                disagree += 1
            if not r['ok']:
                chk.violation('replay:spy', dict(receiver=e['space'], alias=e['alias'], advertised=e['newname'], shape=sh,
                                                 spec_expected_definer=e['expected_definer'], problems=r['problems'], spec_verdict=spec_ok),
                              match=dict(space=e['space'], alias=e['alias'], kind='spy'))
            elif not spec_ok:
                chk.violation('replay:model-disagrees', dict(receiver=e['space'], alias=e['alias'], note='the model reports a violation that the real wrapper does not show'),
                              match=dict(space=e['space'], alias=e['alias'], kind='disagree'))
        if len(chk.samples) < 2 and e['space'].endswith('Beta') and e['alias'] in ('getSignature', 'getValue'):
            chk.sample(dict(receiver=e['space'], alias=e['alias'], advertised=e['newname'], spec_expected_definer=e['expected_definer'],
                            spec_expected_function=e['expected_fid'], model_runs=e['model_runs'], spy_ok=r['ok'], problems=r['problems']))
    chk.extra['spy_replays'] = nspy
    chk.extra['spec_vs_spy_disagreements'] = disagree
    # ---- (C3) keyword renaming through the real wrappers
    nk = 0
    for e in kws:
        r = aliases.kw_case(model, e)
        nk += 1
        chk.replayed += 1
        chk.count(('kw', e['fid'], e['old'], str(e['given'])), 1)
        if not r['ok']:
            chk.violation('replay:keyword', dict(function=e['fid'], given=e['given'], problems=r['problems']),
                          match=dict(space=e['fid'], alias=e['old'], kind='keyword'))
    chk.extra['keyword_cases_replayed'] = nk
    # ---- (C4) several keywords in every order (KwOrdered) through the real wrappers
    order_cov = {}
    for e in kwseq:
        r = aliases.kw_case(model, e)
        chk.replayed += 1
        chk.count(('kwseq', e['fid'], str(e['given'])), 1)
        if {'ignored', 'old-style', 'new-style'} <= set(e['kinds']):
            w = aliasreal.ignored_position(e)
            order_cov[w] = order_cov.get(w, 0) + 1
        if not r['ok']:
            chk.violation('replay:keyword-order', dict(function=e['fid'], given=e['given'], kinds=e['kinds'], problems=r['problems']),
                          match=dict(space=e['fid'], alias=','.join(n for n, _ in e['given']), kind='keyword-order'))
    chk.extra['ordered_keyword_cases'] = dict(replayed=len(kwseq), functions=len({e['fid'] for e in kwseq}),
                                              longest=max(len(e['given']) for e in kwseq),
                                              ignored_keyword_among_old_and_new_style=order_cov)
    if any(order_cov.get(w, 0) == 0 for w in ('first', 'middle', 'last')):
        raise MachineryError(f'TLC emitted no ordered keyword case with the ignored keyword first / in the middle / last: {order_cov}')
    ex = next(e for e in kwseq if len(e['given']) >= 4 and aliasreal.ignored_position(e) == 'middle' and {'old-style', 'new-style'} <= set(e['kinds']))
    chk.sample(dict(ordered_keywords=ex['fid'], given=ex['given'], kinds=ex['kinds'], spec_forwarded=ex['forwarded_options'], spec_warnings=ex['warnings']))
    chk.sample(dict(keyword_rule=kws[0]['fid'], old=kws[0]['old'], new=kws[0]['new'], given=kws[0]['given'],
                    spec_forwarded_options=kws[0]['forwarded_options'], spec_warnings=kws[0]['warnings']))
    # ---- (D) real objects, real arguments
    resdir = os.path.join(scratch, 'res')
    os.makedirs(resdir, exist_ok=True)
    shutil.copy(os.path.join(scratch, 'biogeme.toml'), os.path.join(resdir, 'biogeme.toml'))
    aliasreal.prepare_results_pickle(resdir)
    cases, uncovered_pairs = aliasreal.build_cases(model, pairs, chk.tier)
    seeds = [chk.seed % 1000] if quick else [chk.seed % 1000, chk.seed % 1000 + 17, chk.seed % 1000 + 101]
    runs = [(c, sd) for sd in seeds for c in cases if sd == seeds[0] or c['space'].startswith('module ') or 'ample' in c['alias'] or 'andom' in c['alias']]
    out = par.pmap(aliasreal.run_case, [(model, c, sd) for c, sd in runs], chunk=1, timeout=300)
    both_raised = 0
    for (c, sd), (st, v) in zip(runs, out):
        chk.replayed += 1
        if st != 'ok':
            chk.violation('real:harness', dict(receiver=c['space'], alias=c['alias'], label=c['label'], status=st, info=v),
                          match=dict(space=c['space'], alias=c['alias'], kind='real-harness'))
            continue
        chk.count(('real', c['space'], c['alias'], c['label'], sd), 2)
        both_raised += all(v['raised'])
        if v['diffs']:
            chk.violation('real:differs', dict(receiver=c['space'], alias=c['alias'], advertised=v['newname'], instance=c['label'], differences=v['diffs'],
                                               spec_verdict=c['rec']['resolution_ok']),
                          match=dict(space=c['space'], alias=c['alias'], kind='real'))
        if v.get('designated') and not v['designated']['same_result']:
            chk.extra.setdefault('designated_replacement_differs', []).append(dict(alias=c['alias'], space=c['space'], **v['designated']))
        if len(chk.samples) < 4 and c['alias'] in ('scaleColumn', 'getHaltonDraws'):
            chk.sample(dict(real_call=f"{c['space']}.{c['alias']} vs {v['newname']}", differences=v['diffs'], result=v['result']))
    rules = {(e['fid'], e['old']): e for e in kws}
    kcases, uncovered_rules = aliasreal.build_kw_cases(model, rules, chk.tier)
    kout = par.pmap(aliasreal.run_kw_case, [(model, c, chk.seed % 1000) for c in kcases], chunk=1, timeout=300)
    for c, (st, v) in zip(kcases, kout):
        chk.replayed += 1
        if st != 'ok':
            chk.violation('real:harness', dict(function=c['fid'], old=c['old'], status=st, info=v), match=dict(space=c['fid'], alias=c['old'], kind='real-harness'))
            continue
        chk.count(('realkw', c['fid'], c['old']), 2)
        both_raised += all(v['raised'])
        if v['diffs']:
            chk.violation('real:keyword-differs', dict(function=c['fid'], old=c['old'], new=c['new'], differences=v['diffs']),
                          match=dict(space=c['fid'], alias=c['old'], kind='real-keyword'))
    ocases = aliasreal.build_kw_order_cases(model, kwseq, chk.tier)
    if {c['where'] for c in ocases} != {'first', 'middle', 'last'}:
        raise MachineryError('no real-argument case for an ignored keyword first / in the middle / last')
    oout = par.pmap(aliasreal.run_kw_order_case, [(model, c, chk.seed % 1000) for c in ocases], chunk=1, timeout=300)
    for c, (st, v) in zip(ocases, oout):
        chk.replayed += 1
        names = ','.join(n for n, _ in c['given'])
        if st != 'ok':
            chk.violation('real:harness', dict(function=c['fid'], given=names, status=st, info=v), match=dict(space=c['fid'], alias=names, kind='real-harness'))
            continue
        chk.count(('realkwseq', c['fid'], names), 2)
        both_raised += all(v['raised'])
        if v['diffs']:
            chk.violation('real:keyword-order-differs', dict(function=c['fid'], given=c['given'], forwarded_by_the_spec=c['forwarded'], differences=v['diffs']),
                          match=dict(space=c['fid'], alias=names, kind='real-keyword-order'))
    chk.extra['real_argument_cases'] = dict(alias_calls=len(cases), keyword_calls=len(kcases), both_sides_raised=both_raised,
                                           ordered_keyword_calls={w: sum(1 for c in ocases if c['where'] == w) for w in ('first', 'middle', 'last')},
                                           alias_calls_on_namesake_subclasses=sum(1 for c in cases if c['space'] in model.namesake_classes),
                                           pairs_with_real_call=len({(c['space'], c['alias']) for c in cases}),
                                           pairs_spy_only=len(uncovered_pairs), keyword_rules_spy_only=[list(x) for x in uncovered_rules])
    # ---- negative controls
    cp = {(e['space'], e['alias']): e for e in res_ctrl.emitted if e['kind'] == 'pair'}
    if res_ctrl.error:
        raise MachineryError(f'control TLC run failed: {res_ctrl.error[:500]}')
    chk.states += res_ctrl.states
    chk.transitions += res_ctrl.transitions
    e1, e2 = cp.get(facts['resolution']), cp.get(facts['replacement'])
    chk.control('model: an alias made to capture another function than its new name designates (getUniform -> get_halton_draws)',
                bool(e1) and not e1['resolution_ok'] and pairs[facts['resolution']]['resolution_ok'])
    chk.control('model: an alias made to advertise a name that is not a re-spelling of the old one (getText -> get_html)',
                bool(e2) and not e2['replacement_ok'] and pairs[facts['replacement']]['replacement_ok'])
    cm = [e for e in res_ctrl.emitted if e['kind'] == 'mro'][0]['mro']
    c3 = facts['mro']
    chk.control('conformance: with the bases of Beta falsified the spec\'s linearisation no longer equals __mro__',
                cm[c3] != [model.space_id(x) for x in model.spaces[c3].__mro__] and mro[c3] == [model.space_id(x) for x in model.spaces[c3].__mro__])
    # spy: an emitted record with the expected definer replaced by another definer of the new name
    done = False
    for key, e in sorted(pairs.items()):
        if not e['resolution_ok'] or e['new_space'] != e['space'] or model.is_module[e['space']]:
            continue
        others = [s for s in mro[e['space']] if s != e['expected_definer'] and e['newname'] in model.table.get(s, {})]
        if others and aliases.spy_pair(model, e)['ok']:
            bad = dict(e, expected_definer=others[0], expected_fid=model.table[others[0]][e['newname']])
            r = aliases.spy_pair(model, bad)
            chk.control(f'spy: expected definer of {e["space"].split(".")[-1]}.{e["newname"]} replaced by {others[0].split(".")[-1]}', not r['ok'],
                        note=str(r['problems'])[:200])
            done = True
            break
    if not done:
        chk.control('spy: expected definer replaced by another definer', False, note='no pair with two definers found')
    # namesake subclasses: (i) a model that tells classes apart by name, (ii) a wrapper that recognises its class by name
    p4, t4 = facts['collapsed']
    a4 = next((a for (sp, a), e in sorted(pairs.items()) if sp == t4 and e['expected_definer'] == t4 and e['resolution_ok'] and (p4, a) in cp), None)
    if a4 is None:
        chk.control('model: classes told apart by name (namesake subclass merged into Database)', False, note='no suitable alias')
    else:
        r_bad, r_good = aliases.spy_pair(model, cp[(p4, a4)]), aliases.spy_pair(model, pairs[(p4, a4)])
        chk.control(f'model: classes told apart by name (namesake subclass merged into Database): the spec then expects Database.{a4} to run the '
                    'subclass\'s function and the interpreter contradicts it', (t4, a4) not in cp and not r_bad['ok'] and r_good['ok'],
                    note=str(r_bad['problems'])[:200])
        owner = model.spaces[p4]
        usid = next((u for u, c in model.user_classes.items() if c.__bases__[0] is owner), None)
        raw = vars(owner)[a4]
        bad_w = aliases.name_dispatching_wrapper(aliases._unwrap_descriptor(raw)[0], owner)
        setattr(owner, a4, bad_w)
        try:
            on_twin = aliases.spy_pair(model, pairs[(t4, a4)])
            on_user = aliases.spy_pair(model, pairs[(usid, a4)]) if usid and (usid, a4) in pairs else dict(ok=False, problems=['no user subclass'])
            on_self = aliases.spy_pair(model, pairs[(p4, a4)])
        finally:
            setattr(owner, a4, raw)
        if vars(owner)[a4] is not raw:
            raise MachineryError('control wrapper not removed')
        chk.control(f'wrong code: Database.{a4} replaced by a wrapper that recognises its class by NAME: reported on the namesake subclass only '
                    '(Database itself and the differently named subclass are served correctly)',
                    not on_twin['ok'] and on_user['ok'] and on_self['ok'],
                    note=str(on_twin['problems'])[:200])
    # keyword order: a wrapper that stops reading the keywords at an ignored one
    fidB = next(e['fid'] for e in kwseq if 'ignored' in e['kinds'])
    bad_w = aliases.stopping_kw_wrapper(model.obj_of[fidB])
    tally = {}
    for e in kwseq:
        if e['fid'] == fidB and 'ignored' in e['kinds']:
            w = aliasreal.ignored_position(e)
            ok = aliases.kw_case(model, e, wrapper=bad_w)['ok']
            tally.setdefault(w, [0, 0])[0 if ok else 1] += 1
    old_style = [aliases.kw_case(model, e, wrapper=bad_w)['ok'] for e in kws if e['fid'] == fidB]
    chk.control('wrong code: a keyword wrapper that stops at an ignored keyword is reported by every ordered case with the ignored keyword first or in '
                'the middle, by none with it last, and by none of the one-rule cases',
                tally.get('first', [1, 0])[0] == 0 and tally.get('middle', [1, 0])[0] == 0 and tally.get('last', [0, 1])[1] == 0
                and tally.get('first', [0, 0])[1] > 0 and tally.get('middle', [0, 0])[1] > 0 and tally.get('last', [0, 0])[0] > 0 and all(old_style),
                note=f'[accepted, reported] by position: {tally}; one-rule cases accepted: {sum(old_style)}/{len(old_style)}')
    # keyword: the expected forwarded value exchanged
    e = next(x for x in kws if x['warnings'] == 1 and len(x['given']) == 1 and x['new'] and x['given'][0][0] == x['old'])
    bad = dict(e, forwarded_options=[[[e['new'], 2]]])
    chk.control('keyword: expected forwarded value exchanged for another one', not aliases.kw_case(model, bad)['ok'] and aliases.kw_case(model, e)['ok'])
    bad = dict(e, warnings=0)
    chk.control('keyword: expected number of warnings lowered to 0', not aliases.kw_case(model, bad)['ok'])
    # real arguments: the old name compared with a different method
    sid = 'biogeme.database.Database'
    c0 = next(c for c in cases if c['space'] == sid and c['alias'] == 'getSampleSize')
    bad = dict(c0, rec=dict(c0['rec'], newname='get_number_of_observations'))
    st, v = rt.forked(aliasreal.run_case, (model, bad, 1))
    chk.control('real arguments: getSampleSize on panel data compared with get_number_of_observations', st == 'ok' and bool(v['diffs']))
    chk.uncovered += [
        'class-qualified calls (Base.old_name(obj), super().old_name()) are not modelled: Call is attribute access on an instance of the receiver class',
        'subclasses written by users are represented by two generated subclasses per alias-declaring class (another name; the name of the parent), '
        'both redefining every advertised name; deeper user hierarchies only through the general MRO argument of the spec',
        'ordered keyword cases: sequences of 2..5 distinct keywords over a pool of at most 5 per function (ignored, two old-style, two new-style); '
        'old and new keyword of the same rule are never both in the pool (that ambiguity is covered by the one-rule cases)',
        f'{len(uncovered_pairs)} (receiver, alias) pairs are checked by spies only (no instance with real arguments is built for them)',
        'when the old and the new keyword are both given the documentation is silent: the spec only requires that one of the two values arrives',
        'files written by old and new calls are compared by name, not by content (reports carry time stamps)',
        'the declared signature of the old name (functools.wraps) is not compared with the replacement\'s: the wrapper accepts *args/**kwargs',
    ]
    chk.assumptions += [
        'the extraction (class dictionaries, __bases__, wrapper closures) is a faithful reading of the imported package; wrappers are recognised by __deprecated__ / the obsolete_params closure cell',
        'documented renames accepted by ReplacementInv: ' + ', '.join(f'{a}->{b}' for a, b in sorted(aliases.DOCUMENTED_RENAMES)),
    ]


if __name__ == '__main__':
    check.main(PID, body)
