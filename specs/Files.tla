-------------------------------- MODULE Files --------------------------------
(***************************************************************************)
(* The output directory of biogeme: which file every output operation      *)
(* creates, and that nothing that exists is ever replaced.                 *)
(*                                                                         *)
(* State: dir, a function  name -> version  (a version is a content id: a  *)
(* fresh number per created file; a copy or a renamed file keeps the       *)
(* version of its source).                                                 *)
(*                                                                         *)
(* Operations (records [k, a, b, c] of strings):                           *)
(*   write     a = kind ("html" | "pickle" | "tex" | "F12"), b = model     *)
(*             name, c = results object  -- bioResults.write_html,         *)
(*             write_pickle, write_latex, write_f12: ONE new file whose    *)
(*             name is NewName(model, extension)                           *)
(*   dump      a = data set name -- Database.dump_on_file: one new file    *)
(*             NewName(name_dumped, "dat")                                 *)
(*   estimate  a = model -- BIOGEME.estimate(): the HTML report, then the  *)
(*             pickle (both requested by the default parameters)           *)
(*   validate  a = model -- BIOGEME.validate() on Slices folds: per fold   *)
(*             i the estimation of model a_val_est_i (report + pickle),    *)
(*             then the pickle of the simulations, a_validation.pickle     *)
(*   backup    a = stem, b = extension, c = "rename" | "copy" --           *)
(*             create_backup(stem.ext, rename)                             *)
(*   recycle   a = model -- BIOGEME.estimate(recycle=True): reads the      *)
(*             pickle OF THAT MODEL that sorts last; estimates when the    *)
(*             model has none                                              *)
(*   list      a = model, b = extension -- BIOGEME.files_of_type(b): the   *)
(*             files of that model with that extension; changes nothing    *)
(*   load      a = file name -- bioResults(pickle_file=a)                  *)
(*   extcreate / extremove  a = file name -- the user (or another program) *)
(*             creates / deletes a file: that is how holes in the          *)
(*             numbering come about                                        *)
(*                                                                         *)
(* A file name carries the name of its model: the files of model m with    *)
(* extension e are m.e and m~NN.e (FileNames!IsFileOf), and every lookup   *)
(* by model name (recycle, list) is DEFINED by that scheme.  Several       *)
(* models whose names share a prefix (mode / mode_price, m / m_validation  *)
(* / m_val_est_1, mode / mode~v2) may live in one directory: each sees its *)
(* own files only.                                                         *)
(*                                                                         *)
(* Predict(names, op) says, from the set of names present, what the        *)
(* operation does; it is used by the actions below AND by FilesTrace to    *)
(* judge directory snapshots recorded from the real code.                  *)
(*                                                                         *)
(* Properties checked by TLC on the model (all histories of <= MaxOps      *)
(* operations from every initial directory in Pre):                        *)
(*   NoOverwrite   a name that stays keeps its version                     *)
(*   NothingLost   every version stays reachable under some name, unless   *)
(*                 the user removed it                                     *)
(*   FreshNames    every created name did not exist                        *)
(*   LeastRule     the created name is the documented one (name.ext, else  *)
(*                 the least-numbered free name~NN.ext)                    *)
(*   LoadsWhatWasWritten  loading the name returned by a write gives the   *)
(*                 version written then, whatever happened in between      *)
(*   SeesOwnFilesOnly  what a lookup by model name sees are files of that  *)
(*                 model, all of them, and the two ways of stating the     *)
(*                 scheme (parsing a name / generating the candidates)     *)
(*                 agree                                                   *)
(*   RecycleOwnModel  the results recycling returns for model m were saved *)
(*                 by model m (or lay under one of m's names before the    *)
(*                 history started / were put there by the user), never by *)
(*                 another model                                           *)
(*   FoundAreOwn   (only where no model is named like a numbered version   *)
(*                 of another one) every file that is "of model m" by its  *)
(*                 name was made by m: the scheme is unambiguous           *)
(*   RecycleLatest (NOT expected to hold in general, see the check)        *)
(***************************************************************************)
EXTENDS FileNames, Json

CONSTANTS
    Ops,        \* the operations of this scenario (set of [k, a, b, c])
    Pre,        \* set of initial directories, each a set of names
    MaxOps,     \* length of the histories
    MaxEnv,     \* how many of them may be extcreate / extremove
    Slices,     \* number of folds of validate
    MaxIndex,   \* largest candidate index looked at when searching existing pickles
    Mutant      \* "none" | "overwrite" | "highest": seeded defects of the naming rule;
                \* "prefix": seeded defect of the lookup (everything that starts with the model name)

VARIABLES dir, clock, log, pre
vars == <<dir, clock, log, pre>>

Op(k, a, b, c) == [k |-> k, a |-> a, b |-> b, c |-> c]
ExtOf(kind) == IF kind = "tex" THEN "tex" ELSE kind     \* html, pickle, tex, F12 are their own extensions
EnvKinds == {"extcreate", "extremove"}

Range(s) == {s[i] : i \in DOMAIN s}
RECURSIVE SetSeq(_)
SetSeq(S) == IF S = {} THEN << >> ELSE LET x == CHOOSE x \in S : TRUE IN <<x>> \o SetSeq(S \ {x})
Max(S) == CHOOSE x \in S : \A y \in S : y <= x

(***************************************************************************)
(* The naming rule in force (the documented one unless a defect is seeded) *)
(***************************************************************************)
Name(names, base, ext) ==
    CASE Mutant = "overwrite" -> Plain(base, ext)
      [] Mutant = "highest"   -> LET ks == PresentIdx(names, base, ext, MaxIndex)
                                 IN  IF ks = {} THEN Plain(base, ext) ELSE Cand(base, ext, Max(ks) + 1)
      [] OTHER                -> NewName(names, base, ext)

(***************************************************************************)
(* The lookup by model name in force                                       *)
(***************************************************************************)
Lookup(names, m, e) == IF Mutant = "prefix" THEN LooseFilesOf(names, m, e) ELSE FilesOf(names, m, e)
\* which of the model's pickles recycling reads: the one that sorts last as a string.  (Under the seeded
\* defect the set may hold files of other models, whose names sort after "m." and before "m~": any of
\* them will do to show the defect.)
PickedBy(names, m) ==
    LET own == FilesOf(names, m, "pickle")
        all == Lookup(names, m, "pickle")
    IN  IF all \ own # {} /\ own \subseteq {Plain(m, "pickle")} THEN CHOOSE n \in all \ own : TRUE
        ELSE Cand(m, "pickle", LastSorted(FoundIdx(names, m, "pickle")))

\* new  = names created, in order          who  = who makes each of them (a model name, or a label)
\* gone = names that disappear             same = (copy, source) pairs
\* ret  = the name reported                from = the pickle read
\* seen = what the operation's lookup by model name returns ({} when it makes none)
Nothing == [new |-> << >>, who |-> << >>, gone |-> {}, same |-> << >>, ret |-> "", from |-> "", seen |-> {}]

EstimateNew(names, m) ==
    LET h == Name(names, m, "html")
        p == Name(names \cup {h}, m, "pickle")
    IN  <<h, p>>

FoldModel(m, i) == m \o "_val_est_" \o ToString(i)
RECURSIVE ValidateNew(_, _, _)
ValidateNew(names, m, i) ==
    IF i > Slices THEN <<Name(names, m \o "_validation", "pickle")>>
    ELSE LET e == EstimateNew(names, FoldModel(m, i))
         IN  e \o ValidateNew(names \cup Range(e), m, i + 1)
\* the simulated validation samples are not the estimation results of any model
RECURSIVE ValidateWho(_, _)
ValidateWho(m, i) == IF i > Slices THEN <<"(validation of) " \o m>>
                     ELSE <<FoldModel(m, i), FoldModel(m, i)>> \o ValidateWho(m, i + 1)

Predict(names, op) ==
    CASE op.k = "write" ->
           LET n == Name(names, op.b, ExtOf(op.a)) IN [Nothing EXCEPT !.new = <<n>>, !.who = <<op.b>>, !.ret = n]
      [] op.k = "dump" ->
           LET n == Name(names, op.a \o "_dumped", "dat")
           IN  [Nothing EXCEPT !.new = <<n>>, !.who = <<"(data) " \o op.a>>, !.ret = n]
      [] op.k = "estimate" ->
           LET e == EstimateNew(names, op.a) IN [Nothing EXCEPT !.new = e, !.who = <<op.a, op.a>>, !.ret = e[2]]
      [] op.k = "validate" ->
           [Nothing EXCEPT !.new = ValidateNew(names, op.a, 1), !.who = ValidateWho(op.a, 1)]
      [] op.k = "backup" ->
           LET f == Plain(op.a, op.b) IN
           IF f \notin names THEN Nothing
           ELSE LET n == BackupName(names, op.a, op.b) IN
                [Nothing EXCEPT !.new = <<n>>, !.who = <<"(backup)">>, !.same = << <<n, f>> >>, !.ret = n,
                                !.gone = IF op.c = "rename" THEN {f} ELSE {}]
      [] op.k = "recycle" ->
           LET fs == Lookup(names, op.a, "pickle") IN
           IF fs = {} THEN LET e == EstimateNew(names, op.a) IN [Nothing EXCEPT !.new = e, !.who = <<op.a, op.a>>, !.ret = e[2]]
           ELSE [Nothing EXCEPT !.from = PickedBy(names, op.a), !.seen = fs]
      [] op.k = "list"      -> [Nothing EXCEPT !.seen = Lookup(names, op.a, op.b)]
      [] op.k = "load"      -> [Nothing EXCEPT !.from = op.a]
      [] op.k = "extcreate" -> [Nothing EXCEPT !.new = <<op.a>>, !.who = <<"user">>]
      [] op.k = "extremove" -> [Nothing EXCEPT !.gone = {op.a}]

Enabled(names, op) ==
    CASE op.k = "load"      -> op.a \in names
      [] op.k = "extcreate" -> op.a \notin names
      [] op.k = "extremove" -> op.a \in names
      [] OTHER              -> TRUE

\* which model's pickle an operation writes (for RecycleLatest), "" if none
WritesPickleOf(op, p) ==
    IF op.k = "write" /\ op.a = "pickle" THEN op.b
    ELSE IF op.k = "estimate" \/ (op.k = "recycle" /\ p.from = "") THEN op.a
    ELSE ""

(***************************************************************************)
(* Behaviours                                                              *)
(***************************************************************************)
SrcOf(p, n) == LET i == CHOOSE i \in DOMAIN p.same : p.same[i][1] = n IN p.same[i][2]
HasSrc(p, n) == \E i \in DOMAIN p.same : p.same[i][1] = n
IndexIn(s, x) == CHOOSE i \in DOMAIN s : s[i] = x

Init == /\ \E d \in Pre : /\ pre = d
                          /\ dir = [n \in d |-> IndexIn(SetSeq(d), n)]
                          /\ clock = Cardinality(d)
        /\ log = << >>

NEnv == Cardinality({i \in DOMAIN log : log[i].op.k \in EnvKinds})

Do(op) ==
    \* (\E over a singleton: the prediction is computed once)
    \E p \in {Predict(DOMAIN dir, op)} : \E created \in {Range(p.new)} :
    LET names == DOMAIN dir
        keep == names \ p.gone
        verOf(n) == IF HasSrc(p, n) THEN dir[SrcOf(p, n)] ELSE clock + IndexIn(p.new, n)
    IN
    /\ Len(log) < MaxOps
    /\ op.k \in EnvKinds => NEnv < MaxEnv
    /\ Enabled(names, op)
    \* a created file REPLACES whatever had that name: only the naming rule keeps this from happening
    /\ dir' = [n \in keep \cup created |-> IF n \in created THEN verOf(n) ELSE dir[n]]
    /\ clock' = clock + Len(p.new)
    /\ log' = Append(log, [op |-> op, new |-> p.new, who |-> p.who, gone |-> p.gone, ret |-> p.ret, from |-> p.from,
                           seen |-> p.seen,
                           vers |-> [i \in DOMAIN p.new |-> verOf(p.new[i])],
                           loaded |-> IF p.from = "" THEN 0 ELSE dir[p.from],
                           before |-> dir])
    /\ UNCHANGED pre

Next == \E op \in Ops : Do(op)
Spec == Init /\ [][Next]_vars

(***************************************************************************)
(* Properties                                                              *)
(***************************************************************************)
Last == log[Len(log)]

\* a name that is still there holds the version it held
NoOverwrite == [][\A n \in DOMAIN dir : n \in DOMAIN dir' => dir'[n] = dir[n]]_vars

\* no content disappears, except the file the user deleted
NothingLost == [][\A n \in DOMAIN dir :
                     \/ \E n2 \in DOMAIN dir' : dir'[n2] = dir[n]
                     \/ (log'[Len(log')].op.k = "extremove" /\ log'[Len(log')].op.a = n)]_vars

\* stated on the history: every created name was free, every output name follows the documented rule
FreshNames == \A i \in DOMAIN log : \A j \in DOMAIN log[i].new : log[i].new[j] \notin DOMAIN log[i].before

LeastRule == \A i \in DOMAIN log :
    LET e == log[i] IN
    /\ e.op.k = "write" => IsDocumentedNewName(DOMAIN e.before, e.op.b, ExtOf(e.op.a), e.new[1])
    /\ e.op.k = "dump"  => IsDocumentedNewName(DOMAIN e.before, e.op.a \o "_dumped", "dat", e.new[1])
    /\ e.op.k = "estimate" =>
          /\ IsDocumentedNewName(DOMAIN e.before, e.op.a, "html", e.new[1])
          /\ IsDocumentedNewName(DOMAIN e.before, e.op.a, "pickle", e.new[2])
    /\ e.op.k = "backup" /\ e.new # << >> =>
          /\ e.new[1] \notin DOMAIN e.before
          /\ \E n \in 1..(Cardinality(DOMAIN e.before) + 1) :
                /\ e.new[1] = BackupCand(e.op.a, e.op.b, n)
                /\ \A j \in 1..(n - 1) : BackupCand(e.op.a, e.op.b, j) \in DOMAIN e.before

\* what is read back from the name a write returned is what was written then (nobody deleted it)
LoadsWhatWasWritten == \A i \in DOMAIN log : \A j \in DOMAIN log :
    (i < j /\ log[j].op.k = "load" /\ log[i].ret = log[j].op.a /\ log[i].new # << >>
       /\ ~\E q \in (i + 1)..(j - 1) : log[j].op.a \in log[q].gone)
    => log[j].loaded = log[i].vers[IndexIn(log[i].new, log[i].ret)]

\* recycling returns the most recent pickle of the model written in this history
\* (holds only while the numbering has no holes and stays below ~99: see checks/c14.py)
RecycleLatest == \A i \in DOMAIN log :
    LET e == log[i] IN
    (e.op.k = "recycle" /\ e.from # "") =>
        \A j \in 1..(i - 1) :
            (/\ WritesPickleOf(log[j].op, log[j]) = e.op.a
             /\ ~\E q \in (j + 1)..(i - 1) : WritesPickleOf(log[q].op, log[q]) = e.op.a \/ log[j].ret \in log[q].gone)
            => e.loaded = log[j].vers[IndexIn(log[j].new, log[j].ret)]

(***************************************************************************)
(* Several models in one directory: every lookup by model name sees the    *)
(* files of ITS model only                                                 *)
(***************************************************************************)
LooksUp(e) == e.op.k = "list" \/ (e.op.k = "recycle" /\ e.from # "")
LookedExt(e) == IF e.op.k = "list" THEN e.op.b ELSE "pickle"

SeesOwnFilesOnly == \A i \in DOMAIN log :
    LET e == log[i] IN
    LooksUp(e) =>
        \* only files of the model, all of them
        /\ \A n \in e.seen : IsFileOf(n, e.op.a, LookedExt(e))
        /\ \A n \in DOMAIN e.before : IsFileOf(n, e.op.a, LookedExt(e)) => n \in e.seen
        \* reading the names backwards and generating the candidates forwards is the same scheme
        /\ (\A n \in e.seen : IndexOf(n, e.op.a, LookedExt(e)) <= MaxIndex)
               => e.seen = {Cand(e.op.a, LookedExt(e), k) : k \in PresentIdx(DOMAIN e.before, e.op.a, LookedExt(e), MaxIndex)}

\* who made the content with version id v: "earlier" (it was in the initial directory), "user", or what
\* the output operation says (a copy keeps the version of its source, so a backup makes nothing)
MakerOf(v) ==
    IF v <= Cardinality(pre) THEN "earlier"
    ELSE LET i == CHOOSE i \in DOMAIN log : log[i].op.k # "backup" /\ \E j \in DOMAIN log[i].vers : log[i].vers[j] = v
             j == CHOOSE j \in DOMAIN log[i].vers : log[i].vers[j] = v
         IN  log[i].who[j]

RecycleOwnModel == \A i \in DOMAIN log :
    LET e == log[i] IN
    (e.op.k = "recycle" /\ e.from # "") =>
        /\ IsFileOf(e.from, e.op.a, "pickle")
        /\ e.from \in e.seen
        /\ MakerOf(e.loaded) \in {e.op.a, "earlier", "user"}

\* the models this scenario talks about, and the scheme being unambiguous for them
ModelsOfOps == {o.b : o \in {x \in Ops : x.k = "write"}}
               \cup {o.a : o \in {x \in Ops : x.k \in {"estimate", "recycle", "validate", "list"}}}
ResultExts == {"html", "pickle", "tex", "F12"}
FoundAreOwn == \A n \in DOMAIN dir : \A m \in ModelsOfOps : \A x \in ResultExts :
    IsFileOf(n, m, x) => MakerOf(dir[n]) \in {m, "earlier", "user"}

TypeOK == \A n \in DOMAIN dir : dir[n] \in 1..clock

(***************************************************************************)
(* Emission of the finished histories (spec -> code replay)                *)
(***************************************************************************)
DirSeq(d) == LET s == SetSeq(DOMAIN d) IN [i \in DOMAIN s |-> <<s[i], d[s[i]]>>]
Emitted == [pre |-> SetSeq(pre),
            steps |-> [i \in DOMAIN log |->
                         [op |-> log[i].op, new |-> log[i].new, vers |-> log[i].vers,
                          gone |-> SetSeq(log[i].gone), ret |-> log[i].ret,
                          from |-> log[i].from, loaded |-> log[i].loaded,
                          seen |-> SetSeq(log[i].seen), looks |-> LooksUp(log[i])]],
            final |-> DirSeq(dir)]
EmitInv == Len(log) = MaxOps => PrintT(ToJson(Emitted))
=============================================================================
