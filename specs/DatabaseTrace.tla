---------------------------- MODULE DatabaseTrace ----------------------------
(***************************************************************************)
(* Trace validation for the data set (code -> spec).                       *)
(*                                                                         *)
(* A trace is what a real biogeme.database.Database did along one history: *)
(*   [tid, init |-> compact state, events |-> <<[op, a, err, ret, post]>>] *)
(* err = "" or the class of the exception raised, ret = the value returned *)
(* (folds, sampled rows, extracted rows, flat table, count ...), post =    *)
(* the observable state of the object afterwards (labels and cells of      *)
(* Database.data, columns, excludedData, panel column, individual map).    *)
(*                                                                         *)
(* One event is consumed per step.  The step is accepted iff what was      *)
(* logged is ONE OF the outcomes the design module Database allows in the  *)
(* current specification state: for the deterministic operations the one   *)
(* state / value given by RemoveByPosition, AddRes, ScaleRes, PanelRes,    *)
(* MapOf, ExtractRes, FlattenRes, CountRes, Sizes; for Split and the two   *)
(* Sample operations any outcome satisfying SplitOK / SampleOK /           *)
(* IndSampleOK (TLC thereby infers the shuffle).  The verdict of a trace   *)
(* is "ok" or the name of the first failing clause.                        *)
(***************************************************************************)
EXTENDS Database, IOUtils

Trace == JsonDeserialize(IOEnv.TRACE_FILE)
NT == Len(Trace)

VARIABLES t, l, bad, badstep
tvars == <<t, l, bad, badstep, table, cols, excluded, pcol, map>>
rest  == <<tid, prev, last, res, n, seq, hist, done>>

T_None == << >>

TRow(r)   == Row(r[1], SubSeq(r, 2, Len(r)))
TRows(rs) == [i \in 1..Len(rs) |-> TRow(rs[i])]
TMap(m)   == [i \in 1..Len(m) |-> [id |-> m[i][1], first |-> m[i][2], last |-> m[i][3]]]
TFolds(fs) == [f \in 1..Len(fs) |-> [est |-> TRows(fs[f].est), val |-> TRows(fs[f].val)]]

St(tb, cs, ex, pc, mp) == [table |-> tb, cols |-> cs, excluded |-> ex, pcol |-> pc, map |-> mp]
Cur == St(table, cols, excluded, pcol, map)
CS(s) == CState(s.table, s.cols, s.excluded, s.pcol, s.map)

\* what the design module says about a state-changing operation in state s:
\* the class of the refusal ("" = accepted) and the state afterwards
Exp(s, ev) ==
    LET a == ev.a IN
    CASE ev.op = "remove" ->
           IF s.table = << >> THEN [err |-> "BiogemeError", st |-> s]
           ELSE [err |-> "", st |-> [s EXCEPT !.table = RemoveByPosition(s.table, s.cols, a.fm),
                                              !.excluded = Cardinality(Hit(s.table, s.cols, a.fm))]]
      [] ev.op = "add" ->
           IF s.table = << >> THEN [err |-> "BiogemeError", st |-> s]
           ELSE IF Has(s.cols, a.name) THEN [err |-> "ValueError", st |-> s]
           ELSE [err |-> "", st |-> [s EXCEPT !.table = AddRes(s.table, s.cols, a.fm), !.cols = Append(s.cols, a.name)]]
      [] ev.op = "scale" ->
           [err |-> "", st |-> [s EXCEPT !.table = ScaleRes(s.table, s.cols, a.col, a.num, a.den)]]
      [] ev.op = "panel" ->
           IF Contiguous(s.table, s.cols, a.col)
           THEN [err |-> "", st |-> [s EXCEPT !.table = PanelRes(s.table, s.cols, a.col), !.pcol = a.col,
                                              !.map = MapOf(PanelRes(s.table, s.cols, a.col), s.cols, a.col)]]
           ELSE [err |-> "BiogemeError", st |-> s]
      [] ev.op = "buildmap" ->
           IF s.pcol # ""
           THEN [err |-> "", st |-> [s EXCEPT !.table = PanelRes(s.table, s.cols, s.pcol),
                                              !.map = MapOf(PanelRes(s.table, s.cols, s.pcol), s.cols, s.pcol)]]
           ELSE [err |-> "", st |-> s]

Mutators == {"remove", "add", "scale", "panel", "buildmap"}
Known == Mutators \cup {"split", "sample", "sampleind", "extract", "flatten", "count", "sizes"}

\* arguments must make sense in the current state (else the trace itself is malformed)
ArgsOK(s, ev) ==
    LET a == ev.a IN
    CASE ev.op \in {"remove", "add"} -> WellFormed(a.fm, s.cols)
      [] ev.op = "scale" -> Has(s.cols, a.col) /\ a.den # 0
                            /\ \A i \in Pos(s.table) : (Cell(s.table[i], s.cols, a.col) * a.num) % a.den = 0
      [] ev.op = "panel" -> Has(s.cols, a.col)
      [] ev.op = "split" -> a.g = "" \/ Has(s.cols, a.g)
      [] ev.op = "count" -> Has(s.cols, a.col)
      [] OTHER -> TRUE

\* comparison of the logged state with the expected one, naming the first difference
StateVerdict(op, want, post, ignorePanelFlag) ==
    LET w == CS(want) IN
    IF post.rows # w.rows THEN
        IF Len(post.rows) # Len(w.rows) THEN op \o ":rows"
        ELSE IF \A i \in 1..Len(w.rows) : Len(post.rows[i]) = Len(w.rows[i]) /\ Tail(post.rows[i]) = Tail(w.rows[i])
             THEN op \o ":labels"
        ELSE IF (\A i \in 1..Len(w.rows) : Len(post.rows[i]) = Len(w.rows[i]) /\ Head(post.rows[i]) = Head(w.rows[i]))
                /\ BagEq([i \in 1..Len(w.rows) |-> Tail(post.rows[i])], [i \in 1..Len(w.rows) |-> Tail(w.rows[i])])
             THEN op \o ":row-order"
        ELSE op \o ":rows"
    ELSE IF post.cols # w.cols THEN op \o ":columns"
    ELSE IF post.excl # w.excl THEN op \o ":count"
    ELSE IF ~ignorePanelFlag /\ post.pcol # w.pcol THEN op \o ":panel-column"
    ELSE IF post.map # w.map THEN op \o ":map"
    ELSE "ok"

MutVerdict(s, ev) ==
    LET x == Exp(s, ev) IN
    IF ev.err # x.err THEN ev.op \o ":refusal"
    ELSE LET v == StateVerdict(ev.op, x.st, ev.post, ev.op = "panel" /\ x.err # "") IN
         IF v # "ok" THEN v
         ELSE IF ev.op = "add" /\ x.err = ""
                 /\ ev.ret # [i \in Pos(s.table) |-> <<s.table[i].lab, Ev(ev.a.fm, s.table[i], s.cols)>>]
              THEN "add:return"
         ELSE "ok"

SplitVerdict(s, ev) ==
    LET a == ev.a  g == EffGroup(s.pcol, a.g) IN
    IF ~SplitAccepted(a.k, a.g, s.pcol) THEN (IF ev.err = "BiogemeError" THEN "ok" ELSE "split:refusal")
    ELSE IF ev.err # "" THEN "split:refusal"
    ELSE LET fs == TFolds(ev.ret) IN
         IF Len(fs) # a.k THEN "split:number-of-folds"
         ELSE IF ~BagEq(Flat([f \in 1..Len(fs) |-> fs[f].val]), s.table) THEN "split:validation-parts-not-a-partition"
         ELSE IF \E f \in 1..Len(fs) : ~BagEq(fs[f].est \o fs[f].val, s.table) THEN "split:estimation-not-complement"
         ELSE IF ~GroupsIntact(s.cols, g, fs) THEN "split:group-separated"
         ELSE "ok"

SampleVerdict(s, ev) ==
    IF ev.err # "" THEN "sample:refusal"
    ELSE LET rows == TRows(ev.ret) IN
         IF Len(rows) # SizeOf(ev.a.nn, Len(s.table)) THEN "sample:size"
         ELSE IF ~SampleOK(s.table, ev.a.nn, rows) THEN "sample:foreign-row"
         ELSE "ok"

IndSampleVerdict(s, ev) ==
    IF s.pcol = "" THEN (IF ev.err = "BiogemeError" THEN "ok" ELSE "sampleind:refusal")
    ELSE IF ev.err # "" THEN "sampleind:refusal"
    ELSE LET ents == TMap(ev.ret) IN
         IF Len(ents) # SizeOf(ev.a.nn, Len(s.map)) THEN "sampleind:size"
         ELSE IF ~IndSampleOK(s.map, ev.a.nn, ents) THEN "sampleind:foreign-individual"
         ELSE "ok"

ExtractVerdict(s, ev) ==
    LET ps == ev.a.ps IN
    IF ~ExtractOK(s.table, ps)
    THEN (IF ev.err = (IF ps = << >> THEN "BiogemeError" ELSE "IndexError") THEN "ok" ELSE "extract:refusal")
    ELSE IF ev.err # "" THEN "extract:refusal"
    ELSE IF ev.ret # CRows(ExtractRes(s.table, ps)) THEN "extract:rows"
    ELSE "ok"

FlattenVerdict(s, ev) ==
    IF s.pcol = "" THEN (IF ev.err = "BiogemeError" THEN "ok" ELSE "flatten:refusal")
    ELSE IF ev.err # "" THEN "flatten:refusal"
    ELSE \* the flat table is a mapping individual -> line: the order of the lines is not compared
         LET want == FlattenRes(s.table, s.cols, s.pcol, ev.a.kind)
             Line(id) == ev.ret[CHOOSE k \in 1..Len(ev.ret) : ev.ret[k].id = id]
         IN
         IF Len(ev.ret) # Len(want) \/ {ev.ret[k].id : k \in 1..Len(ev.ret)} # {want[k].id : k \in 1..Len(want)}
         THEN "flatten:individuals"
         ELSE IF \E k \in 1..Len(want) : Line(want[k].id).common # want[k].common THEN "flatten:common-columns"
         ELSE IF \E k \in 1..Len(want) : Line(want[k].id).obs # want[k].obs THEN "flatten:observations"
         ELSE "ok"

ObsVerdict(s, ev) ==
    LET v == CASE ev.op = "split"     -> SplitVerdict(s, ev)
               [] ev.op = "sample"    -> SampleVerdict(s, ev)
               [] ev.op = "sampleind" -> IndSampleVerdict(s, ev)
               [] ev.op = "extract"   -> ExtractVerdict(s, ev)
               [] ev.op = "flatten"   -> FlattenVerdict(s, ev)
               [] ev.op = "count"     -> IF ev.err # "" THEN "count:refusal"
                                         ELSE IF ev.ret # CountRes(s.table, s.cols, ev.a.col, ev.a.v) THEN "count:value"
                                         ELSE "ok"
               [] ev.op = "sizes"     -> IF ev.err # "" THEN "sizes:refusal"
                                         ELSE IF ev.ret # Sizes(s.table, s.pcol, s.map) THEN "sizes:value"
                                         ELSE "ok"
    IN  IF v # "ok" THEN v
        ELSE IF ev.post # CS(s) THEN ev.op \o ":data-changed"
        ELSE "ok"

EvVerdict(s, ev) ==
    IF ev.op \notin Known THEN "unknown-operation"
    ELSE IF ~ArgsOK(s, ev) THEN "malformed-arguments"
    ELSE IF ev.op \in Mutators THEN MutVerdict(s, ev)
    ELSE ObsVerdict(s, ev)

InitOf(tr) == St(TRows(tr.init.rows), tr.init.cols, tr.init.excl, tr.init.pcol, TMap(tr.init.map))

Load(s) == /\ table' = s.table /\ cols' = s.cols /\ excluded' = s.excluded /\ pcol' = s.pcol /\ map' = s.map

TInit ==
    /\ t = 1 /\ l = 0 /\ bad = "ok" /\ badstep = 0
    /\ IF NT >= 1
       THEN LET s == InitOf(Trace[1]) IN
            table = s.table /\ cols = s.cols /\ excluded = s.excluded /\ pcol = s.pcol /\ map = s.map
       ELSE table = << >> /\ cols = << >> /\ excluded = 0 /\ pcol = "" /\ map = << >>
    /\ tid = 0 /\ prev = 0 /\ last = 0 /\ res = 0 /\ n = 0 /\ seq = 0 /\ hist = << >> /\ done = FALSE

Consume ==
    /\ t <= NT /\ l < Len(Trace[t].events)
    /\ LET ev == Trace[t].events[l + 1]
           v  == IF bad # "ok" THEN bad ELSE EvVerdict(Cur, ev)
       IN  /\ bad' = v
           /\ badstep' = IF bad = "ok" /\ v # "ok" THEN l + 1 ELSE badstep
           /\ IF bad = "ok" /\ v = "ok" /\ ev.op \in Mutators
              THEN Load(Exp(Cur, ev).st)
              ELSE UNCHANGED <<table, cols, excluded, pcol, map>>
    /\ l' = l + 1
    /\ UNCHANGED <<t>>
    /\ UNCHANGED rest

Close ==
    /\ t <= NT /\ l = Len(Trace[t].events)
    /\ PrintT(ToJson([tid |-> Trace[t].tid, verdict |-> bad, step |-> badstep, events |-> l]))
    /\ t' = t + 1 /\ l' = 0 /\ bad' = "ok" /\ badstep' = 0
    /\ IF t + 1 <= NT THEN Load(InitOf(Trace[t + 1])) ELSE UNCHANGED <<table, cols, excluded, pcol, map>>
    /\ UNCHANGED rest

TNext == Consume \/ Close
TraceSpec == TInit /\ [][TNext]_<<tvars, rest>>

Progress == t \in 1..(NT + 1) /\ (t <= NT => l \in 0..Len(Trace[t].events))
=============================================================================
