------------------------------ MODULE Estimation ------------------------------
(***************************************************************************)
(* Estimation (property C07): the protocol between the estimation object,  *)
(* the minimised function and the optimiser, and what must come out.       *)
(*                                                                         *)
(* Part 1 -- the problem and its solution.  A concave separable model      *)
(*     LL(x) = - sum_p A[p] * sum_r S[r] * (x_p - C[p][r])^2               *)
(* with bounds [lo_p, hi_p] (either may be absent) and some parameters     *)
(* fixed.  The unique maximiser is x*_p = clip(S-weighted mean of C[p][.]) *)
(* for free p (fixed ones keep their value); the spec computes LL, gradient *)
(* Hessian and BHHH at any rational point exactly, and the KKT conditions  *)
(* (gradient zero in every direction not blocked by an active bound).      *)
(* A behaviour chooses bounds, start, fixed pattern and algorithm; Emit    *)
(* prints the expected outcome.                                            *)
(*                                                                         *)
(* Part 2 -- the dialogue (used by EstimationTrace): phases                *)
(*   new -> init (initial likelihood at the start) -> optimizing           *)
(*   (requests f / f+g / f+g+h at points, each answered by the NEGATED     *)
(*   likelihood outputs of the SAME point) -> returned (xstar, convergence)*)
(*   -> final (likelihood + derivatives at xstar) -> packaged (results  *)
(*   hold the final evaluation) -> writtenback (start values := estimates).     *)
(***************************************************************************)
EXTENDS Integers, Sequences, FiniteSets, TLC, Json, Term

CONSTANTS NP, NR,       \* number of parameters, of rows
          A, C,         \* weights A[p] (positive integers), centers C[p][r] (integers)
          S,            \* S[r]: positive integer scale of row r (a data column): the Hessian depends on the data
          BoundCfgs,    \* set of sequences (per parameter) of [lo |-> [set, v], hi |-> [set, v]] (v rational)
          Starts,       \* set of sequences (per parameter) of rationals (inside the bounds)
          FixedPats,    \* set of sequences of BOOLEAN (TRUE = fixed)
          Algos         \* set of algorithm names

VARIABLES bd, start, fixed, algo, done
vars == <<bd, start, fixed, algo, done>>

P == 1..NP
Rw == 1..NR
RECURSIVE SumQ(_, _)
SumQ(f, k) == IF k = 0 THEN Zero ELSE QAdd(f[k], SumQ(f, k - 1))
Mean(p) == QDiv(SumQ([r \in Rw |-> I(S[r] * C[p][r])], NR), SumQ([r \in Rw |-> I(S[r])], NR))      \* weighted mean
Clip(v, b) == IF b.lo.set /\ QLess(v, b.lo.v) THEN b.lo.v
              ELSE IF b.hi.set /\ QLess(b.hi.v, v) THEN b.hi.v ELSE v
Sq(q) == QMul(q, q)

LLAt(x) == QNeg(SumQ([p \in P |-> QMul(I(A[p]), SumQ([r \in Rw |-> QMul(I(S[r]), Sq(QSub(x[p], I(C[p][r]))))], NR))], NP))
GRow(x, r) == [p \in P |-> QMul(I(-2 * A[p] * S[r]), QSub(x[p], I(C[p][r])))]        \* gradient of row r
GAt(x) == [p \in P |-> SumQ([r \in Rw |-> GRow(x, r)[p]], NR)]
SumS == LET RECURSIVE T(_)
            T(r) == IF r = 0 THEN 0 ELSE S[r] + T(r - 1)
        IN  T(NR)
HAt == [p \in P |-> [q \in P |-> IF p = q THEN I(-2 * A[p] * SumS) ELSE Zero]]
BHHHAt(x) == [p \in P |-> [q \in P |-> SumQ([r \in Rw |-> QMul(GRow(x, r)[p], GRow(x, r)[q])], NR)]]

\* An algorithm that does not handle bounds solves the problem WITHOUT the declared bounds (the library warns and goes
\* on): the bounds in force are none.
BoundSupporting == {"scipy", "simple_bounds", "simple_bounds_newton", "simple_bounds_BFGS", "automatic"}
NoBound == [set |-> FALSE, v |-> Zero]
Eff(p) == IF algo \in BoundSupporting THEN bd[p] ELSE [lo |-> NoBound, hi |-> NoBound]
XStar == [p \in P |-> IF fixed[p] THEN start[p] ELSE Clip(Mean(p), Eff(p))]
Free == {p \in P : ~fixed[p]}
AtLower(x, p) == Eff(p).lo.set /\ QEq(x[p], Eff(p).lo.v)
AtUpper(x, p) == Eff(p).hi.set /\ QEq(x[p], Eff(p).hi.v)
Feasible(x) == \A p \in Free : (Eff(p).lo.set => QLeq(Eff(p).lo.v, x[p])) /\ (Eff(p).hi.set => QLeq(x[p], Eff(p).hi.v))
\* KKT for a maximum: the gradient vanishes unless a bound blocks the ascent direction
KKT(x) == \A p \in Free :
            LET g == GAt(x)[p] IN
            \/ IsZero(g)
            \/ (g.n > 0 /\ AtUpper(x, p))
            \/ (g.n < 0 /\ AtLower(x, p))

Init == /\ bd \in BoundCfgs /\ start \in Starts /\ fixed \in FixedPats /\ algo \in Algos
        /\ Feasible(start) /\ Free # {}
        /\ done = FALSE
Emit == ~done /\ done' = TRUE /\ UNCHANGED <<bd, start, fixed, algo>>
Next == Emit
Spec == Init /\ [][Next]_vars

\* the closed form is the constrained maximum: feasible, KKT, and not below the start
OptimumSound == /\ Feasible(XStar) /\ KKT(XStar)
                /\ QLeq(LLAt(start), LLAt(XStar))
\* any other feasible point obtained by moving one free coordinate by +-1/2 is not better
LocallyBest == \A p \in Free : \A s \in {Q(1, 2), Q(-1, 2)} :
                 LET y == [XStar EXCEPT ![p] = QAdd(@, s)] IN Feasible(y) => QLeq(LLAt(y), LLAt(XStar))

Cq(q) == <<q.n, q.d>>
Emitted == [bounds |-> [p \in P |-> [lo |-> [set |-> bd[p].lo.set, v |-> Cq(bd[p].lo.v)], hi |-> [set |-> bd[p].hi.set, v |-> Cq(bd[p].hi.v)]]],
            start |-> [p \in P |-> Cq(start[p])], fixed |-> fixed, algo |-> algo,
            xstar |-> [p \in P |-> Cq(XStar[p])],
            ll_start |-> Cq(LLAt(start)), ll_star |-> Cq(LLAt(XStar)),
            g_star |-> [p \in P |-> Cq(GAt(XStar)[p])],
            h_star |-> [p \in P |-> [q \in P |-> Cq(HAt[p][q])]],
            bhhh_star |-> [p \in P |-> [q \in P |-> Cq(BHHHAt(XStar)[p][q])]],
            active |-> [p \in P |-> ~fixed[p] /\ ~IsZero(GAt(XStar)[p])],
            supports_bounds |-> algo \in BoundSupporting]
EmitInv == done => PrintT(ToJson(Emitted))
=============================================================================
