----------------------------- MODULE MdcevTrace -----------------------------
(***************************************************************************)
(* Trace validation for the MDCEV forecasts (code -> spec).                *)
(*                                                                         *)
(* One trace = what the real code did for ONE forecast (one model, one     *)
(* observation, one error draw, one labelling of the goods):               *)
(*   tries   the calls of is_next_alternative_chosen in order              *)
(*           (label of the candidate, accepted or not),                    *)
(*   chosen  the labels returned by identification_chosen_alternatives,    *)
(*   x       the forecast expenditures,                                    *)
(* together with what the SPECIFICATION's formulas (Mdcev!DUTerm, UTerm,   *)
(* interpreted by the driver) give at that point:                          *)
(*   mu      marginal utility of every good at its forecast expenditure,   *)
(*   mu0     marginal utility at zero (inside goods),                      *)
(*   objF    the objective sum U_k(x_k) at the forecast,                   *)
(*   objB    the objective at the brute-force optimiser's point (hasB).    *)
(* All numbers are fixed-point integers (unit 10^-6).                      *)
(*                                                                         *)
(* The trace is consumed step by step with the actions of the design       *)
(* module: every "try" event must be a TryNext step of an Order of the     *)
(* goods by decreasing marginal utility at zero (Mdcev!OrderedBy), the     *)
(* procedure stops at the first refusal, and the final "solve" must leave  *)
(* a point that satisfies the Kuhn-Tucker predicates Mdcev!KktVerdict,     *)
(* is supported by the chosen set and is at least as good as the           *)
(* brute-force point.  A verdict (first failing clause, or "ok") is        *)
(* printed for every trace.                                                *)
(***************************************************************************)
EXTENDS Mdcev, IOUtils

CONSTANTS TolUnits,   \* absolute tolerance, in units of 10^-6
          RelDen      \* relative tolerance 1 / RelDen

Trace == JsonDeserialize(IOEnv.TRACE_FILE)
NT == Len(Trace)

VARIABLES t, l, acc, bad
tvars == <<t, l, acc, bad, stage, inst, order, chosen, next, sol>>

IMax(a, b) == IF a >= b THEN a ELSE b
Tol(a, b)  == TolUnits + IMax(Abs(a), Abs(b)) \div RelDen
Same(a, b)     == Abs(a - b) <= Tol(a, b)
NotAbove(a, b) == a <= b + Tol(a, b)
NotBelow(a, b) == b <= a + Tol(a, b)

RECURSIVE ISum(_)
ISum(s) == IF s = << >> THEN 0 ELSE Head(s) + ISum(Tail(s))

Idx(tr, lab) == CHOOSE i \in 1..tr.n : tr.labs[i] = lab
HasLab(tr, lab) == \E i \in 1..tr.n : tr.labs[i] = lab
InsideOf(tr) == (1..tr.n) \ {tr.out}
TriedBefore(tr, q) == {Idx(tr, tr.tries[p].lab) : p \in 1..(q - 1)}

\* verdict on the q-th try of trace tr (which good, and that nothing is tried after a refusal)
TryVerdict(tr, q) ==
    LET ev == tr.tries[q] IN
    IF ~HasLab(tr, ev.lab) THEN "TryUnknownGood"
    ELSE IF Idx(tr, ev.lab) \notin (InsideOf(tr) \ TriedBefore(tr, q)) THEN "TryOutsideOrRepeated"
    ELSE IF \E p \in 1..(q - 1) : ~tr.tries[p].acc THEN "TryAfterRefusal"
    ELSE "ok"

\* the goods were tried along an Order (Mdcev!OrderedBy) of the inside goods by decreasing marginal
\* utility at zero: the tried sequence is ordered and no untried good ranks before a tried one
TriedSeq(tr) == [p \in 1..Len(tr.tries) |-> Idx(tr, tr.tries[p].lab)]
OrderOK(tr) ==
    LET o == TriedSeq(tr)
        mu0(i) == tr.mu0[i]
        rest == InsideOf(tr) \ {o[p] : p \in 1..Len(o)}
    IN /\ OrderedBy(o, mu0, NotBelow)
       /\ \A p \in 1..Len(o) : \A j \in rest : NotBelow(mu0(o[p]), mu0(j))

TInit == /\ t = 1 /\ l = 0 /\ acc = {} /\ bad = "ok"
         /\ stage = "trace" /\ inst = 0 /\ order = << >> /\ chosen = {} /\ next = 1 /\ sol = << >>

Try == /\ t <= NT /\ l < Len(Trace[t].tries)
       /\ l' = l + 1
       /\ bad' = IF bad # "ok" THEN bad ELSE TryVerdict(Trace[t], l + 1)
       /\ acc' = IF Trace[t].tries[l + 1].acc /\ HasLab(Trace[t], Trace[t].tries[l + 1].lab)
                 THEN acc \cup {Idx(Trace[t], Trace[t].tries[l + 1].lab)} ELSE acc
       /\ UNCHANGED <<t, stage, inst, order, chosen, next, sol>>

SolveVerdict(tr) ==
    LET N == 1..tr.n
        ins == InsideOf(tr)
        nt == Len(tr.tries)
        want == acc \cup (IF tr.out = 0 THEN {} ELSE {tr.out})
        pos(i) == tr.x[i] > 0
        mu(i) == tr.mu[i]
        mu0(i) == tr.mu0[i]
        kkt == KktVerdict(N, pos, mu, mu0, tr.out,
                          \E i \in N : tr.x[i] < 0,
                          Abs(ISum(tr.x) - tr.B) <= TolUnits + tr.n,
                          Same, NotAbove)
    IN
    IF bad # "ok" THEN bad
    ELSE IF Len(tr.x) # tr.n \/ Len(tr.mu) # tr.n \/ Len(tr.mu0) # tr.n THEN "Shape"
    \* the procedure ends at the first refusal or when every inside good has been tried
    ELSE IF ~(nt > 0 /\ (~tr.tries[nt].acc \/ TriedBefore(tr, nt + 1) = ins)) THEN "Incomplete"
    ELSE IF ~OrderOK(tr) THEN "Order"
    ELSE IF {Idx(tr, tr.chosen[p]) : p \in 1..Len(tr.chosen)} # want THEN "ChosenSet"
    ELSE IF \E i \in N : pos(i) /\ i \notin want THEN "Support"
    ELSE IF kkt # "ok" THEN kkt
    ELSE IF tr.hasB /\ tr.objF + Tol(tr.objF, tr.objB) + TolUnits < tr.objB THEN "BeatsBrute"
    ELSE "ok"

Finish == /\ t <= NT /\ l = Len(Trace[t].tries)
          /\ PrintT(ToJson([tid |-> Trace[t].tid, verdict |-> SolveVerdict(Trace[t])]))
          /\ t' = t + 1 /\ l' = 0 /\ acc' = {} /\ bad' = "ok"
          /\ UNCHANGED <<stage, inst, order, chosen, next, sol>>

TNext == Try \/ Finish
TraceSpec == TInit /\ [][TNext]_tvars

\* every event consumed in order; the walk is linear
Progress == t \in 1..(NT + 1) /\ (t <= NT => l \in 0..Len(Trace[t].tries))
=============================================================================
