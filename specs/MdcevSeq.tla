------------------------------ MODULE MdcevSeq ------------------------------
(***************************************************************************)
(* ONE model object, SEVERAL data sets in sequence.                        *)
(*                                                                         *)
(* A model object (utility profile, goods with their gamma / price / alpha,*)
(* outside good, scale; module Mdcev) is used to forecast on a first data  *)
(* set A (the base scenario), then on a second data set B with the same    *)
(* columns and other values (the policy scenario), then on A again.  A     *)
(* data set is a sequence of ROWS; a row gives every good the data of its  *)
(* observation (baseline utility, error draw, mu utility) and carries a    *)
(* ROW LABEL (the index of the data frame: 0..n-1 by default, an offset    *)
(* range, the same labels in both data sets, the same labels attached to   *)
(* other rows, labels that occur twice).                                   *)
(*                                                                         *)
(* The observable after each step is, row by row, the solution of the      *)
(* consumer problem for THE DATA OF THAT STEP: the forecast is a function   *)
(* of (model, row data, budget) only.  Nothing computed for an earlier     *)
(* data set takes part, whatever the rows are called.                      *)
(*                                                                         *)
(* The step "forecast one row" is the forecasting procedure of the design  *)
(* module, literally: Load puts the data of the row into the instance      *)
(* (inst.ds; the model part inst.ts is never touched), the actions Order / *)
(* TryNext / Solve of Mdcev run, Record appends the point reached to the   *)
(* history together with the verdict of the Kuhn-Tucker predicates         *)
(* (Mdcev!KktExact) on the data that are loaded.  All model invariants of  *)
(* Mdcev (SolvedIsKkt, KktUnique, ...) keep being checked on every row of  *)
(* every step.                                                             *)
(*                                                                         *)
(* Mutation = "reuse-by-row-label" (negative control) describes a model    *)
(* object that remembers the result it computed for a row label and        *)
(* returns it when a row of that label comes again: SeqForecastIsOptimum   *)
(* fails as soon as the second data set re-uses a label of the first.      *)
(***************************************************************************)
EXTENDS Mdcev

CONSTANTS
    Scenarios,    \* sequence of [a, b, la, lb]: a, b = the rows of data sets A and B, each row a pair <<p, q>>
                  \* (good i sees the data of type ts[i] + p + q i, cyclically; <<0, 0>> = the data the model was
                  \* generated with); la, lb = the row labels of A and B
    SeqThin,      \* one instance out of SeqThin is turned into a history (all are explored by Mode "exact")
    SeqSalt       \* which ones (from the seed)

VARIABLES scen, step, row, hist, memo
svars == <<scen, step, row, hist, memo>>
allvars == <<stage, inst, order, chosen, next, sol, scen, step, row, hist, memo>>

Plan == <<"a", "b", "a">>                 \* base, policy, base again
RowsOf(s)   == IF Plan[s] = "a" THEN scen.a ELSE scen.b
LabelsOf(s) == IF Plan[s] = "a" THEN scen.la ELSE scen.lb
NTypes == Len(Types[inst.v])
DataOf(d) == [i \in 1..NG |-> ((inst.ts[i] - 1 + d[1] + d[2] * i) % NTypes) + 1]

RECURSIVE SumNat(_)
SumNat(s) == IF s = << >> THEN 0 ELSE Head(s) + SumNat(Tail(s))
\* a small number that depends on every choice of the generator; it selects the instances that are turned into a history
\* and the scenario each of them gets (at most one: the offsets 17 j are distinct modulo SeqThin * Len(Scenarios))
SeqHash == SumNat([i \in 1..NG |-> inst.ts[i] * (13 * i * i + 10)]) + 29 * inst.out + (IF inst.up THEN 53 ELSE 0)
           + 31 * Abs(inst.sc.n) + 19 * inst.sc.d + 43 * Abs(inst.m.n) + 37 * inst.m.d + 47 * inst.B.n + 59 * inst.B.d
           + 61 * NG + SeqSalt
Selected(j) == (SeqHash + 17 * j) % (SeqThin * Len(Scenarios)) = 0
NoScenario == [a |-> << >>, b |-> << >>, la |-> << >>, lb |-> << >>]

SeqInit == Init /\ scen = NoScenario /\ step = 0 /\ row = 0 /\ hist = << >> /\ memo = {}

ChooseScenario ==
    /\ stage = "plan"
    /\ \A i \in Goods : ExactGood(i)
    /\ \E j \in {k \in 1..Len(Scenarios) : Selected(k)} : scen' = Scenarios[j]
    /\ step' = 1 /\ row' = 0 /\ hist' = << >> /\ memo' = {}
    /\ stage' = "idle"
    /\ UNCHANGED <<inst, order, chosen, next, sol>>

\* the next row of the current data set is handed to the model
Load ==
    /\ stage = "idle" /\ step \in 1..Len(Plan) /\ row < Len(RowsOf(step))
    /\ row' = row + 1
    /\ inst' = [inst EXCEPT !.ds = DataOf(RowsOf(step)[row + 1])]
    /\ \E hits \in {{e \in memo : e.lab = LabelsOf(step)[row + 1]}} :
          IF Mutation = "reuse-by-row-label" /\ hits # {}
          THEN sol' = (CHOOSE e \in hits : TRUE).x /\ stage' = "reused"
          ELSE sol' = << >> /\ stage' = "order"
    /\ order' = << >> /\ chosen' = {} /\ next' = 1
    /\ UNCHANGED <<scen, step, hist, memo>>

\* ... Mdcev!Order, Mdcev!TryNext, Mdcev!Solve run on the loaded row ...

\* the forecast of the row becomes part of the observable of the step
Record ==
    /\ stage \in {"solved", "reused"}
    /\ hist' = Append(hist, [step |-> step, row |-> row, lab |-> LabelsOf(step)[row], ds |-> inst.ds, x |-> sol,
                              kkt |-> KktExact(sol),
                              goods |-> IF step <= 2 THEN [i \in 1..NG |-> GoodRec(i)] ELSE << >>])
    /\ memo' = IF Mutation = "reuse-by-row-label" /\ {e \in memo : e.lab = LabelsOf(step)[row]} = {}
               THEN memo \cup {[lab |-> LabelsOf(step)[row], x |-> sol]} ELSE memo
    /\ stage' = "idle"
    /\ order' = << >> /\ chosen' = {} /\ next' = 1 /\ sol' = << >>
    /\ UNCHANGED <<inst, scen, step, row>>

NextDataSet ==
    /\ stage = "idle" /\ step \in 1..(Len(Plan) - 1) /\ row = Len(RowsOf(step))
    /\ step' = step + 1 /\ row' = 0
    /\ UNCHANGED <<stage, inst, order, chosen, next, sol, scen, hist, memo>>

Finish ==
    /\ stage = "idle" /\ step = Len(Plan) /\ row = Len(RowsOf(step))
    /\ stage' = "seqdone"
    /\ UNCHANGED <<inst, order, chosen, next, sol, scen, step, row, hist, memo>>

SeqNext == \/ (Next /\ UNCHANGED svars)
           \/ ChooseScenario \/ Load \/ Record \/ NextDataSet \/ Finish
SeqSpec == SeqInit /\ [][SeqNext]_allvars

(***************************************************************************)
(* Properties.                                                             *)
(***************************************************************************)
Entries == 1..Len(hist)
\* every forecast of the history solves the consumer problem of the data of ITS step and row
SeqForecastIsOptimum == \A e \in Entries : hist[e].kkt = "ok"
\* while a row is being forecast the instance holds the data of that row of the current data set, and the model part
\* is the one the object was built with
SeqOnCurrentData ==
    (stage \in {"order", "trying", "solving", "solved", "reused"}) =>
        /\ step \in 1..Len(Plan) /\ row \in 1..Len(RowsOf(step))
        /\ inst.ds = DataOf(RowsOf(step)[row])
\* what was recorded for (step, row) was computed from the data and carries the label of (step, row)
SeqRecordedData ==
    \A e \in Entries :
        /\ hist[e].ds = DataOf(RowsOf(hist[e].step)[hist[e].row])
        /\ hist[e].lab = LabelsOf(hist[e].step)[hist[e].row]
\* the forecast depends on the data only: equal rows, equal forecasts (the third step reproduces the first) ...
SeqSameDataSameForecast == \A e, f \in Entries : hist[e].ds = hist[f].ds => hist[e].x = hist[f].x
\* ... in particular the third step (data set A again) reproduces the first
SeqBaseReproduced ==
    \A e, f \in Entries : (hist[e].step = 1 /\ hist[f].step = 3 /\ hist[e].row = hist[f].row) => hist[e].x = hist[f].x
\* the history lists the rows of the steps in order, each once
SeqHistoryShape ==
    /\ \A e, f \in Entries : e < f => \/ hist[e].step < hist[f].step
                                      \/ hist[e].step = hist[f].step /\ hist[e].row < hist[f].row
    /\ stage = "seqdone" => Len(hist) = SumNat([s \in 1..Len(Plan) |-> Len(RowsOf(s))])
\* scenarios are well formed: as many labels as rows
SeqScenarioOK == Len(scen.a) = Len(scen.la) /\ Len(scen.b) = Len(scen.lb)

SeqEmitInv == stage = "seqdone" =>
    PrintT(ToJson([c |-> Common, seq |-> scen, plan |-> Plan, hist |-> hist]))
=============================================================================
