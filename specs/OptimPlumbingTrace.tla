------------------------- MODULE OptimPlumbingTrace -------------------------
(***************************************************************************)
(* Trace validation (code -> spec) of part 1 of OptimPlumbing: the calls a *)
(* REAL optimisation algorithm makes on the minimised function.  The       *)
(* driver (extra/optim.py) records, for every algorithm of the table and   *)
(* several bound configurations, one event per public call of the function *)
(* object; arrays are interned by their bytes (x ids), returned function   *)
(* values by their bits (v ids).                                           *)
(*                                                                         *)
(* Events:  set(x)                                                         *)
(*          f | fg | fgh (x = key in force, called = which callback ran    *)
(*              during the call: none / like / deriv / hess / several,     *)
(*              v, neg = the answer is bit for bit minus the callback's    *)
(*              output, hess = a Hessian came back)                        *)
(*          end(nf, ng, nh = the object's counters, rf, rg, rh = what the  *)
(*              algorithm reported in its messages, -1 if absent)          *)
(*                                                                         *)
(* Checked at every step with the caching rule of OptimPlumbing (Hit,      *)
(* Fills, Callback): a call is answered from the store exactly when its    *)
(* key is stored at that level, otherwise exactly the callback of that     *)
(* level runs once; a stored answer never changes; the sign is flipped;    *)
(* P3 (fg served from the fgh store carries the Hessian); at the end the   *)
(* counters are the sizes of the stores (P4) and, for the algorithms that  *)
(* report them, the reported numbers are those counters.                   *)
(***************************************************************************)
EXTENDS OptimPlumbing, IOUtils

Trace == JsonDeserialize(IOEnv.TRACE_FILE)
NT == Len(Trace)

VARIABLES t, l, bad, key, kf, kg, kh, vf, ended
tvars == <<t, l, bad, key, kf, kg, kh, vf, ended>>

E == Trace[t].events[l + 1]
More == t <= NT /\ l < Len(Trace[t].events)
IsCall == E.op \in {"f", "fg", "fgh"}
WasHit == Hit(E.op, key, kf, kg, kh)

Verdict ==
    CASE E.op = "set" -> IF ended THEN "call-after-end" ELSE "ok"
      [] IsCall ->
           IF key = 0 THEN "call-before-set"
           ELSE IF E.x # key THEN "answer-for-another-key"
           ELSE IF WasHit /\ E.called # "none" THEN "evaluation-repeated"
           ELSE IF ~WasHit /\ E.called # Callback(E.op) THEN "wrong-callback:" \o E.called
           ELSE IF WasHit /\ vf[key] # E.v THEN "stored-value-changed"
           ELSE IF ~WasHit /\ ~E.neg THEN "sign-not-flipped"
           ELSE IF E.op = "f" /\ E.hess THEN "hessian-from-f"
           ELSE IF E.op = "fgh" /\ ~E.hess THEN "no-hessian-from-fgh"
           ELSE IF E.op = "fg" /\ E.hess # (WasHit /\ key \in kh) THEN "P3:hessian-of-fg"
           ELSE "ok"
      [] E.op = "end" ->
           IF E.nf # Cardinality(kf) \/ E.ng # Cardinality(kg) \/ E.nh # Cardinality(kh) THEN "P4:counters-are-not-the-stores"
           ELSE IF ~(kh \subseteq kg /\ kg \subseteq kf) THEN "levels-not-nested"
           ELSE IF E.rf >= 0 /\ E.rf # E.nf THEN "reported-function-evaluations"
           ELSE IF E.rg >= 0 /\ E.rg # E.ng THEN "reported-gradient-evaluations"
           ELSE IF E.rh >= 0 /\ E.rh # E.nh THEN "reported-hessian-evaluations"
           ELSE "ok"
      [] OTHER -> "unknown-event"

Step == /\ More /\ bad = "ok"
        /\ bad' = (IF Verdict = "ok" THEN "ok" ELSE Verdict \o "@" \o ToString(l + 1))
        /\ key' = IF E.op = "set" THEN E.x ELSE key
        /\ kf' = IF IsCall /\ key # 0 /\ ~WasHit THEN kf \cup {key} ELSE kf
        /\ kg' = IF IsCall /\ key # 0 /\ ~WasHit /\ "g" \in Fills(E.op) THEN kg \cup {key} ELSE kg
        /\ kh' = IF IsCall /\ key # 0 /\ ~WasHit /\ "h" \in Fills(E.op) THEN kh \cup {key} ELSE kh
        /\ vf' = IF IsCall /\ key # 0 /\ ~WasHit THEN (key :> E.v) @@ vf ELSE vf
        /\ ended' = (ended \/ E.op = "end")
        /\ l' = l + 1 /\ t' = t
        /\ UNCHANGED vars

TFinish == /\ t <= NT /\ (l = Len(Trace[t].events) \/ bad # "ok")
           /\ PrintT(ToJson([tid |-> Trace[t].tid,
                             verdict |-> IF bad # "ok" THEN bad ELSE IF ~ended THEN "incomplete" ELSE "ok"]))
           /\ t' = t + 1 /\ l' = 0 /\ bad' = "ok" /\ key' = 0 /\ kf' = {} /\ kg' = {} /\ kh' = {}
           /\ vf' = EmptyF /\ ended' = FALSE
           /\ UNCHANGED vars

TInit == /\ t = 1 /\ l = 0 /\ bad = "ok" /\ key = 0 /\ kf = {} /\ kg = {} /\ kh = {} /\ vf = EmptyF /\ ended = FALSE
         /\ s = S0 /\ hist = << >> /\ nsteps = 0 /\ done = FALSE /\ tab = [kind |-> "calls", z |-> 0]
TNext == Step \/ TFinish
TraceSpec == TInit /\ [][TNext]_<<tvars, vars>>
Progress == t \in 1..(NT + 1)
=============================================================================
