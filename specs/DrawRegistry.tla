--------------------------- MODULE DrawRegistry ---------------------------
(***************************************************************************)
(* Histories on ONE data set (property C10: "the series being exactly what *)
(* the generator registered for the variable's declared type produced").   *)
(*                                                                         *)
(* A data set holds a registry type -> generator.  Register replaces the   *)
(* generator of a type; Evaluate computes MonteCarlo(z * x) with z a draw  *)
(* variable of some type, R draws: per observation the mean of the series  *)
(* the CURRENTLY registered generator produces.  The specification keeps   *)
(* no table between evaluations: an evaluation never depends on an earlier *)
(* one (an implementation that keeps the table must not let it outlive a   *)
(* change of the registry, of R or of the number of observations).         *)
(*                                                                         *)
(* Generator with code c returns for observation u (0-based), draw r       *)
(* (0-based):  c + ((2u + r) mod 5).  A generator may also hand back its   *)
(* table in the WRONG layout (draws x observations): the library must      *)
(* refuse it -- unless both dimensions are equal, where the layouts cannot *)
(* be told apart and the table is read as it is.                           *)
(***************************************************************************)
EXTENDS Integers, Sequences, FiniteSets, TLC, Json

CONSTANTS Types, Codes, Layouts, Rs, XVals, MaxSteps

VARIABLES reg, hist, done
vars == <<reg, hist, done>>

N == Len(XVals)
Gen(c, u, r) == c + ((2 * u + r) % 5)
RECURSIVE SumTo(_, _, _)
SumTo(c, u, r) == IF r = 0 THEN 0 ELSE Gen(c, u, r - 1) + SumTo(c, u, r - 1)
\* R times the value for observation u (1-based): sum over the draws of z * x
Value(c, u, R) == SumTo(c, u - 1, R) * XVals[u]
\* the same when a square table is handed back transposed: entry [u][r] holds what was meant for [r][u]
RECURSIVE SumToT(_, _, _)
SumToT(c, u, r) == IF r = 0 THEN 0 ELSE Gen(c, r - 1, u) + SumToT(c, u, r - 1)
ValueT(c, u, R) == SumToT(c, u - 1, R) * XVals[u]

Init == reg \in [Types -> [code : Codes, lay : {"rows"}]] /\ hist = << >> /\ done = FALSE
Going == ~done /\ Len(hist) < MaxSteps
Register(t, c, lay) == /\ Going /\ reg[t] # [code |-> c, lay |-> lay]
                  /\ reg' = [reg EXCEPT ![t] = [code |-> c, lay |-> lay]]
                  /\ hist' = Append(hist, [op |-> "register", type |-> t, code |-> c, lay |-> lay, R |-> 0, refused |-> FALSE, want |-> << >>])
                  /\ UNCHANGED done
Evaluate(t, R) == /\ Going
                  /\ hist' = Append(hist, [op |-> "evaluate", type |-> t, code |-> reg[t].code, lay |-> reg[t].lay, R |-> R,
                                           refused |-> reg[t].lay = "transposed" /\ R # N,
                                           want |-> IF reg[t].lay = "transposed" /\ R # N THEN << >>
                                                    ELSE IF reg[t].lay = "transposed" THEN [u \in 1..N |-> ValueT(reg[t].code, u, R)]
                                                    ELSE [u \in 1..N |-> Value(reg[t].code, u, R)]])
                  /\ UNCHANGED <<reg, done>>
\* two draw variables of the two types in one formula: MonteCarlo((z_a + z_b) * x).  (The replay registers for the first
\* type a generator whose array holds integers, for the second one whose values are halves, and doubles z_b in the formula:
\* every series keeps its own values in the table whatever the other series look like.)
Evaluate2(ta, tb, R) ==
                /\ Going /\ ta # tb /\ reg[ta].lay = "rows" /\ reg[tb].lay = "rows"
                /\ hist' = Append(hist, [op |-> "evaluate2", type |-> ta, type2 |-> tb, code |-> reg[ta].code, lay |-> "rows", R |-> R,
                                         refused |-> FALSE, code2 |-> reg[tb].code,
                                         want |-> [u \in 1..N |-> Value(reg[ta].code, u, R) + Value(reg[tb].code, u, R)]])
                /\ UNCHANGED <<reg, done>>
Finish == ~done /\ Len(hist) = MaxSteps /\ done' = TRUE /\ UNCHANGED <<reg, hist>>
Next == (\E t \in Types, c \in Codes, lay \in Layouts : Register(t, c, lay)) \/ (\E t \in Types, R \in Rs : Evaluate(t, R)) \/ (\E ta, tb \in Types, R \in Rs : Evaluate2(ta, tb, R)) \/ Finish
Spec == Init /\ [][Next]_vars

\* an evaluation is a function of the registry and its own arguments only
Memoryless == \A i, j \in 1..Len(hist) :
    (hist[i].op = "evaluate" /\ hist[j].op = "evaluate" /\ hist[i].code = hist[j].code /\ hist[i].lay = hist[j].lay /\ hist[i].R = hist[j].R)
        => hist[i].want = hist[j].want
\* a history is interesting when the same (type, R) is evaluated under two different generators
Interesting == (\E i \in 1..Len(hist) : hist[i].op = "evaluate2") \/ \E i, j \in 1..Len(hist) : i < j /\ hist[i].op = "evaluate" /\ hist[j].op = "evaluate"
                  /\ hist[i].type = hist[j].type /\ hist[i].R = hist[j].R /\ (hist[i].code # hist[j].code \/ hist[i].lay # hist[j].lay)
EmitInv == (done /\ Interesting) => PrintT(ToJson([steps |-> hist]))
=============================================================================
