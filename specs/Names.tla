------------------------------- MODULE Names -------------------------------
(***************************************************************************)
(* Names are sequences of code points, ordered like Python's str:          *)
(* lexicographically by code point, a proper prefix first.  "Sorted by     *)
(* name" in every specification means this order, so that e.g.             *)
(* "B" < "a", "b1" < "b10" < "b2", "_x" between upper and lower case.      *)
(***************************************************************************)
EXTENDS Integers, Sequences, FiniteSets

RECURSIVE Less(_, _)
Less(a, b) == IF a = << >> THEN b # << >>
              ELSE IF b = << >> THEN FALSE
              ELSE IF Head(a) < Head(b) THEN TRUE
              ELSE IF Head(a) > Head(b) THEN FALSE
              ELSE Less(Tail(a), Tail(b))

\* 0-based rank of name x inside the set S of names (x \in S)
Rank(x, S) == Cardinality({m \in S : Less(m, x)})

\* the name of S with rank k
AtRank(k, S) == CHOOSE x \in S : Rank(x, S) = k

\* S as the sorted sequence
Sorted(S) == [i \in 1..Cardinality(S) |-> AtRank(i - 1, S)]

TotalOrderOn(S) == \A a, b \in S : (a = b) \/ Less(a, b) \/ Less(b, a)
=============================================================================
