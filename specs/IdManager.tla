------------------------------ MODULE IdManager ------------------------------
(***************************************************************************)
(* Identification of parameters BY NAME (property C03).                    *)
(*                                                                         *)
(* A model skeleton has ROLES 1..NR (intrinsic parameters with their own   *)
(* coefficient, starting value, bounds, free/fixed status).  A behaviour   *)
(* chooses: an injective renaming role -> name from a pool whose Python    *)
(* order is tricky (case, digits, prefixes), an order of appearance of the *)
(* terms, a status pattern, a bound pattern, a partial name -> value       *)
(* dictionary, and possibly a name clash.  The specification says what     *)
(* the library must then report -- all of it keyed by NAME:                *)
(*   free names  = the free roles' names, sorted (Names order)             *)
(*   vector k    = the value of the k-th name                              *)
(*   bounds k    = the bounds of the k-th name                             *)
(*   likelihood  = the formula evaluated with, for every role, the value   *)
(*                 the dictionary gives to ITS NAME, else its start value  *)
(*   estimate    = clip(c_i * mean(x), bounds) attached to role i's name   *)
(* and that a name denoting two kinds is refused.                          *)
(*                                                                         *)
(* Model: LL = - sum_rows sum_roles A[i] * (beta_i - C[i] * x_row)^2       *)
(***************************************************************************)
EXTENDS Integers, Sequences, FiniteSets, TLC, Json, Term

NM == INSTANCE Names

CONSTANTS
    NR,         \* number of roles
    Pool,       \* sequence of names (code points)
    A, C,       \* per-role integer coefficients (sequences of length NR)
    Start,      \* per-role starting value (rational)
    Xs,         \* data column x, one rational per row
    StatusPats, \* set of sequences of BOOLEAN (free?) of length NR
    BoundPats,  \* set of sequences of bound records [lo |-> [set, v], hi |-> [set, v]] of length NR
    DictVals,   \* per-role value offered to dictionaries (rational)
    Clashes,    \* subset of {"none", "beta-variable", "free-fixed", "beta-draw"}
    SplitSets   \* sets of roles that occur ONLY in a second formula given side by side with the log likelihood

VARIABLES ren, ord, st, bd, dict, clash, split, done
vars == <<ren, ord, st, bd, dict, clash, split, done>>

Roles == 1..NR
NameIdx == 1..Len(Pool)
Injective(f) == \A a, b \in DOMAIN f : f[a] = f[b] => a = b
Perms == {p \in [Roles -> Roles] : Injective(p)}
NameOf(r) == Pool[ren[r]]

FreeRoles  == {r \in Roles : st[r]}
FixedRoles == {r \in Roles : ~st[r]}
FreeNames  == {NameOf(r) : r \in FreeRoles}
FixedNames == {NameOf(r) : r \in FixedRoles}
RoleOfName(nm) == CHOOSE r \in Roles : NameOf(r) = nm

(***************************************************************************)
(* Prepare: the tables, from the leaves IN ANY ORDER of appearance.        *)
(***************************************************************************)
Leaf(r) == [name |-> NameOf(r), free |-> st[r], init |-> Start[r], lo |-> bd[r].lo, hi |-> bd[r].hi]
LeavesIn(o) == [k \in 1..NR |-> Leaf(o[k])]      \* o: order of appearance (sequence of roles)

PrepareFrom(ls) ==
    LET S == {ls[k] : k \in 1..Len(ls)}
        F == {l \in S : l.free}
        X == {l \in S : ~l.free}
        fn == {l.name : l \in F}
        xn == {l.name : l \in X}
        at(nms, T, k) == CHOOSE l \in T : NM!Rank(l.name, nms) = k
    IN  [free_names  |-> [k \in 1..Cardinality(F) |-> at(fn, F, k - 1).name],
         free_init   |-> [k \in 1..Cardinality(F) |-> at(fn, F, k - 1).init],
         bounds      |-> [k \in 1..Cardinality(F) |-> [lo |-> at(fn, F, k - 1).lo, hi |-> at(fn, F, k - 1).hi]],
         fixed_names |-> [k \in 1..Cardinality(X) |-> at(xn, X, k - 1).name],
         fixed_init  |-> [k \in 1..Cardinality(X) |-> at(xn, X, k - 1).init]]

Tables == PrepareFrom(LeavesIn(ord))

(***************************************************************************)
(* Values by name; the likelihood; the optimum.                            *)
(***************************************************************************)
\* dict: a set of roles whose NAME is given the value DictVals[role] (only free parameters are named)
ValueOf(r) == IF r \in dict THEN DictVals[r] ELSE Start[r]
Term1(r, x) == LET d == QSub(ValueOf(r), QMul(I(C[r]), x)) IN QMul(I(-A[r]), QMul(d, d))
RowLL(x) == LET RECURSIVE S(_)
                S(r) == IF r = 0 THEN Zero ELSE QAdd(Term1(r, x), S(r - 1))
            IN  S(NR)
RECURSIVE SumRows(_)
SumRows(k) == IF k = 0 THEN Zero ELSE QAdd(RowLL(Xs[k]), SumRows(k - 1))
LL == SumRows(Len(Xs))
PerRow == [k \in 1..Len(Xs) |-> RowLL(Xs[k])]
\* without any dictionary every parameter has its starting value (a dictionary given to an earlier call is forgotten)
TermStart(r, x) == LET d == QSub(Start[r], QMul(I(C[r]), x)) IN QMul(I(-A[r]), QMul(d, d))
RowLLStart(x) == LET RECURSIVE S(_)
                     S(r) == IF r = 0 THEN Zero ELSE QAdd(TermStart(r, x), S(r - 1))
                 IN  S(NR)
PerRowStart == [k \in 1..Len(Xs) |-> RowLLStart(Xs[k])]

RECURSIVE SumX(_)
SumX(k) == IF k = 0 THEN Zero ELSE QAdd(Xs[k], SumX(k - 1))
MeanX == QDiv(SumX(Len(Xs)), I(Len(Xs)))
Clip(v, b) == IF b.lo.set /\ QLess(v, b.lo.v) THEN b.lo.v
              ELSE IF b.hi.set /\ QLess(b.hi.v, v) THEN b.hi.v ELSE v
Optimum(r) == Clip(QMul(I(C[r]), MeanX), bd[r])     \* unique maximiser of the separable concave LL

(***************************************************************************)
(* Name clashes.                                                           *)
(***************************************************************************)
Duplicate == clash # "none"

(***************************************************************************)
(* Behaviours.                                                             *)
(***************************************************************************)
Init == /\ ren \in {f \in [Roles -> NameIdx] : Injective(f)}
        /\ ord \in Perms
        /\ st \in StatusPats
        /\ bd \in BoundPats
        /\ dict \in SUBSET Roles
        /\ dict \subseteq {r \in Roles : st[r]}
        /\ clash \in Clashes
        /\ split \in SplitSets /\ split # Roles
        /\ done = FALSE

Emit == ~done /\ done' = TRUE /\ UNCHANGED <<ren, ord, st, bd, dict, clash, split>>
Next == Emit
Spec == Init /\ [][Next]_vars

(***************************************************************************)
(* Properties of the model itself.                                         *)
(***************************************************************************)
\* the tables are a function of the SET of leaves: any order of appearance gives the same tables
OrderIrrelevant == done => \A o \in Perms : PrepareFrom(LeavesIn(o)) = Tables

\* indices are ranks of names: free_names is strictly increasing in Names order
SortedByName == done =>
    LET fnm == Tables.free_names IN
    \A k \in 1..(Len(fnm) - 1) : NM!Less(fnm[k], fnm[k + 1])

\* entry k of every table belongs to the k-th name
Attached == done =>
    \A k \in 1..Len(Tables.free_names) :
        LET r == RoleOfName(Tables.free_names[k]) IN
        /\ Tables.free_init[k] = Start[r]
        /\ Tables.bounds[k] = [lo |-> bd[r].lo, hi |-> bd[r].hi]

\* renaming invariance: a dictionary names roles through their NAMES; under ANY one-to-one
\* renaming f the value a role receives is the same (this is where "one-to-one" is needed)
ValueByName(f, r) ==
    LET nm == Pool[f[r]]
        named == {Pool[f[q]] : q \in dict}
    IN  IF nm \in named THEN DictVals[CHOOSE q \in dict : Pool[f[q]] = nm] ELSE Start[r]
RenamingInvariant == done =>
    \A f \in {g \in [Roles -> NameIdx] : Injective(g)} : \A r \in Roles : ValueByName(f, r) = ValueOf(r)

\* a dictionary overrides exactly the parameters it names
DictOverridesOnlyNamed == \A r \in Roles : (r \notin dict) => ValueOf(r) = Start[r]

\* Several formulas handed over together: the roles of `split` occur only in a second formula
\*     aux = sum_{r in split} A[r] * (beta_r + C[r] * x)
\* the log likelihood keeps the others.  The tables are built over ALL formulas (the names, their ranks, the
\* vector passed to the likelihood), the likelihood depends on its own roles only.
RowLLSplit(x) == LET RECURSIVE S(_)
                     S(r) == IF r = 0 THEN Zero ELSE QAdd(IF r \in split THEN Zero ELSE Term1(r, x), S(r - 1))
                 IN  S(NR)
RowAux(x) == LET RECURSIVE S(_)
                 S(r) == IF r = 0 THEN Zero
                         ELSE QAdd(IF r \in split THEN QMul(I(A[r]), QAdd(ValueOf(r), QMul(I(C[r]), x))) ELSE Zero, S(r - 1))
             IN  S(NR)
RECURSIVE SumRowsSplit(_)
SumRowsSplit(k) == IF k = 0 THEN Zero ELSE QAdd(RowLLSplit(Xs[k]), SumRowsSplit(k - 1))

Compact(t) == <<t.n, t.d>>
Bnd(b) == [lo |-> [set |-> b.lo.set, v |-> Compact(b.lo.v)], hi |-> [set |-> b.hi.set, v |-> Compact(b.hi.v)]]
Emitted ==
    [ren |-> [r \in Roles |-> NameOf(r)], ord |-> ord, free |-> st,
     start |-> [r \in Roles |-> Compact(Start[r])],
     bounds_by_role |-> [r \in Roles |-> Bnd(bd[r])],
     dict |-> [r \in Roles |-> r \in dict], dictvals |-> [r \in Roles |-> Compact(DictVals[r])],
     clash |-> clash,
     free_names |-> Tables.free_names,
     free_init |-> [k \in 1..Len(Tables.free_init) |-> Compact(Tables.free_init[k])],
     fixed_names |-> Tables.fixed_names,
     fixed_init |-> [k \in 1..Len(Tables.fixed_init) |-> Compact(Tables.fixed_init[k])],
     bounds |-> [k \in 1..Len(Tables.bounds) |-> Bnd(Tables.bounds[k])],
     values |-> [r \in Roles |-> Compact(ValueOf(r))],
     ll |-> Compact(LL),
     per_row |-> [k \in 1..Len(Xs) |-> Compact(PerRow[k])],
     per_row_start |-> [k \in 1..Len(Xs) |-> Compact(PerRowStart[k])],
     split |-> [r \in Roles |-> r \in split], ll_split |-> Compact(SumRowsSplit(Len(Xs))),
     aux_per_row |-> [k \in 1..Len(Xs) |-> Compact(RowAux(Xs[k]))],
     optimum |-> [r \in Roles |-> Compact(IF st[r] THEN Optimum(r) ELSE Start[r])]]
EmitInv == done => PrintT(ToJson(Emitted))
=============================================================================
