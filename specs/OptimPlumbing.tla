---------------------------- MODULE OptimPlumbing ----------------------------
(***************************************************************************)
(* Optimisation-side plumbing and numeric utilities (beyond the listed     *)
(* properties; check id X03, driver extra/optim.py).                       *)
(*                                                                         *)
(* Part 1 -- the minimised function as a state machine.  NegativeLikelihood*)
(*   (biogeme/negative_likelihood.py on biogeme_optimization's             *)
(*   FunctionToMinimize) is driven by ARBITRARY histories of its public    *)
(*   calls: SetVariables(p), F, FG, FGH, Reset, CheckDerivatives(p), and   *)
(*   Mutate(p) (the caller writes into the array it handed over).  Every   *)
(*   call is one step with its return value; after every step the counters *)
(*   nbr_function/gradient/hessian_evaluations and the number of calls     *)
(*   that reached the two likelihood callbacks are observable.             *)
(*   The protocol "what is returned is the NEGATED likelihood quantity at  *)
(*   the point last set; an evaluation at the same point is not repeated;  *)
(*   the sign is flipped exactly once" is stated as invariants             *)
(*   (CacheSound, ReturnsLastSet, SignFlippedOnce, NoRepeatedEvaluation)   *)
(*   -- they hold on every history WITHOUT Mutate / CheckDerivatives.      *)
(*   What the code really does is modelled; deviations from that reading:  *)
(*   P1  the store is not "the last evaluation" but every point evaluated  *)
(*       since reset(), keyed by the BYTES of the array at set_variables():*)
(*       coming back to an old point costs nothing, memory only grows;     *)
(*   P2  three stores, one per level (f / f,g / f,g,h): a higher level     *)
(*       fills the lower ones, not the reverse -- F then FG at one point   *)
(*       computes the function twice (one call per callback);              *)
(*   P3  FG answered from the store of FGH returns the Hessian as well     *)
(*       (hessian is not None);                                            *)
(*   P4  nbr_*_evaluations() count stored POINTS per level, not calls:     *)
(*       one FGH call makes all three counters 1, F;FG at one point leaves *)
(*       the function counter at 1 although two callbacks ran, failed      *)
(*       calls are not counted;                                            *)
(*   P5  set_variables keeps the caller's array (no copy) but the key is a *)
(*       snapshot: after an in-place change of the array the next call     *)
(*       answers with the value of the OLD point if that is stored, else   *)
(*       computes at the NEW content and files it under the OLD key, which *)
(*       poisons the store until reset() (variable `tainted`);             *)
(*   P6  no dimension check in set_variables: a vector of the wrong length *)
(*       is accepted, the callback is reached (and counted) and ITS error  *)
(*       (ValueError, not BiogemeError) comes out of f / f_g / f_g_h;      *)
(*   P7  0.0 and -0.0 are different keys (the same point evaluated twice); *)
(*   P8  check_derivatives(p) (inherited) drives set_variables itself and  *)
(*       leaves the object positioned on its LAST perturbed point          *)
(*       p + s_n e_n: F afterwards is not the value at p; its 2n perturbed *)
(*       points stay in the stores and in the counters;                    *)
(*   P9  before any set_variables (and after reset) F/FG/FGH raise         *)
(*       BiogemeError without reaching a callback.                         *)
(*   Likelihood: LL(u, v) = - sum_k A1 (u - C1 x_k)^2                      *)
(*                              + A2 (v + C3 u - C2 x_k)^2                 *)
(*   (concave, coupled: the Hessian is not diagonal), rational points.     *)
(*                                                                         *)
(* Part 2 -- FunctionOutput conversions: entries are attached to parameter *)
(*   NAMES; position = rank of the name among the FREE parameters in code  *)
(*   point order (Names.tla); named <-> positional round trips are the     *)
(*   identity; convert_to_dict; the tuple-like access of the proxies.      *)
(*   O1  the "deprecated" tuple unpacking emits no warning at all;         *)
(*   O2  it works ONCE per object (second unpacking: TypeError), indexing  *)
(*       and len() never work;                                             *)
(*   O3  convert_to_dict silently drops sequence entries no name maps to   *)
(*       and accepts two names on one index (only range is checked);       *)
(*   O4  a proxy can be neither copied (copy.copy / deepcopy) nor restored *)
(*       from a pickle: RecursionError (__getattr__ looks up self.data     *)
(*       before __init__ has run) -- a defect, see notes/design-X03.md;    *)
(*       constant ProxyCopyable = TRUE describes the repaired library.     *)
(*                                                                         *)
(* Part 3 -- finite differences (tools/derivatives.py) on polynomials of   *)
(*   degree <= 3: the forward difference with step s is EXACTLY            *)
(*       f_i + (s/2) f_ii + (s^2/6) f_iii          (gradient)              *)
(*       f_ji + (s/2) f_jii                        (column i of Hessian)   *)
(*   with the step rule  s_i = tau x_i if |x_i| >= 1, tau if 0 <= x_i < 1, *)
(*   -tau if -1 < x_i < 0, tau = 10^-7 (always away from zero).            *)
(*   check_derivatives reports analytic - finite difference, hence minus   *)
(*   the truncation terms.                                                 *)
(*   N1  the finite-difference Hessian is not symmetric (entry (j,i) is    *)
(*       truncated with s_i, entry (i,j) with s_j).                        *)
(*                                                                         *)
(* Part 4 -- the wrappers of biogeme/optimization.py: which keyword of the *)
(*   algorithm every entry of the `parameters` dict becomes, defaults,     *)
(*   bounds conversion, treatment of bounds by bound-unaware algorithms,   *)
(*   message keys.                                                         *)
(*   W1  LS-newton, TR-newton, LS-BFGS, TR-BFGS do NOT refuse bounds: one  *)
(*       identical warning per bounded parameter, then the bounds are      *)
(*       ignored -- the returned point may violate them, convergence=True; *)
(*       (-inf, +inf) also counts as "bounded"; lower > upper is accepted; *)
(*   W2  effective defaults differ from the documented ones: eta1 0.1      *)
(*       (doc 0.01), enlargingFactor 2 (doc 10), cgtolerance eps^0.3333    *)
(*       (doc eps^(1/3));                                                  *)
(*   W3  documented keys tolerance, steptol, infeasibleConjugateGradient   *)
(*       are never read by any wrapper (the first two act through the      *)
(*       function object, the third nowhere);                              *)
(*   W4  simple_bounds_newton / simple_bounds_BFGS write                   *)
(*       proportionAnalyticalHessian into the CALLER's dict;               *)
(*   W5  scipy passes every entry of `parameters` on as an option, bounds  *)
(*       unchanged (None stays None); the simple_bounds family converts    *)
(*       None to -/+ sqrt(DBL_MAX) (not inf);                              *)
(*   W6  TR-newton / TR-BFGS report no 'Algorithm' entry;                  *)
(*   W7  lower > upper: ValueError from scipy, OptimizationError from the  *)
(*       simple_bounds family, nothing from the others.                    *)
(*                                                                         *)
(* Part 5 -- tools/time.py format_timedelta: the printed value truncates   *)
(*   (never rounds up) at the resolution of its last field.                *)
(*                                                                         *)
(* Part 6 -- lsh.get_lsh_weights on binary attributes (identity hash       *)
(*   functions, bucket width 1/2: rows fall in one bucket exactly when     *)
(*   their attributes are equal, whatever the random offset): every bucket *)
(*   of n rows is represented by ceil(n / max_weight) rows carrying        *)
(*   max_weight, ..., max_weight, n mod max_weight; all other rows get 0;  *)
(*   the weights sum to the number of rows.                                *)
(*   L1  max_weight = 0 means "no limit" (as None);                        *)
(*   L2  the weights are written at the index LABELS of the data frame,    *)
(*       not at the row positions: the returned array "corresponding to    *)
(*       the input data frame" is misaligned as soon as the index is not   *)
(*       0..N-1 in order (IndexError when a label is >= N) -- a defect;    *)
(*       constant LshByPosition = TRUE describes the repaired library;     *)
(*   L3  (not modelled) a constant column makes the normalisation 0/0 and  *)
(*       the call fails with pandas' IntCastingNaNError.                   *)
(*                                                                         *)
(* One module, one variable set; the constants Mode and Parts select what  *)
(* TLC generates.  Numbers are exact rationals / terms (Term).             *)
(***************************************************************************)
EXTENDS Integers, Sequences, FiniteSets, TLC, Json, Term, Names

CONSTANTS
    Mode,         \* "calls" (part 1: the state machine) | "tables" (the cases of the other parts)
    Parts,        \* which of "output", "todict", "findiff", "wrapargs", "wraprun", "time", "lsh" a "tables" run enumerates
    \* ---- part 1
    A1, A2, C1, C2, C3,   \* integer coefficients of the likelihood
    Xs,                   \* data column (rationals)
    Dim,                  \* number of free parameters of the likelihood (2)
    Points,               \* set of sequences of rationals (any length) offered to SetVariables / Mutate
    CheckPoints,          \* subset of Points offered to CheckDerivatives
    MaxSteps, Record,     \* bound on the history; Record = FALSE: histories are not kept (state merging)
    \* ---- part 2
    Params,               \* set of parameter names (sequences of code points)
    Wt, Ct,               \* integer coefficients per name
    OutXs,                \* data column
    OutPoints,            \* set of assignments name -> rational
    FixedSets,            \* set of subsets of Params that can be declared fixed
    DictCases,            \* set of [n, m]: sequence length and a map name -> index, for convert_to_dict
    \* ---- part 3
    Polys,                \* set of polynomials: sets of monomials [i, j, q] (q x^i y^j), degree <= 3
    FDPoints,             \* set of <<x, y>> rationals
    \* ---- part 4
    KeySets,              \* set of sets of parameter keys given by the caller
    BoundCfgs,            \* set of sequences (per parameter) of [lo |-> [set, v], hi |-> [set, v]]
    Starts,               \* set of starting points (sequences of rationals)
    QA, QC,               \* objective of the real runs: - sum_p QA[p] (x_p - QC[p])^2, QC rational
    \* ---- part 5
    Durations,            \* set of [d, h, m, s, us]
    \* ---- part 6
    ProxyCopyable, LshByPosition,   \* FALSE: the library as it is (O4, L2); TRUE: with notes/fix-X03-*.diff applied
    LshCases              \* set of [rows |-> sequence of <<a1, a2>> (0/1), labels |-> permutation of 0..N-1, mw |-> max weight, 0 = none]

VARIABLES s, hist, nsteps, tab, done
vars == <<s, hist, nsteps, tab, done>>

(***************************************************************************)
(* PART 1.  Points, keys, values.                                          *)
(* A coordinate is [b, e]: the rational b itself (e = 0) or b moved by the *)
(* finite-difference step of check_derivatives (e = 1: gradient loop,      *)
(* tau = sqrt(machine epsilon) = 2^-26; e = 2: Hessian loop, tau = 10^-7). *)
(* A point is [c |-> coordinates, nz |-> zeros written as -0.0].           *)
(***************************************************************************)
QAbs(q) == IF q.n < 0 THEN QNeg(q) ELSE q
Tau(e) == IF e = 1 THEN Q(1, 67108864) ELSE Q(1, 10000000)
\* the step rule (shared with part 3): relative for |b| >= 1, absolute below, always away from zero
StepOf(b, tau) == IF QLeq(One, QAbs(b)) THEN QMul(tau, b) ELSE IF b.n >= 0 THEN tau ELSE QNeg(tau)

Exact(b) == [b |-> b, e |-> 0]
Base(p, nz) == [c |-> [i \in 1..Len(p) |-> Exact(p[i])], nz |-> nz /\ \E i \in 1..Len(p) : IsZero(p[i])]
Pert(pt, i, e) == [pt EXCEPT !.c[i].e = e]
IsPert(pt) == \E i \in 1..Len(pt.c) : pt.c[i].e # 0
CoordVal(c) == IF c.e = 0 THEN c.b ELSE QAdd(c.b, StepOf(c.b, Tau(c.e)))
BadDim(pt) == Len(pt.c) # Dim

NRows == Len(Xs)
\* -LL of one row, with the arithmetic given (exact or structure-only)
RowSq(Ad(_, _), Su(_, _), Mu(_, _), k, u, v) ==
    LET d1 == Su(u, QMul(I(C1), Xs[k]))
        d2 == Su(Ad(v, Mu(I(C3), u)), QMul(I(C2), Xs[k]))
    IN  Ad(Mu(I(A1), Mu(d1, d1)), Mu(I(A2), Mu(d2, d2)))
RowGu(Ad(_, _), Su(_, _), Mu(_, _), k, u, v) ==
    LET d1 == Su(u, QMul(I(C1), Xs[k]))
        d2 == Su(Ad(v, Mu(I(C3), u)), QMul(I(C2), Xs[k]))
    IN  Ad(Mu(I(2 * A1), d1), Mu(I(2 * A2 * C3), d2))
RowGv(Ad(_, _), Su(_, _), Mu(_, _), k, u, v) ==
    LET d2 == Su(Ad(v, Mu(I(C3), u)), QMul(I(C2), Xs[k]))
    IN  Mu(I(2 * A2), d2)

\* the LIKELIHOOD quantities (what the callbacks return) ...
LLq(u, v) == QNeg(SumSeq([k \in 1..NRows |-> RowSq(QAdd, QSub, QMul, k, u, v)]))
LLs(u, v) == SNeg(SSumSeq([k \in 1..NRows |-> RowSq(SAdd, SSub, SMul, k, u, v)]))
LGq(u, v) == <<QNeg(SumSeq([k \in 1..NRows |-> RowGu(QAdd, QSub, QMul, k, u, v)])),
               QNeg(SumSeq([k \in 1..NRows |-> RowGv(QAdd, QSub, QMul, k, u, v)]))>>
LGs(u, v) == <<SNeg(SSumSeq([k \in 1..NRows |-> RowGu(SAdd, SSub, SMul, k, u, v)])),
               SNeg(SSumSeq([k \in 1..NRows |-> RowGv(SAdd, SSub, SMul, k, u, v)]))>>
LH == <<<<I(-(NRows * (2 * A1 + 2 * A2 * C3 * C3))), I(-(NRows * 2 * A2 * C3))>>,
        <<I(-(NRows * 2 * A2 * C3)), I(-(NRows * 2 * A2))>>>>
\* ... and what the minimised function must answer: each of them negated, once
TNeg(t) == IF IsQ(t) THEN QNeg(t) ELSE SNeg(t)
LikeAt(pt) == LET u == CoordVal(pt.c[1])
                  v == CoordVal(pt.c[2])
              IN  IF IsPert(pt) THEN [f |-> LLs(u, v), g |-> LGs(u, v), h |-> LH]
                  ELSE [f |-> LLq(u, v), g |-> LGq(u, v), h |-> LH]
NegAt(pt) == LET l == LikeAt(pt)
             IN  [f |-> TNeg(l.f), g |-> [i \in 1..2 |-> TNeg(l.g[i])],
                  h |-> [i \in 1..2 |-> [j \in 1..2 |-> TNeg(l.h[i][j])]]]

(***************************************************************************)
(* The object.  sf / sg / sh: the three stores (functions from keys).      *)
(* cnt: calls that reached the callbacks (like; like_derivatives without / *)
(* with Hessian) -- counted by the caller, reset() does not touch them.    *)
(* Ghosts: tainted (keys filed while the array content differed from the   *)
(* key), ev (successful callback calls per <<point, level>> since reset),  *)
(* dup (some <<point, level>> was computed twice), held (the caller still  *)
(* holds the array the object uses), mutated (it ever wrote into it).      *)
(***************************************************************************)
NoPt == [set |-> FALSE]
Pt(p) == [set |-> TRUE, p |-> p]
EmptyF == [k \in {} |-> 0]
Put(m, k, v) == (k :> v) @@ m
S0 == [x |-> NoPt, key |-> NoPt, sf |-> EmptyF, sg |-> EmptyF, sh |-> EmptyF,
       cnt |-> [like |-> 0, deriv |-> 0, hess |-> 0],
       tainted |-> {}, ev |-> {}, dup |-> FALSE, held |-> FALSE, mutated |-> FALSE]

\* the caching rule, on keys only (shared with OptimPlumbingTrace): is the call answered from the store,
\* and which stores does a computed answer fill
Hit(op, k, kf, kg, kh) == CASE op = "f" -> k \in kf [] op = "fg" -> k \in kg [] op = "fgh" -> k \in kh
Fills(op) == CASE op = "f" -> {"f"} [] op = "fg" -> {"f", "g"} [] op = "fgh" -> {"f", "g", "h"}
Callback(op) == CASE op = "f" -> "like" [] op = "fg" -> "deriv" [] op = "fgh" -> "hess"

Err(e) == [status |-> e, hasG |-> FALSE, hasH |-> FALSE, f |-> Zero, g |-> << >>, h |-> << >>]
RetF(f) == [status |-> "ok", hasG |-> FALSE, hasH |-> FALSE, f |-> f, g |-> << >>, h |-> << >>]
RetG(r) == [status |-> "ok", hasG |-> TRUE, hasH |-> r.hasH, f |-> r.f, g |-> r.g, h |-> r.h]

DoSet(st, p) == [st EXCEPT !.x = Pt(p), !.key = Pt(p), !.held = TRUE]
DoMutate(st, p) == [st EXCEPT !.x = Pt(p), !.mutated = TRUE]
DoReset(st) == [S0 EXCEPT !.cnt = st.cnt, !.mutated = st.mutated]

Bump(c, op) == CASE op = "f" -> [c EXCEPT !.like = @ + 1]
                 [] op = "fg" -> [c EXCEPT !.deriv = @ + 1]
                 [] op = "fgh" -> [c EXCEPT !.hess = @ + 1]

\* one of f() / f_g() / f_g_h(): -> [st |-> new object state, ret |-> what the caller sees]
DoCall(st, op) ==
    IF ~st.key.set THEN [st |-> st, ret |-> Err("BiogemeError")]                                 \* P9
    ELSE LET k == st.key.p IN
    IF Hit(op, k, DOMAIN st.sf, DOMAIN st.sg, DOMAIN st.sh)
    THEN [st |-> st,
          ret |-> CASE op = "f" -> RetF(st.sf[k]) [] op = "fg" -> RetG(st.sg[k]) [] op = "fgh" -> RetG(st.sh[k])]   \* P3
    ELSE LET s1 == [st EXCEPT !.cnt = Bump(@, op)] IN
    IF BadDim(st.x.p) THEN [st |-> s1, ret |-> Err("ValueError")]                                \* P6
    ELSE LET v == NegAt(st.x.p)                       \* computed at the CONTENT of the array (P5)
             rec == [hasH |-> op = "fgh", f |-> v.f, g |-> v.g, h |-> IF op = "fgh" THEN v.h ELSE << >>]
             s2 == [s1 EXCEPT !.sf = Put(@, k, v.f),
                              !.sg = IF "g" \in Fills(op) THEN Put(@, k, rec) ELSE @,
                              !.sh = IF "h" \in Fills(op) THEN Put(@, k, rec) ELSE @,
                              !.tainted = IF st.x.p # k THEN @ \cup {k} ELSE @,
                              !.dup = @ \/ <<st.x.p, op>> \in st.ev,
                              !.ev = @ \cup {<<st.x.p, op>>}]
         IN  [st |-> s2, ret |-> IF op = "f" THEN RetF(v.f) ELSE RetG(rec)]

\* check_derivatives(p) of the function object = this sequence of its own public calls (P8)
CheckOps(p) ==
    LET b == Base(p, FALSE)
        n == Len(p)
        RECURSIVE Loop(_, _, _)
        Loop(i, e, op) == IF i > n THEN << >>
                          ELSE <<[o |-> "set", p |-> Pert(b, i, e)], [o |-> op]>> \o Loop(i + 1, e, op)
    IN  <<[o |-> "set", p |-> b], [o |-> "fgh"], [o |-> "set", p |-> b], [o |-> "f"]>>
        \o Loop(1, 1, "f") \o <<[o |-> "set", p |-> b], [o |-> "fg"]>> \o Loop(1, 2, "fg")
\* run them, stop at the first error; rets = the answers to the calls
RECURSIVE RunOps(_, _, _)
RunOps(st, ops, rets) ==
    IF ops = << >> THEN [st |-> st, rets |-> rets, status |-> "ok"]
    ELSE LET o == Head(ops) IN
         IF o.o = "set" THEN RunOps(DoSet(st, o.p), Tail(ops), rets)
         ELSE LET r == DoCall(st, o.o) IN
              IF r.ret.status # "ok" THEN [st |-> r.st, rets |-> rets, status |-> r.ret.status]
              ELSE RunOps(r.st, Tail(ops), Append(rets, r.ret))
\* answers: 1 = f_g_h at p, 2 = f at p, 3..n+2 = f at the gradient points, n+3 = f_g at p, then f_g at the Hessian points
DoCheck(st, p) ==
    LET run == RunOps(st, CheckOps(p), << >>)
        n == Len(p)
        sg1(i) == StepOf(p[i], Tau(1))
        sh1(i) == StepOf(p[i], Tau(2))
    IN  IF run.status # "ok" THEN [st |-> [run.st EXCEPT !.held = FALSE], ret |-> Err(run.status), gnum |-> << >>, hnum |-> << >>]
        ELSE [st |-> [run.st EXCEPT !.held = FALSE],
              ret |-> RetG(run.rets[1]),
              gnum |-> [i \in 1..n |-> SDiv(SSub(run.rets[2 + i].f, run.rets[2].f), sg1(i))],
              \* hnum[j][i]: column i is the change of the gradient along coordinate i
              hnum |-> [j \in 1..n |-> [i \in 1..n |-> SDiv(SSub(run.rets[n + 3 + i].g[j], run.rets[n + 3].g[j]), sh1(i))]]]

(***************************************************************************)
(* Observable projection and history of part 1.                            *)
(***************************************************************************)
Card(f) == Cardinality(DOMAIN f)
Proj(st) == [nf |-> Card(st.sf), ng |-> Card(st.sg), nh |-> Card(st.sh),
             like |-> st.cnt.like, deriv |-> st.cnt.deriv, hess |-> st.cnt.hess,
             needs_reset |-> DOMAIN st.sf # {}, dimension |-> Dim]
PArg(pt) == [c |-> [i \in 1..Len(pt.c) |-> pt.c[i].b], nz |-> pt.nz]
\* clean: the answer is claimed to be the negated likelihood at the point last set
Clean(st) == st.key.set /\ st.x = st.key /\ st.key.p \notin st.tainted
StepRec(act, arg, r, st0, st1) ==
    [act |-> act, arg |-> arg, ret |-> r, st |-> Proj(st1),
     clean |-> Clean(st0), at |-> IF st0.key.set THEN <<st0.key.p>> ELSE << >>]
Log(rec) == hist' = IF Record THEN Append(hist, rec) ELSE hist

Going == Mode = "calls" /\ ~done /\ nsteps < MaxSteps
Advance == nsteps' = nsteps + 1 /\ UNCHANGED <<tab, done>>

SetVariables(p, nz) ==
    /\ Going /\ (nz => \E i \in 1..Len(p) : IsZero(p[i]))
    /\ s' = DoSet(s, Base(p, nz))
    /\ Log(StepRec("set_variables", PArg(Base(p, nz)), Err("none"), s, s')) /\ Advance
\* the caller writes other numbers into the array it passed (same length)
Mutate(p) ==
    /\ Going /\ s.held /\ s.x.set /\ Len(s.x.p.c) = Len(p) /\ Base(p, FALSE) # s.x.p
    /\ s' = DoMutate(s, Base(p, FALSE))
    /\ Log(StepRec("mutate", PArg(Base(p, FALSE)), Err("none"), s, s')) /\ Advance
Call(op) ==
    /\ Going
    /\ LET r == DoCall(s, op) IN s' = r.st /\ Log(StepRec(op, "none", r.ret, s, r.st))
    /\ Advance
Reset ==
    /\ Going /\ s' = DoReset(s)
    /\ Log(StepRec("reset", "none", Err("none"), s, s')) /\ Advance
CheckDerivatives(p) ==
    /\ Going
    /\ LET r == DoCheck(s, p)
       IN  /\ s' = r.st
           /\ Log([StepRec("check_derivatives", PArg(Base(p, FALSE)), r.ret, s, r.st) EXCEPT !.clean = FALSE]
                  @@ [gnum |-> r.gnum, hnum |-> r.hnum])
    /\ Advance
Finish == /\ ~done /\ (Mode = "calls" => nsteps = MaxSteps) /\ done' = TRUE /\ UNCHANGED <<s, hist, nsteps, tab>>

(***************************************************************************)
(* PART 2.  Outputs attached to names.                                     *)
(*   LL(beta) = - sum_k [ sum_p Wt[p] (beta_p - Ct[p] x_k)^2               *)
(*                        + (sum_p beta_p - x_k)^2 ]                       *)
(* over ALL parameters; derivatives only with respect to the free ones.    *)
(***************************************************************************)
RECURSIVE SumSet(_, _)
SumSet(S, f) == IF S = {} THEN Zero ELSE LET e == CHOOSE y \in S : TRUE IN QAdd(f[e], SumSet(S \ {e}, f))
ONRows == Len(OutXs)
SumB(v) == SumSet(Params, v)
ORowG(k, v, p) == QNeg(QAdd(QMul(I(2 * Wt[p]), QSub(v[p], QMul(I(Ct[p]), OutXs[k]))),
                            QMul(I(2), QSub(SumB(v), OutXs[k]))))
ORowF(k, v) == QNeg(QAdd(SumSet(Params, [p \in Params |-> QMul(I(Wt[p]), QMul(QSub(v[p], QMul(I(Ct[p]), OutXs[k])),
                                                                                QSub(v[p], QMul(I(Ct[p]), OutXs[k]))))]),
                         QMul(QSub(SumB(v), OutXs[k]), QSub(SumB(v), OutXs[k]))))
OF(v) == SumSeq([k \in 1..ONRows |-> ORowF(k, v)])
OG(v, p) == SumSeq([k \in 1..ONRows |-> ORowG(k, v, p)])
OH(p, q) == I(-(ONRows * ((IF p = q THEN 2 * Wt[p] ELSE 0) + 2)))
OB(v, p, q) == SumSeq([k \in 1..ONRows |-> QMul(ORowG(k, v, p), ORowG(k, v, q))])

\* the mapping of the library: name -> 0-based rank among the free names, in code point order
IndexMap(free) == [n \in free |-> Rank(n, free)]
\* conversions (convert_to_dict and its inverse)
ToDict(sq, m) == [n \in DOMAIN m |-> sq[m[n] + 1]]
ToSeq(d, m) == [i \in 1..Cardinality(DOMAIN m) |-> d[CHOOSE n \in DOMAIN m : m[n] = i - 1]]
InRange(n, m) == \A a \in DOMAIN m : m[a] >= 0 /\ m[a] < n
Bijective(n, m) == InRange(n, m) /\ Cardinality(DOMAIN m) = n /\ \A a, b \in DOMAIN m : m[a] = m[b] => a = b

\* the proxy: unpacking works once; attributes always
ProxyOps == <<"attr", "unpack", "attr", "unpack", "index", "len", "copy", "pickle">>
RECURSIVE ProxyRun(_, _)
ProxyRun(ops, used) ==
    IF ops = << >> THEN << >>
    ELSE LET o == Head(ops) IN
         <<CASE o = "attr" -> "ok"
             [] o = "unpack" -> IF used THEN "TypeError" ELSE "ok"
             [] o = "index" -> "TypeError"
             [] o = "len" -> "TypeError"
             [] o \in {"copy", "pickle"} -> IF ProxyCopyable THEN "ok" ELSE "RecursionError">> \o ProxyRun(Tail(ops), used \/ o = "unpack")        \* O4

OutCases == {[fixed |-> fx, v |-> v] : fx \in FixedSets, v \in OutPoints}
SetSeq(S) == LET RECURSIVE R(_)
                 R(T) == IF T = {} THEN << >> ELSE LET e == CHOOSE y \in T : TRUE IN <<e>> \o R(T \ {e})
             IN R(S)
OutRec(c) ==
    LET free == Params \ c.fixed
        srt == Sorted(free)
        n == Cardinality(free)
    IN  [part |-> "output",
         values |-> SetSeq({<<p, c.v[p]>> : p \in Params}),
         fixed |-> SetSeq(c.fixed),
         order |-> srt,
         map |-> SetSeq({<<p, IndexMap(free)[p]>> : p \in free}),
         f |-> OF(c.v),
         g |-> [i \in 1..n |-> OG(c.v, srt[i])],
         h |-> [i \in 1..n |-> [j \in 1..n |-> OH(srt[i], srt[j])]],
         b |-> [i \in 1..n |-> [j \in 1..n |-> OB(c.v, srt[i], srt[j])]],
         \* by NAME, in no particular order
         gn |-> SetSeq({<<p, OG(c.v, p)>> : p \in free}),
         hn |-> SetSeq({<<p, q, OH(p, q)>> : p \in free, q \in free}),
         bn |-> SetSeq({<<p, q, OB(c.v, p, q)>> : p \in free, q \in free}),
         \* disaggregate: value and gradient (by name) of every row
         rows |-> [k \in 1..ONRows |-> [f |-> ORowF(k, c.v), gn |-> SetSeq({<<p, ORowG(k, c.v, p)>> : p \in free})]],
         proxy_ops |-> ProxyOps, proxy |-> ProxyRun(ProxyOps, FALSE), unpack_warnings |-> 0]                   \* O1
\* round trips, checked by TLC on every case
RoundTripOK(c) ==
    LET free == Params \ c.fixed
        m == IndexMap(free)
        srt == Sorted(free)
        g == [i \in 1..Cardinality(free) |-> OG(c.v, srt[i])]
        d == [p \in free |-> OG(c.v, p)]
    IN  /\ Bijective(Cardinality(free), m)
        /\ ToSeq(ToDict(g, m), m) = g
        /\ ToDict(ToSeq(d, m), m) = d
        /\ ToDict(g, m) = d                                          \* position = rank of the name
        /\ \A a, b \in free : Less(a, b) <=> m[a] < m[b]

DictSeq(n) == [i \in 1..n |-> 10 * i]
DictRec(c) ==
    [part |-> "todict", n |-> c.n, map |-> SetSeq({<<a, c.m[a]>> : a \in DOMAIN c.m}),
     status |-> IF InRange(c.n, c.m) THEN "ok" ELSE "IndexError",
     dict |-> IF InRange(c.n, c.m) THEN SetSeq({<<a, ToDict(DictSeq(c.n), c.m)[a]>> : a \in DOMAIN c.m}) ELSE << >>,
     lossless |-> Bijective(c.n, c.m)]

(***************************************************************************)
(* PART 3.  Finite differences on polynomials in two variables.            *)
(***************************************************************************)
RECURSIVE SumMono(_, _, _)
SumMono(P, x, y) == IF P = {} THEN Zero
                    ELSE LET m == CHOOSE mm \in P : TRUE
                         IN  QAdd(QMul(m.q, QMul(QPowInt(x, m.i), QPowInt(y, m.j))), SumMono(P \ {m}, x, y))
Dx(P) == {[i |-> m.i - 1, j |-> m.j, q |-> QMul(I(m.i), m.q)] : m \in {mm \in P : mm.i >= 1}}
Dy(P) == {[i |-> m.i, j |-> m.j - 1, q |-> QMul(I(m.j), m.q)] : m \in {mm \in P : mm.j >= 1}}
Dv(P, i) == IF i = 1 THEN Dx(P) ELSE Dy(P)
Ev(P, pt) == SumMono(P, pt[1], pt[2])
FDTau == Q(1, 10000000)
FDStep(pt, i) == StepOf(pt[i], FDTau)
\* forward difference of a polynomial of degree <= 3 along coordinate i with step t, exactly
Forward(P, pt, i, t) ==
    SAdd(Ev(Dv(P, i), pt), SAdd(SMul(SDiv(t, I(2)), Ev(Dv(Dv(P, i), i), pt)),
                               SMul(SDiv(SMul(t, t), I(6)), Ev(Dv(Dv(Dv(P, i), i), i), pt))))
Trunc(P, pt, i, t) ==
    SAdd(SMul(SDiv(t, I(2)), Ev(Dv(Dv(P, i), i), pt)), SMul(SDiv(SMul(t, t), I(6)), Ev(Dv(Dv(Dv(P, i), i), i), pt)))
\* the same identity with folding arithmetic and a coarse step: TLC verifies the calculus of this module
Move(pt, i, t) == [pt EXCEPT ![i] = QAdd(@, t)]
TaylorExact(P, pt) ==
    \A i \in 1..2 : \A t \in {Q(1, 2), Q(-1, 4)} :
        /\ QDiv(QSub(Ev(P, Move(pt, i, t)), Ev(P, pt)), t)
             = QAdd(Ev(Dv(P, i), pt), QAdd(QMul(QDiv(t, I(2)), Ev(Dv(Dv(P, i), i), pt)),
                                           QMul(QDiv(QMul(t, t), I(6)), Ev(Dv(Dv(Dv(P, i), i), i), pt))))
        /\ \A j \in 1..2 :
             QDiv(QSub(Ev(Dv(P, j), Move(pt, i, t)), Ev(Dv(P, j), pt)), t)
               = QAdd(Ev(Dv(Dv(P, j), i), pt), QMul(QDiv(t, I(2)), Ev(Dv(Dv(Dv(P, j), i), i), pt)))
\* the step always moves away from zero and is never zero
StepSound(pt) == \A i \in 1..2 : LET t == FDStep(pt, i) IN
                    /\ t.n # 0
                    /\ (pt[i].n > 0 => t.n > 0) /\ (pt[i].n < 0 => t.n < 0)
                    /\ (QLeq(One, QAbs(pt[i])) => t = QMul(FDTau, pt[i]))
                    /\ (~QLeq(One, QAbs(pt[i])) => QAbs(t) = FDTau)
FDCases == {[poly |-> P, pt |-> pt] : P \in Polys, pt \in FDPoints}
FDRec(c) ==
    LET P == c.poly
        pt == c.pt
        st == [i \in 1..2 |-> FDStep(pt, i)]
    IN  [part |-> "findiff",
         poly |-> SetSeq({<<m.i, m.j, m.q>> : m \in P}), pt |-> pt, steps |-> st,
         f |-> Ev(P, pt),
         g |-> [i \in 1..2 |-> Ev(Dv(P, i), pt)],
         h |-> [j \in 1..2 |-> [i \in 1..2 |-> Ev(Dv(Dv(P, j), i), pt)]],
         gnum |-> [i \in 1..2 |-> Forward(P, pt, i, st[i])],
         hnum |-> [j \in 1..2 |-> [i \in 1..2 |-> Forward(Dv(P, j), pt, i, st[i])]],
         \* what check_derivatives reports: analytic - finite difference
         gdiff |-> [i \in 1..2 |-> SNeg(Trunc(P, pt, i, st[i]))],
         hdiff |-> [j \in 1..2 |-> [i \in 1..2 |-> SNeg(Trunc(Dv(P, j), pt, i, st[i]))]]]

(***************************************************************************)
(* PART 4.  The wrappers.  Values are tokens interpreted by the driver.    *)
(***************************************************************************)
Algos == {"scipy", "LS-newton", "TR-newton", "LS-BFGS", "TR-BFGS", "simple_bounds", "simple_bounds_newton", "simple_bounds_BFGS"}
HandlesBounds(a) == a \in {"scipy", "simple_bounds", "simple_bounds_newton", "simple_bounds_BFGS"}
SBFamily == {"simple_bounds", "simple_bounds_newton", "simple_bounds_BFGS"}
Target(a) == CASE a = "scipy" -> "minimize" [] a = "LS-newton" -> "newton_line_search"
               [] a = "TR-newton" -> "newton_trust_region" [] a = "LS-BFGS" -> "bfgs_line_search"
               [] a = "TR-BFGS" -> "bfgs_trust_region" [] a \in SBFamily -> "simple_bounds_newton_algorithm"
\* [key of the parameters dict, keyword of the target, effective default, documented default]
Row(k, kw, eff, doc) == [key |-> k, kw |-> kw, eff |-> eff, doc |-> doc]
MaxIter100 == Row("maxiter", "maxiter", "100", "100")
Dogleg == Row("dogleg", "use_dogleg", "False", "False")
Radius == Row("radius", "initial_radius", "1", "1")
InitBfgs == Row("initBfgs", "init_bfgs", "None", "None")
Table(a) ==
    CASE a = "scipy" -> {}
      [] a = "LS-newton" -> {MaxIter100}
      [] a = "TR-newton" -> {MaxIter100, Dogleg, Radius}
      [] a = "LS-BFGS" -> {MaxIter100, InitBfgs}
      [] a = "TR-BFGS" -> {MaxIter100, Dogleg, Radius, InitBfgs}
      [] a \in SBFamily ->
            {Row("maxiter", "maxiter", "1000", "1000"), Row("radius", "first_radius", "1", "1"),
             Row("cgtolerance", "conjugate_gradient_tol", "eps^0.3333", "eps^(1/3)"),
             Row("eta1", "eta1", "1/10", "1/100"), Row("eta2", "eta2", "9/10", "9/10"),
             Row("enlargingFactor", "enlarging_factor", "2", "10"),
             Row("proportionAnalyticalHessian", "proportion_analytical_hessian", "1", "1")}
\* documented for some wrapper, read by none (W3)
NeverRead == {"tolerance", "steptol", "infeasibleConjugateGradient"}
AllKeys == UNION {{r.key : r \in Table(a)} : a \in Algos} \cup NeverRead
\* the value a caller gives for a key (one distinct token per key)
UserVal(k) == CASE k = "maxiter" -> "7" [] k = "dogleg" -> "True" [] k = "radius" -> "3/2" [] k = "initBfgs" -> "M"
                [] k = "cgtolerance" -> "1/8" [] k = "eta1" -> "1/4" [] k = "eta2" -> "3/4"
                [] k = "enlargingFactor" -> "5" [] k = "proportionAnalyticalHessian" -> "1/2"
                [] k = "tolerance" -> "1/16" [] k = "steptol" -> "1/32" [] k = "infeasibleConjugateGradient" -> "True"
Forced(a) == CASE a = "simple_bounds_newton" -> <<"1">> [] a = "simple_bounds_BFGS" -> <<"0">> [] OTHER -> << >>
\* keyword arguments the algorithm receives (besides the function, the starting point, bounds and names)
Kwargs(a, keys, which) ==
    {<<r.kw,
       IF r.key = "proportionAnalyticalHessian" /\ Forced(a) # << >> THEN Forced(a)[1]                  \* W4
       ELSE IF r.key \in keys THEN UserVal(r.key)
       ELSE IF which = "eff" THEN r.eff ELSE r.doc>> : r \in Table(a)}
\* scipy: options = {ftol: eps, gtol: 1e-7} overridden / extended by EVERY entry given (W5)
ScipyOptions(keys) == {<<"ftol", "eps">>, <<"gtol", "1e-7">>} \cup {<<k, UserVal(k)>> : k \in keys}
\* the caller's dict after the call (W4)
DictAfter(a, keys) == {<<k, UserVal(k)>> : k \in keys \ (IF Forced(a) # << >> THEN {"proportionAnalyticalHessian"} ELSE {})}
                      \cup (IF Forced(a) # << >> THEN {<<"proportionAnalyticalHessian", Forced(a)[1]>>} ELSE {})
\* where documentation and code disagree (W2)
DocDeviationsAreExactly ==
    UNION {{<<a, r.key>> : r \in {rr \in Table(a) : rr.eff # rr.doc}} : a \in Algos}
      = {<<a, k>> : a \in SBFamily, k \in {"eta1", "enlargingFactor", "cgtolerance"}}
\* every key a wrapper reads has exactly one row, one keyword
TableWellFormed == \A a \in Algos : \A r1, r2 \in Table(a) : (r1.key = r2.key \/ r1.kw = r2.kw) => r1 = r2

\* bounds: a side is [set, v, inf]: absent (None), or the rational v, or an infinity written explicitly (inf)
Fin(sd) == sd.set /\ ~sd.inf
BoundedParams(bc) == {p \in 1..Len(bc) : bc[p].lo.set \/ bc[p].hi.set}
Inverted(bc) == \E p \in 1..Len(bc) : Fin(bc[p].lo) /\ Fin(bc[p].hi) /\ QLess(bc[p].hi.v, bc[p].lo.v)
\* what the algorithm receives: scipy the list unchanged; the simple_bounds family two vectors with +-BIG
BSide(sd, inf) == IF ~sd.set THEN [k |-> inf, v |-> Zero] ELSE IF sd.inf THEN [k |-> "inf", v |-> Zero] ELSE [k |-> "v", v |-> sd.v]
BoundsGiven(a, bc) ==
    IF a = "scipy" THEN [kind |-> "list", lo |-> [p \in 1..Len(bc) |-> BSide(bc[p].lo, "None")], hi |-> [p \in 1..Len(bc) |-> BSide(bc[p].hi, "None")]]
    ELSE IF a \in SBFamily THEN [kind |-> "Bounds", lo |-> [p \in 1..Len(bc) |-> BSide(bc[p].lo, "-BIG")], hi |-> [p \in 1..Len(bc) |-> BSide(bc[p].hi, "+BIG")]]
    ELSE [kind |-> "absent", lo |-> << >>, hi |-> << >>]
Warnings(a, bc) == IF HandlesBounds(a) THEN 0 ELSE Cardinality(BoundedParams(bc))                   \* W1
ArgCases == {[algo |-> a, keys |-> ks, bounds |-> bc] : a \in Algos, ks \in KeySets, bc \in BoundCfgs}
SideRec(sd) == [k |-> sd.k, v |-> sd.v]
ArgRec(c) ==
    [part |-> "wrapargs", algo |-> c.algo, keys |-> SetSeq(c.keys), given |-> SetSeq({<<k, UserVal(k)>> : k \in c.keys}),
     bounds |-> c.bounds, target |-> Target(c.algo),
     kwargs |-> SetSeq(Kwargs(c.algo, c.keys, "eff")), kwargs_doc |-> SetSeq(Kwargs(c.algo, c.keys, "doc")),
     options |-> IF c.algo = "scipy" THEN SetSeq(ScipyOptions(c.keys)) ELSE << >>,
     dict_after |-> SetSeq(DictAfter(c.algo, c.keys)),
     bounds_given |-> BoundsGiven(c.algo, c.bounds),
     warnings |-> Warnings(c.algo, c.bounds),
     \* the conversion of the simple_bounds family is where lower > upper is noticed: the algorithm is never reached (W7)
     raises |-> IF c.algo \in SBFamily /\ Inverted(c.bounds) THEN "OptimizationError" ELSE "none"]

\* real runs on  - sum_p QA[p] (x_p - QC[p])^2 : the maximiser, clipped when the algorithm honours bounds
NQ == Len(QC)
Clip(v, b) == IF Fin(b.lo) /\ QLess(v, b.lo.v) THEN b.lo.v ELSE IF Fin(b.hi) /\ QLess(b.hi.v, v) THEN b.hi.v ELSE v
Feasible(x, bc) == \A p \in 1..NQ : (Fin(bc[p].lo) => QLeq(bc[p].lo.v, x[p])) /\ (Fin(bc[p].hi) => QLeq(x[p], bc[p].hi.v))
Solution(a, bc) == [p \in 1..NQ |-> IF HandlesBounds(a) THEN Clip(QC[p], bc[p]) ELSE QC[p]]
RunOutcome(a, bc) == IF Inverted(bc) /\ a = "scipy" THEN "ValueError"
                     ELSE IF Inverted(bc) /\ a \in SBFamily THEN "OptimizationError" ELSE "ok"     \* W7
MessageKeys(a) ==
    {"Cause of termination", "Number of iterations", "Number of function evaluations"}
    \cup (IF a \in {"TR-newton", "TR-BFGS"} THEN {} ELSE {"Algorithm"})                             \* W6
    \cup (IF a = "scipy" THEN {} ELSE {"Number of gradient evaluations", "Number of hessian evaluations", "Relative gradient"})
    \cup (IF a \in SBFamily THEN {"Proportion of Hessian calculation"} ELSE {})
\* bound-aware algorithms are started inside their bounds
RunCases == {c \in [algo : Algos, bounds : BoundCfgs, start : Starts] :
               (HandlesBounds(c.algo) /\ ~Inverted(c.bounds)) => Feasible(c.start, c.bounds)}
RunRec(c) ==
    [part |-> "wraprun", algo |-> c.algo, bounds |-> c.bounds, start |-> c.start,
     outcome |-> RunOutcome(c.algo, c.bounds),
     solution |-> Solution(c.algo, c.bounds),
     respects_bounds |-> Feasible(Solution(c.algo, c.bounds), c.bounds),
     warnings |-> Warnings(c.algo, c.bounds),
     message_keys |-> SetSeq(MessageKeys(c.algo)),
     handles_bounds |-> HandlesBounds(c.algo)]
\* a bound-aware algorithm returns a feasible point; a bound-unaware one returns the free maximiser whatever the bounds
RunSound(c) == /\ (HandlesBounds(c.algo) /\ ~Inverted(c.bounds) => Feasible(Solution(c.algo, c.bounds), c.bounds))
               /\ (~HandlesBounds(c.algo) => Solution(c.algo, c.bounds) = QC)

(***************************************************************************)
(* PART 5.  format_timedelta.                                              *)
(***************************************************************************)
Hours(t) == 24 * t.d + t.h
Fmt(t) ==
    IF Hours(t) > 0 THEN ToString(Hours(t)) \o "h " \o ToString(t.m) \o "m " \o ToString(t.s) \o "s"
    ELSE IF t.m > 0 THEN ToString(t.m) \o "m " \o ToString(t.s) \o "s"
    ELSE IF t.s > 0 THEN ToString(t.s) \o "." \o ToString(t.us \div 100000) \o "s"
    ELSE IF t.us >= 1000 THEN ToString(t.us \div 1000) \o "ms"
    ELSE ToString(t.us) \o "us"
\* the whole seconds are always printed in full; of the microseconds the fields printed keep PrintedUs, the last
\* field has resolution ResUs (in microseconds)
PrintedUs(t) == IF Hours(t) > 0 \/ t.m > 0 THEN 0
                ELSE IF t.s > 0 THEN (t.us \div 100000) * 100000
                ELSE IF t.us >= 1000 THEN (t.us \div 1000) * 1000
                ELSE t.us
ResUs(t) == IF Hours(t) > 0 \/ t.m > 0 THEN 1000000 ELSE IF t.s > 0 THEN 100000 ELSE IF t.us >= 1000 THEN 1000 ELSE 1
\* truncation, never rounding up: printed <= true < printed + resolution
TimeTruncates(t) == PrintedUs(t) <= t.us /\ t.us < PrintedUs(t) + ResUs(t)
TimeRec(t) == [part |-> "time", d |-> t.d, h |-> t.h, m |-> t.m, s |-> t.s, us |-> t.us, text |-> Fmt(t)]

(***************************************************************************)
(* PART 6.  Sampling weights by hashing.                                   *)
(***************************************************************************)
LGroup(rows, i) == {j \in 1..Len(rows) : rows[j] = rows[i]}
LGroups(rows) == {LGroup(rows, i) : i \in 1..Len(rows)}
\* the weights representing a bucket of n rows
CeilDiv(n, m) == (n + m - 1) \div m
Shares(n, m) == IF m = 0 \/ m >= n THEN <<n>>                                                      \* L1
                ELSE [k \in 1..CeilDiv(n, m) |-> IF k <= n \div m THEN m ELSE n % m]
RECURSIVE SumInts(_)
SumInts(q) == IF q = << >> THEN 0 ELSE Head(q) + SumInts(Tail(q))
SharesSound(n, m) == /\ SumInts(Shares(n, m)) = n
                     /\ \A k \in 1..Len(Shares(n, m)) : Shares(n, m)[k] >= 1 /\ (m > 0 => Shares(n, m)[k] <= m)
                     /\ (m > 0 => Len(Shares(n, m)) = CeilDiv(n, m))
LshSound(c) == /\ \A g \in LGroups(c.rows) : SharesSound(Cardinality(g), c.mw)
               /\ \A g1, g2 \in LGroups(c.rows) : g1 = g2 \/ g1 \cap g2 = {}
               /\ UNION LGroups(c.rows) = 1..Len(c.rows)
               \* with the default index the weights sit on members of their bucket
               /\ ((\A j \in 1..Len(c.rows) : c.labels[j] = j - 1) =>
                      \A g \in LGroups(c.rows) : {c.labels[j] : j \in g} = {j - 1 : j \in g})
LshRec(c) ==
    [part |-> "lsh", rows |-> c.rows, labels |-> c.labels, mw |-> c.mw, total |-> Len(c.rows),
     groups |-> SetSeq({[members |-> SetSeq({j - 1 : j \in g}),               \* row positions (0-based) of the bucket
                         at |-> IF LshByPosition THEN SetSeq({j - 1 : j \in g})
                                ELSE SetSeq({c.labels[j] : j \in g}),         \* where its weights are written (L2)
                         at_labels |-> SetSeq({c.labels[j] : j \in g}),
                         shares |-> Shares(Cardinality(g), c.mw)] : g \in LGroups(c.rows)})]

(***************************************************************************)
(* The machine.                                                            *)
(***************************************************************************)
\* Mode = "tables": every case of the selected parts, tagged with its part (one TLC run for all tables)
Tagged(k, S) == IF k \in Parts THEN {[kind |-> k, z |-> c] : c \in S} ELSE {}
Cases == IF Mode = "calls" THEN {[kind |-> "calls", z |-> 0]}
         ELSE Tagged("output", OutCases) \cup Tagged("todict", DictCases) \cup Tagged("findiff", FDCases)
              \cup Tagged("wrapargs", ArgCases) \cup Tagged("wraprun", RunCases) \cup Tagged("time", Durations)
              \cup Tagged("lsh", LshCases)
Init == /\ s = S0 /\ hist = << >> /\ nsteps = 0 /\ done = FALSE
        /\ tab \in Cases
Next == \/ \E p \in Points, nz \in BOOLEAN : SetVariables(p, nz)
        \/ \E p \in Points : Mutate(p)
        \/ \E op \in {"f", "fg", "fgh"} : Call(op)
        \/ Reset
        \/ \E p \in CheckPoints : CheckDerivatives(p)
        \/ Finish
Spec == Init /\ [][Next]_vars

(***************************************************************************)
(* Properties of part 1.                                                   *)
(***************************************************************************)
\* a stored value that was filed while array and key agreed IS the negated likelihood quantity of its key
Sound(k) == k \notin s.tainted /\ ~IsPert(k)       \* (the perturbed points of check_derivatives are left to the replay)
CacheSound ==
    /\ \A k \in DOMAIN s.sf : Sound(k) => s.sf[k] = NegAt(k).f
    /\ \A k \in DOMAIN s.sg : Sound(k) => s.sg[k].f = NegAt(k).f /\ s.sg[k].g = NegAt(k).g
    /\ \A k \in DOMAIN s.sh : Sound(k) => s.sh[k].f = NegAt(k).f /\ s.sh[k].g = NegAt(k).g /\ s.sh[k].h = NegAt(k).h
\* a higher level fills the lower ones
LevelsNested == DOMAIN s.sh \subseteq DOMAIN s.sg /\ DOMAIN s.sg \subseteq DOMAIN s.sf
\* flipped once: the likelihood is <= 0 everywhere, every clean stored value is >= 0, and it is minus the likelihood
SignFlippedOnce ==
    \A k \in DOMAIN s.sf : (k \notin s.tainted /\ ~IsPert(k)) =>
        /\ QSign(s.sf[k]) >= 0 /\ QSign(LikeAt(k).f) <= 0
        /\ QAdd(s.sf[k], LikeAt(k).f) = Zero
\* the same point is never computed twice at the same level between two resets -- unless the array was changed behind
\* the object's back (then the key is not the point)
NoRepeatedEvaluation == s.tainted = {} => ~s.dup
\* without Mutate nothing is ever tainted
TaintOnlyByMutation == ~s.mutated => s.tainted = {}
\* every answer given in a clean situation is the negated likelihood at the point last set (on recorded histories;
\* the last step only: the earlier ones were checked in the earlier states)
ReturnsLastSet ==
    \A n \in {Len(hist)} \ {0} :
        LET h == hist[n] IN
        (h.act \in {"f", "fg", "fgh"} /\ h.ret.status = "ok" /\ h.clean /\ ~IsPert(h.at[1])) =>
            /\ h.ret.f = NegAt(h.at[1]).f
            /\ (h.ret.hasG => h.ret.g = NegAt(h.at[1]).g)
            /\ (h.ret.hasH => h.ret.h = NegAt(h.at[1]).h)
\* the counters count points: they never exceed the calls that reached the callbacks
CountersArePoints ==
    /\ Card(s.sh) <= s.cnt.hess
    /\ Card(s.sg) <= s.cnt.deriv + s.cnt.hess
    /\ Card(s.sf) <= s.cnt.like + s.cnt.deriv + s.cnt.hess
\* properties of the tables (evaluated on the chosen case)
TablesOK ==
    /\ (tab.kind = "output" => RoundTripOK(tab.z))
    /\ (tab.kind = "todict" => (Bijective(tab.z.n, tab.z.m) => ToSeq(ToDict(DictSeq(tab.z.n), tab.z.m), tab.z.m) = DictSeq(tab.z.n)))
    /\ (tab.kind = "findiff" => TaylorExact(tab.z.poly, tab.z.pt) /\ StepSound(tab.z.pt))
    /\ (tab.kind \in {"wrapargs", "wraprun"} => DocDeviationsAreExactly /\ TableWellFormed)
    /\ (tab.kind = "wraprun" => RunSound(tab.z))
    /\ (tab.kind = "time" => TimeTruncates(tab.z))
    /\ (tab.kind = "lsh" => LshSound(tab.z))

Emitted == CASE tab.kind = "calls" -> [part |-> "calls", steps |-> hist]
             [] tab.kind = "output" -> OutRec(tab.z)
             [] tab.kind = "todict" -> DictRec(tab.z)
             [] tab.kind = "findiff" -> FDRec(tab.z)
             [] tab.kind = "wrapargs" -> ArgRec(tab.z)
             [] tab.kind = "wraprun" -> RunRec(tab.z)
             [] tab.kind = "time" -> TimeRec(tab.z)
             [] tab.kind = "lsh" -> LshRec(tab.z)
EmitInv == done => PrintT(ToJson(Emitted))
=============================================================================
