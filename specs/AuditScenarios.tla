--------------------------- MODULE AuditScenarios ---------------------------
(***************************************************************************)
(* The non-tree fault kinds of property C12, each with its validity rule:  *)
(*  nests     a nest structure over a choice set: every nest inside the    *)
(*            choice set; for the nested logit the nests are pairwise      *)
(*            disjoint (alternatives in no nest are alone: allowed)        *)
(*  data      a table of cells, each numeric / NaN / text: valid iff it    *)
(*            has at least one row and every cell is numeric               *)
(*  flags     derivative requests: Hessian or BHHH only with the gradient  *)
(*  choice    the chosen alternative of EVERY row is one of the            *)
(*            alternatives of the logit (whichever row is wrong)           *)
(*  missing   a formula READS a cell holding the missing-data code on a    *)
(*            row iff the cell is an operand that is evaluated there:      *)
(*            both operands of +, the key and the SELECTED branch of Elem, *)
(*            the conditions and the terms with a true condition of        *)
(*            ConditionalSum; columns the formula does not mention and     *)
(*            unselected branches are harmless.                            *)
(* One behaviour = one scenario, emitted with its expected verdict.        *)
(***************************************************************************)
EXTENDS Integers, Sequences, FiniteSets, TLC, Json

CONSTANTS ChoiceSet, Universe, MaxNests, CellKinds, MaxRows, NCols, Alts, ChoiceVals, NRowsChoice, Families

VARIABLES sc, done
vars == <<sc, done>>

Subsets == SUBSET Universe \ {{}}
NestSeqs == UNION {[1..k -> Subsets] : k \in 1..MaxNests}
\* longer structures of small nests inside the choice set: an overlap may be between nests that are not neighbours
SmallNests == {S \in SUBSET ChoiceSet : Cardinality(S) \in 1..2}
LongNestSeqs == [1..(MaxNests + 1) -> SmallNests]
NestsValid(kind, ns) ==
    /\ \A i \in 1..Len(ns) : ns[i] \subseteq ChoiceSet
    /\ (kind = "nested" => \A i, j \in 1..Len(ns) : i # j => ns[i] \cap ns[j] = {})

Tables == UNION {[1..r -> [1..NCols -> CellKinds]] : r \in 0..MaxRows}
DataValid(t) == Len(t) >= 1 /\ \A r \in 1..Len(t) : \A c \in 1..NCols : t[r][c] = "num"

FlagsValid(g, h, b) == (h \/ b) => g

ChoiceCols == [1..NRowsChoice -> ChoiceVals]
ChoiceValid(col) == \A r \in 1..NRowsChoice : col[r] \in Alts

\* missing data: templates over columns x, z (w is never mentioned); key k in {1, 2}; conditions c1, c2 in {0, 1}
\* miss: the set of columns holding the missing code on the row
Templates == {"plus", "elem", "condsum", "unmentioned"}
Reads(tp, k, c1, c2, miss) ==
    CASE tp = "plus"    -> {"x", "z"} \cap miss # {}
      [] tp = "elem"    -> ("k" \in miss) \/ ((IF k = 1 THEN "x" ELSE "z") \in miss)
      [] tp = "condsum" -> ("c1" \in miss) \/ ("c2" \in miss) \/ (c1 = 1 /\ "x" \in miss) \/ (c2 = 1 /\ "z" \in miss)
      [] tp = "unmentioned" -> FALSE
MissSets == SUBSET {"x", "z", "w", "k", "c1", "c2"}

Init == /\ done = FALSE
        /\ \/ "nests" \in Families /\ \E kind \in {"nested", "cross"}, ns \in NestSeqs :
                 sc = [fam |-> "nests", kind |-> kind, nests |-> ns, valid |-> NestsValid(kind, ns)]
           \/ "nests" \in Families /\ \E ns \in LongNestSeqs :
                 sc = [fam |-> "nests", kind |-> "nested", nests |-> ns, valid |-> NestsValid("nested", ns)]
           \/ "data" \in Families /\ \E t \in Tables : sc = [fam |-> "data", table |-> t, valid |-> DataValid(t)]
           \/ "flags" \in Families /\ \E g, h, b \in BOOLEAN :
                 sc = [fam |-> "flags", g |-> g, h |-> h, b |-> b, valid |-> FlagsValid(g, h, b)]
           \/ "choice" \in Families /\ \E col \in ChoiceCols :
                 sc = [fam |-> "choice", col |-> col, valid |-> ChoiceValid(col)]
           \/ "missing" \in Families /\ \E tp \in Templates, k \in {1, 2}, c1, c2 \in {0, 1}, miss \in MissSets :
                 /\ (tp # "elem" => k = 1) /\ (tp # "condsum" => c1 = 1 /\ c2 = 1)
                 /\ Cardinality(miss) <= 2
                 /\ (tp = "unmentioned" => miss \subseteq {"w"})
                 /\ ("k" \in miss => tp = "elem") /\ ({"c1", "c2"} \cap miss # {} => tp = "condsum")
                 /\ sc = [fam |-> "missing", tp |-> tp, k |-> k, c1 |-> c1, c2 |-> c2, miss |-> miss,
                          valid |-> ~Reads(tp, k, c1, c2, miss)]
Emit == ~done /\ done' = TRUE /\ UNCHANGED sc
Next == Emit
Spec == Init /\ [][Next]_vars

\* sanity of the rules themselves
RulesSane ==
    /\ NestsValid("nested", <<{CHOOSE a \in ChoiceSet : TRUE}>>)
    /\ ~FlagsValid(FALSE, TRUE, FALSE) /\ FlagsValid(TRUE, TRUE, TRUE) /\ FlagsValid(FALSE, FALSE, FALSE)
    /\ ~Reads("elem", 1, 1, 1, {"z"}) /\ Reads("elem", 2, 1, 1, {"z"})
    /\ ~Reads("condsum", 1, 0, 1, {"x"}) /\ Reads("condsum", 1, 1, 0, {"x"})
EmitInv == done => PrintT(ToJson(sc))
=============================================================================
