-------------------------------- MODULE Audit --------------------------------
(***************************************************************************)
(* Validity of a model specification (property C12), independent of where  *)
(* the faulty element sits.                                                *)
(*                                                                         *)
(* Formulas are DAGs as in ExprLang (children = indices of earlier nodes), *)
(* over the operator classes of the library plus the binders MonteCarlo,   *)
(* Integrate(name), PanelLikelihoodTrajectory and catalogs.  The leaf pool *)
(* contains benign leaves and FAULT leaves (a variable that is not a       *)
(* column, a parameter named like a column, a draw, an integration         *)
(* variable).  Valid is defined along every PATH from the root (a shared   *)
(* node is judged in each context it occurs in):                           *)
(*   1. a Variable names a column of the data;                             *)
(*   2. one name denotes one kind of element (columns count, used or not); *)
(*   3. a draw has a MonteCarlo above it; a MonteCarlo contains a draw,    *)
(*      no other MonteCarlo, and on panel data the trajectory operator;    *)
(*   4. an integration variable has an Integrate of ITS name above it;     *)
(*      an Integrate contains its variable;                                *)
(*   5. the trajectory operator only on panel data; on panel data every    *)
(*      Variable is below it;                                              *)
(*   6. logit: utilities and availabilities have the same keys; choice and  *)
(*      availabilities do not depend on draws / integration variables.     *)
(* Expected observable: the library raises ITS OWN error type exactly when *)
(* ~Valid, at construction of the estimation object and at evaluation.     *)
(***************************************************************************)
EXTENDS Integers, Sequences, FiniteSets, TLC, Json

CONSTANTS
    Leaves,      \* sequence of [kind, name]; kind in Numeric, Beta, Variable, bioDraws, RandomVariable
    Columns,     \* set of column names of the data
    Panel,       \* BOOLEAN: the data are declared panel
    Estimation,  \* BOOLEAN: entry point is the estimation object (TRUE) or a direct evaluation, where
                 \*   formulas are applied row by row and rule 5b (variables below the trajectory) does not apply
    PlainUn, PlainBin,   \* plain operator classes with 1 / 2 operands
    Special,     \* subset of the special classes below that are generated
    KeyLeaves,   \* leaf indices allowed in key / choice slots (value is a key on every row) besides faults
    FaultLeaves, \* leaf indices that are faults in some context
    MaxOps, Thin, Salt,
    Chain        \* BOOLEAN: generate only CHAINS: a logit whose keys do not match, wrapped again and again (each new
                 \*   operator takes the previous one as an operand, the other operands are the key-valued leaves):
                 \*   a fault that only the recursive audit can see, at depth MaxOps

VARIABLES nodes, done
vars == <<nodes, done>>

NL == Len(Leaves)
NOps(ns) == Len(ns) - NL
Node(op, kids, name, keys, avkeys) == [op |-> op, kids |-> kids, name |-> name, keys |-> keys, avkeys |-> avkeys]
LeafNode(i) == Node(Leaves[i].kind, << >>, Leaves[i].name, << >>, << >>)
InitNodes == [i \in 1..NL |-> LeafNode(i)]
SeqToSet(s) == {s[i] : i \in 1..Len(s)}

RECURSIVE Reach(_, _)
Reach(ns, i) == {i} \cup UNION {Reach(ns, ns[i].kids[j]) : j \in 1..Len(ns[i].kids)}
Contains(ns, i, op) == \E j \in Reach(ns, i) : ns[j].op = op
ContainsRV(ns, i, nm) == \E j \in Reach(ns, i) : ns[j].op = "RandomVariable" /\ ns[j].name = nm

(***************************************************************************)
(* Validity.                                                               *)
(***************************************************************************)
\* rule 5b applies to the estimation object and to any formula that contains the trajectory operator
\* (it is then evaluated individual by individual); other formulas are applied row by row
CtxForE(ns, root, est) == [mc |-> FALSE, rv |-> {}, traj |-> FALSE,
                           rule5b |-> est \/ Contains(ns, root, "PanelLikelihoodTrajectory")]
CtxFor(ns, root) == CtxForE(ns, root, Estimation)

RECURSIVE OK(_, _, _)
OK(ns, i, ctx) ==
  LET n == ns[i]
      Kids(c) == \A j \in 1..Len(n.kids) : OK(ns, n.kids[j], c)
  IN
  CASE n.op = "Variable"       -> n.name \in Columns /\ ((Panel /\ ctx.rule5b) => ctx.traj)
    [] n.op = "bioDraws"       -> ctx.mc
    [] n.op = "RandomVariable" -> n.name \in ctx.rv
    [] n.op = "MonteCarlo"     -> /\ ~ctx.mc
                                  /\ Contains(ns, n.kids[1], "bioDraws")
                                  /\ ~Contains(ns, n.kids[1], "MonteCarlo")
                                  /\ (Panel => Contains(ns, n.kids[1], "PanelLikelihoodTrajectory"))
                                  /\ Kids([ctx EXCEPT !.mc = TRUE])
    [] n.op = "Integrate"      -> /\ ContainsRV(ns, n.kids[1], n.name)
                                  /\ Kids([ctx EXCEPT !.rv = @ \cup {n.name}])
    [] n.op = "PanelLikelihoodTrajectory" -> Panel /\ Kids([ctx EXCEPT !.traj = TRUE])
    \* rule 6b: choice and availabilities are functions of the data and parameters only (the
    \* library evaluates them row by row when the model is audited)
    [] n.op = "_bioLogLogit"   -> /\ n.keys = n.avkeys /\ Kids(ctx)
                                  /\ \A j \in {1} \cup {2 * q + 1 : q \in 1..Len(n.avkeys)} :
                                        j <= Len(n.kids) =>
                                          ~Contains(ns, n.kids[j], "bioDraws") /\ ~Contains(ns, n.kids[j], "RandomVariable")
    \* logit given by separate key lists: kids = <<choice, utilities (one per key), availabilities (one per avkey)>>;
    \* valid iff the two key SETS coincide (neither may have an extra alternative)
    [] n.op = "_bioLogLogitKeys" -> /\ SeqToSet(n.keys) = SeqToSet(n.avkeys) /\ Kids(ctx)
    [] n.op = "_bioLogLogitFullChoiceSet" ->
                                  /\ Kids(ctx)
                                  /\ ~Contains(ns, n.kids[1], "bioDraws") /\ ~Contains(ns, n.kids[1], "RandomVariable")
    [] n.op = "Catalog"        -> OK(ns, n.kids[1], ctx)      \* delegates to the selected (first) member
    [] OTHER                   -> Kids(ctx)

\* one name, one kind -- every column of the data is a variable, used or not
KindOf(op) == IF op = "Variable" THEN "column" ELSE op
NameKinds(ns, root) ==
    {<<ns[i].name, KindOf(ns[i].op)>> : i \in {j \in Reach(ns, root) : ns[j].op \in {"Beta", "Variable", "bioDraws", "RandomVariable"}}}
      \cup {<<c, "column">> : c \in Columns}
OneKindPerName(ns, root) ==
    \A a, b \in NameKinds(ns, root) : a[1] = b[1] => a[2] = b[2]

Valid(ns, root) == OK(ns, root, CtxFor(ns, root)) /\ OneKindPerName(ns, root)
\* validity if the formula were applied row by row (rule 5b only when the formula itself contains the trajectory)
ValidRowwise(ns, root) == OK(ns, root, CtxForE(ns, root, FALSE)) /\ OneKindPerName(ns, root)
\* validity with rule 5b (variables below the trajectory on panel data) left out altogether
ValidNo5b(ns, root) == OK(ns, root, [mc |-> FALSE, rv |-> {}, traj |-> FALSE, rule5b |-> FALSE]) /\ OneKindPerName(ns, root)

\* which rule is broken (for the report; several may be)
Broken(ns, root) ==
    (IF \E i \in Reach(ns, root) : ns[i].op = "Variable" /\ ns[i].name \notin Columns THEN {"unknown-column"} ELSE {})
    \cup (IF ~OneKindPerName(ns, root) THEN {"name-two-kinds"} ELSE {})
    \cup (IF ~OK(ns, root, CtxFor(ns, root)) THEN {"placement"} ELSE {})

(***************************************************************************)
(* Generator: operators appended one at a time, operands over all earlier  *)
(* nodes (ExprLang's scheme), thinned modulo a residue class.              *)
(***************************************************************************)
AllOpNames == <<"UnaryMinus", "exp", "sin", "cos", "bioNormalCdf", "PowerConstant", "Plus", "Minus", "Times",
                "bioMin", "bioMax", "And", "Or", "Equal", "NotEqual", "LessOrEqual", "GreaterOrEqual", "Less",
                "Greater", "bioMultSum", "BelongsTo", "Elem", "ConditionalSum", "bioLinearUtility", "_bioLogLogit",
                "_bioLogLogitFullChoiceSet", "MonteCarlo", "Integrate", "PanelLikelihoodTrajectory", "Catalog",
                "_bioLogLogitBadKeys", "_bioLogLogitKeys">>
IndexOf(s, x) == CHOOSE i \in 1..Len(s) : s[i] = x
RECURSIVE HashSeq(_, _)
HashSeq(sq, acc) == IF sq = << >> THEN acc ELSE HashSeq(Tail(sq), (acc * 31 + Head(sq) + 7) % 1000003)
Hash(n) == HashSeq(n.kids, (IndexOf(AllOpNames, n.op) * 131 + Len(n.avkeys)) % 1000003)
RECURSIVE IPow(_, _)
IPow(b, e) == IF e = 0 THEN 1 ELSE b * IPow(b, e - 1)
Accept(n, lvl) == LET b == Thin[IF lvl <= Len(Thin) THEN lvl ELSE Len(Thin)]
                      m == IF Chain THEN b ELSE IPow(b, IF Len(n.kids) <= 5 THEN Len(n.kids) - 1 ELSE 4)
                  IN  b = 1 \/ (~Chain /\ n.op = "_bioLogLogitKeys") \/ (Hash(n) + Salt) % m = 0     \* the key-list cases are few: all kept
Unused(ns) == {i \in (NL + 1)..Len(ns) :
                 ~\E j \in (i + 1)..Len(ns) : \E q \in 1..Len(ns[j].kids) : ns[j].kids[q] = i}
Useful(n) == (NOps(nodes) + 1 = MaxOps) => Unused(nodes) \subseteq SeqToSet(n.kids)
ChainOK(n) ==
    ~Chain \/
    IF NOps(nodes) = 0
    THEN /\ n.op \in {"_bioLogLogit", "_bioLogLogitKeys"} /\ n.keys # n.avkeys
         /\ \A q \in 1..Len(n.kids) : n.kids[q] \in KeyLeaves
    ELSE /\ \E q \in 1..Len(n.kids) : n.kids[q] = Len(nodes)
         /\ \A q \in 1..Len(n.kids) : n.kids[q] = Len(nodes) \/ n.kids[q] \in KeyLeaves
Try(n) == IF Useful(n) /\ ChainOK(n) /\ Accept(n, NOps(nodes) + 1) THEN nodes' = Append(nodes, n) /\ UNCHANGED done ELSE FALSE

Init == nodes = InitNodes /\ done = FALSE
CanAdd == ~done /\ NOps(nodes) < MaxOps
Idx == 1..Len(nodes)
\* key / choice slots: a key-valued leaf, a fault leaf, or (to put faults deeper) an operator node
\* that is a binder or Elem/min/max over key-valued operands is NOT generated: keys stay leaves
KeySlot == KeyLeaves \cup FaultLeaves
AvSlot  == 1..NL
\* draws and integration variables: not faults below their binder, but never key-valued
ValueLeaves == {i \in 1..NL : Leaves[i].kind \in {"bioDraws", "RandomVariable"}}
RvNames == {Leaves[i].name : i \in {j \in 1..NL : Leaves[j].kind = "RandomVariable"}}
BetaLeaves == {i \in 1..NL : Leaves[i].kind = "Beta"}
VarLeaves  == {i \in 1..NL : Leaves[i].kind = "Variable"}

AddOp == CanAdd /\
    \/ \E o \in PlainUn, a \in Idx : Try(Node(o, <<a>>, "", << >>, << >>))
    \/ \E o \in PlainBin, a, b \in Idx : Try(Node(o, <<a, b>>, "", << >>, << >>))
    \/ "MonteCarlo" \in Special /\ \E a \in Idx : Try(Node("MonteCarlo", <<a>>, "", << >>, << >>))
    \* (a trajectory operator below another one is not a formula of the language: the operator applies to quantities of
    \*  one observation; the engine has no meaning for it -- such DAGs are not generated)
    \/ "PanelLikelihoodTrajectory" \in Special /\ \E a \in Idx : ~Contains(nodes, a, "PanelLikelihoodTrajectory")
                                                               /\ Try(Node("PanelLikelihoodTrajectory", <<a>>, "", << >>, << >>))
    \/ "Integrate" \in Special /\ \E a \in Idx, nm \in RvNames : Try(Node("Integrate", <<a>>, nm, << >>, << >>))
    \/ "bioMultSum" \in Special /\ \E a, b \in Idx : Try(Node("bioMultSum", <<a, b>>, "", << >>, << >>))
    \/ "BelongsTo" \in Special /\ \E a \in Idx : Try(Node("BelongsTo", <<a>>, "", <<1, 3>>, << >>))
    \/ "Elem" \in Special /\ \E k \in KeySlot \ ValueLeaves, a, b \in Idx : Try(Node("Elem", <<k, a, b>>, "", <<1, 3>>, << >>))
    \/ "ConditionalSum" \in Special /\ \E c, a, b \in Idx : Try(Node("ConditionalSum", <<c, a, c, b>>, "", << >>, << >>))
    \/ "bioLinearUtility" \in Special /\ \E b \in BetaLeaves, v \in VarLeaves :
          Try(Node("bioLinearUtility", <<b, v>>, "", << >>, << >>))
    \/ "_bioLogLogit" \in Special /\ \E ch \in KeySlot, av \in AvSlot, u1, u2 \in Idx :
          Try(Node("_bioLogLogit", <<ch, u1, av, u2, av>>, "", <<1, 3>>, <<1, 3>>))
    \/ "_bioLogLogitBadKeys" \in Special /\ \E ch \in KeyLeaves, u1, u2 \in Idx :
          Try(Node("_bioLogLogit", <<ch, u1, 1, u2, 1>>, "", <<1, 3>>, <<1, 2>>))
    \/ "_bioLogLogitKeys" \in Special /\ \E ch \in KeyLeaves, u \in Idx, ak \in {<<1, 3>>, <<3, 1>>, <<1, 3, 2>>, <<1>>, <<1, 2>>} :
          Try(Node("_bioLogLogitKeys", <<ch, u, u>> \o [j \in 1..Len(ak) |-> 1], "", <<1, 3>>, ak))
    \/ "_bioLogLogitFullChoiceSet" \in Special /\ \E ch \in KeySlot, u1, u2 \in Idx :
          Try(Node("_bioLogLogitFullChoiceSet", <<ch, u1, u2>>, "", <<1, 3>>, << >>))
    \* a catalog delegates to its selected (first) member; the unselected member is kept benign
    \/ "Catalog" \in Special /\ \E a \in Idx, b \in (1..NL) \ FaultLeaves : Try(Node("Catalog", <<a, b>>, "", << >>, << >>))

AllUsed(ns) == Unused(ns) \subseteq {Len(ns)}
Emit == ~done /\ NOps(nodes) >= 1 /\ AllUsed(nodes) /\ done' = TRUE /\ UNCHANGED nodes
Next == AddOp \/ Emit
Spec == Init /\ [][Next]_vars

Root == Len(nodes)

(***************************************************************************)
(* Properties of the model itself.                                         *)
(***************************************************************************)
\* a fault-free formula (no fault leaf, no binder, good keys) is valid on non-panel data
FaultFreeValid == done /\ ~(Panel /\ Estimation) =>
    ((\A i \in Reach(nodes, Root) :
         i \notin FaultLeaves /\ nodes[i].op \notin {"MonteCarlo", "Integrate", "PanelLikelihoodTrajectory"}
         /\ (nodes[i].op = "_bioLogLogit" => nodes[i].keys = nodes[i].avkeys)
         /\ (nodes[i].op = "_bioLogLogitKeys" => SeqToSet(nodes[i].keys) = SeqToSet(nodes[i].avkeys)))
     => Valid(nodes, Root))
\* an unknown column or a clashing name is a fault wherever it sits
LeafFaultAlwaysInvalid == done =>
    ((\E i \in Reach(nodes, Root) : nodes[i].op = "Variable" /\ nodes[i].name \notin Columns) => ~Valid(nodes, Root))
\* a draw under no MonteCarlo on some path is a fault under every operator kind
DrawNeedsMC == done =>
    ((Contains(nodes, Root, "bioDraws") /\ ~Contains(nodes, Root, "MonteCarlo")) => ~Valid(nodes, Root))

Emitted == [ops |-> [i \in 1..NOps(nodes) |-> nodes[NL + i]], root |-> Root, nleaves |-> NL,
            valid |-> Valid(nodes, Root), valid_rowwise |-> ValidRowwise(nodes, Root), valid_no5b |-> ValidNo5b(nodes, Root), broken |-> Broken(nodes, Root), panel |-> Panel, estimation |-> Estimation]
EmitInv == done => PrintT(ToJson(Emitted))
=============================================================================
