------------------------------ MODULE Lifecycle ------------------------------
(***************************************************************************)
(* Life cycle of estimation objects (beyond the listed properties).        *)
(*                                                                         *)
(* ONE log likelihood expression, built once, is shared by several BIOGEME *)
(* objects created at different times (the library itself does this in     *)
(* validate(): two fresh objects per slice on the caller's expression).    *)
(* The state a user can observe is spread over three places, and the       *)
(* public calls move values between them:                                  *)
(*                                                                         *)
(*   init       the value carried by the Beta objects of the expression    *)
(*              (shared by every object built on it)                       *)
(*   start[o]   the vector of free parameters object o took at creation    *)
(*              (its id manager) -- what calculate_init_likelihood and the *)
(*              optimiser's starting point use                             *)
(*   fixedv[o]  the value of the fixed parameter object o took at creation *)
(*   iter[m]    the saved-iteration file of model name m                   *)
(*   files      report / pickle files, numbered so that none is replaced   *)
(*                                                                         *)
(* The actions are the public calls, each ONE step with its return value:  *)
(* New, ChangeInitB (on the object), ChangeInitE (on the expression), LL,  *)
(* InitLL, GetBetas, Simulate, Estimate, QuickEstimate, Validate.          *)
(* What the code actually does is modelled, deviations from the naive      *)
(* reading are named:                                                      *)
(*   D1  estimate() writes the estimates into the Beta objects but NOT     *)
(*       into start[o]: calculate_init_likelihood() after an estimation    *)
(*       still reports the value at the old starting point;                *)
(*   D2  the next estimate() of the same model name starts from the saved  *)
(*       iteration file, which moves BOTH init and start[o];               *)
(*   D3  change_init_values on the object does not move fixedv[o]: a fixed *)
(*       parameter keeps, inside the object, the value it had at creation; *)
(*   D4  validate() leaves in the Beta objects the estimates of the LAST   *)
(*       slice's estimation set (not the full-sample estimates given);     *)
(*   D5  quick_estimate() changes neither init nor start[o];               *)
(*   D6  estimate(recycle=True) only reads the latest pickle file of the   *)
(*       model NAME: with a shared name, possibly another object's.        *)
(*                                                                         *)
(* Model: LL(D, b, a) = - sum_{k in D} A1 (b1 - C1 x_k)^2                  *)
(*                                    + A2 (b2 - C2 x_k - a)^2             *)
(* concave, unique maximiser b1 = C1 mean_D(x), b2 = C2 mean_D(x) + a.     *)
(* All numbers are exact rationals (Term).                                 *)
(***************************************************************************)
EXTENDS Integers, Sequences, FiniteSets, TLC, Json, Term

CONSTANTS
    A1, A2, C1, C2,   \* integer coefficients
    Xs,               \* data column, one rational per row
    Init0,            \* [b1, b2, a] initial values written in the expression
    Dicts,            \* set of partial dictionaries: [b1 |-> [set, v], b2 |-> [set, v], a |-> [set, v]]
    Points,           \* set of [b1, b2] at which the likelihood is asked
    DataSets,         \* set of sets of row indices an object can be built on
    Slices,           \* sequence of [est |-> rows, val |-> rows] used by Validate
    Objs,             \* object identities
    ModelNames,       \* model names an object can be given (integers: name "m<k>"); objects may share one
    MaxSteps

VARIABLES init, live, start, fixedv, data, mname, best, iter, nrep, nval, results, lastres, tinit, tstart, hist, done
vars == <<init, live, start, fixedv, data, mname, best, iter, nrep, nval, results, lastres, tinit, tstart, hist, done>>

Rows == 1..Len(Xs)
None == [set |-> FALSE]
Some(p) == [set |-> TRUE, p |-> p]

\* model names: an object is called "m<k>" (k chosen at creation; two objects may be given the same name and
\* then share their files); the objects validate() creates are called "m<k>_val_est_<slice>"
MName(o) == <<"m", mname[o], 0>>
VName(o, k) == <<"v", mname[o], k>>
AllNames == {<<"m", m, 0>> : m \in ModelNames} \cup {<<"v", m, k>> : m \in ModelNames, k \in 1..Len(Slices)}

(***************************************************************************)
(* The likelihood and its maximiser.                                       *)
(***************************************************************************)
Sq(q) == QMul(q, q)
RowLL(k, b, a) == QNeg(QAdd(QMul(I(A1), Sq(QSub(b.b1, QMul(I(C1), Xs[k])))),
                            QMul(I(A2), Sq(QSub(QSub(b.b2, QMul(I(C2), Xs[k])), a)))))
RECURSIVE SumOver(_, _, _)
SumOver(D, b, a) == IF D = {} THEN Zero
                    ELSE LET k == CHOOSE r \in D : \A s \in D : r <= s
                         IN  QAdd(RowLL(k, b, a), SumOver(D \ {k}, b, a))
RECURSIVE SumX(_)
SumX(D) == IF D = {} THEN Zero ELSE LET k == CHOOSE r \in D : TRUE IN QAdd(Xs[k], SumX(D \ {k}))
Mean(D) == QDiv(SumX(D), I(Cardinality(D)))
Optimum(D, a) == [b1 |-> QMul(I(C1), Mean(D)), b2 |-> QAdd(QMul(I(C2), Mean(D)), a)]
SortedRows(D) == LET RECURSIVE S(_)
                     S(T) == IF T = {} THEN << >>
                             ELSE LET k == CHOOSE r \in T : \A s \in T : r <= s IN <<k>> \o S(T \ {k})
                 IN S(D)
PerRow(D, b, a) == LET sr == SortedRows(D) IN [j \in 1..Len(sr) |-> RowLL(sr[j], b, a)]

Override(b, d) == [b1 |-> IF d.b1.set THEN d.b1.v ELSE b.b1, b2 |-> IF d.b2.set THEN d.b2.v ELSE b.b2]
B(i) == [b1 |-> i.b1, b2 |-> i.b2]

(***************************************************************************)
(* Observable projection and history.                                      *)
(***************************************************************************)
C(t) == <<t.n, t.d>>
CB(b) == [b1 |-> C(b.b1), b2 |-> C(b.b2)]
Proj(i, lv, st, fx, it, nr, nv) ==
    [init   |-> [b1 |-> C(i.b1), b2 |-> C(i.b2), a |-> C(i.a)],
     objs   |-> {[o |-> o, start |-> CB(st[o]), fixed |-> C(fx[o])] : o \in lv},
     nval   |-> {<<m, nv[m]>> : m \in {k \in ModelNames : nv[k] > 0}},
     reports |-> {<<nm, nr[nm]>> : nm \in {n \in AllNames : nr[n] > 0}},
     iters  |-> {nm \in AllNames : it[nm].set}]
Step(act, o, arg, ret, exact) ==
    [act |-> act, obj |-> o, arg |-> arg, ret |-> ret, exact |-> exact,
     st |-> Proj(init', live', start', fixedv', iter', nrep', nval')]
Log(act, o, arg, ret, exact) == hist' = Append(hist, Step(act, o, arg, ret, exact))

(***************************************************************************)
(* Actions.                                                                *)
(***************************************************************************)
Init == /\ init = Init0
        /\ live = {}
        /\ start = [o \in Objs |-> B(Init0)]
        /\ fixedv = [o \in Objs |-> Init0.a]
        /\ data = [o \in Objs |-> Rows]
        /\ mname = [o \in Objs |-> CHOOSE m \in ModelNames : TRUE]
        /\ best = [o \in Objs |-> FALSE]
        /\ lastres = [nm \in AllNames |-> None]
        /\ iter = [nm \in AllNames |-> None]
        /\ nrep = [nm \in AllNames |-> 0]
        /\ nval = [m \in ModelNames |-> 0]
        /\ results = [o \in Objs |-> None]
        /\ tinit = FALSE
        /\ tstart = [o \in Objs |-> FALSE]
        /\ hist = << >>
        /\ done = FALSE

Going == ~done /\ Len(hist) < MaxSteps

\* a new object takes a snapshot of the values carried by the expression
New(o, D, m) == /\ Going /\ o \notin live
             /\ mname' = [mname EXCEPT ![o] = m]
             /\ live' = live \cup {o}
             /\ start' = [start EXCEPT ![o] = B(init)]
             /\ fixedv' = [fixedv EXCEPT ![o] = init.a]
             /\ data' = [data EXCEPT ![o] = D]
             /\ tstart' = [tstart EXCEPT ![o] = tinit]
             /\ UNCHANGED <<init, best, iter, nrep, nval, results, lastres, tinit, done>>
             /\ Log("new", o, [rows |-> SortedRows(D), name |-> m], "none", TRUE)

DArg(d) == [b1 |-> IF d.b1.set THEN <<C(d.b1.v)>> ELSE << >>,
            b2 |-> IF d.b2.set THEN <<C(d.b2.v)>> ELSE << >>,
            a  |-> IF d.a.set  THEN <<C(d.a.v)>>  ELSE << >>]

\* on the object: the expression AND the object's own vector of free parameters (D3: not fixedv)
ChangeInitB(o, d) == /\ Going /\ o \in live
                     /\ init' = [b1 |-> Override(B(init), d).b1, b2 |-> Override(B(init), d).b2,
                                 a |-> IF d.a.set THEN d.a.v ELSE init.a]
                     /\ start' = [start EXCEPT ![o] = Override(start[o], d)]
                     /\ UNCHANGED <<live, fixedv, data, mname, best, iter, nrep, nval, results, lastres, tinit, tstart, done>>
                     /\ Log("change_init_object", o, DArg(d), "none", TRUE)

\* on the expression only
ChangeInitE(d) == /\ Going
                  /\ init' = [b1 |-> Override(B(init), d).b1, b2 |-> Override(B(init), d).b2,
                              a |-> IF d.a.set THEN d.a.v ELSE init.a]
                  /\ UNCHANGED <<live, start, fixedv, data, mname, best, iter, nrep, nval, results, lastres, tinit, tstart, done>>
                  /\ Log("change_init_expression", 0, DArg(d), "none", TRUE)

Same == UNCHANGED <<init, live, start, fixedv, data, mname, best, iter, nrep, nval, results, lastres, tinit, tstart, done>>

LLAt(o, p) == /\ Going /\ o \in live /\ Same
              /\ Log("likelihood", o, CB(p), C(SumOver(data[o], p, fixedv[o])), TRUE)
InitLL(o) == /\ Going /\ o \in live /\ Same
             /\ Log("init_likelihood", o, "none", C(SumOver(data[o], start[o], fixedv[o])), ~tstart[o])
GetBetas(o) == /\ Going /\ o \in live /\ Same
               /\ Log("get_beta_values", o, "none", CB(B(init)), ~tinit)
Simulate(o, p) == /\ Going /\ o \in live /\ Same
                  /\ Log("simulate", o, CB(p), [j \in 1..Cardinality(data[o]) |-> C(PerRow(data[o], p, fixedv[o])[j])], TRUE)

\* estimate(): D2 (saved iterations first), optimum, D1 (estimates go to the expression only), files
Estimate(o) ==
    LET nm == MName(o)
        opt == Optimum(data[o], fixedv[o])
    IN  /\ Going /\ o \in live
        /\ start' = [start EXCEPT ![o] = IF iter[nm].set THEN iter[nm].p ELSE start[o]]
        /\ tstart' = [tstart EXCEPT ![o] = tstart[o] \/ iter[nm].set]
        /\ init' = [b1 |-> opt.b1, b2 |-> opt.b2, a |-> init.a]
        /\ tinit' = TRUE
        /\ iter' = [iter EXCEPT ![nm] = Some(opt)]
        /\ nrep' = [nrep EXCEPT ![nm] = @ + 1]
        /\ results' = [results EXCEPT ![o] = Some(opt)]
        /\ lastres' = [lastres EXCEPT ![nm] = Some([b |-> opt, ll |-> SumOver(data[o], opt, fixedv[o])])]
        /\ best' = [best EXCEPT ![o] = TRUE]
        /\ UNCHANGED <<live, fixedv, data, mname, nval, done>>
        /\ Log("estimate", o, "none", [betas |-> CB(opt), ll |-> C(SumOver(data[o], opt, fixedv[o]))], FALSE)

\* quick_estimate(): D5
QuickEstimate(o) ==
    LET nm == MName(o)
        opt == Optimum(data[o], fixedv[o])
    IN  /\ Going /\ o \in live
        \* the object remembers the best value it has saved (estimate() forgets it, quick_estimate() does not):
        \* when another object of the same name has meanwhile written the file, whether this one overwrites
        \* it depends on rounding -- those histories are left out
        /\ (best[o] => iter[nm] = Some(opt))
        /\ iter' = [iter EXCEPT ![nm] = Some(opt)]
        /\ best' = [best EXCEPT ![o] = TRUE]
        /\ UNCHANGED <<init, live, start, fixedv, data, mname, nrep, nval, results, lastres, tinit, tstart, done>>
        /\ Log("quick_estimate", o, "none", [betas |-> CB(opt), ll |-> C(SumOver(data[o], opt, fixedv[o]))], FALSE)

\* validate(results of o): per slice a fresh estimation object and a fresh simulation object on the SAME
\* expression; both take the CURRENT value of the fixed parameter from the expression
RECURSIVE ValOpts(_, _)
ValOpts(k, a) == IF k = 0 THEN << >> ELSE Append(ValOpts(k - 1, a), Optimum(Slices[k].est, a))
Validate(o) ==
    LET a == init.a
        opts == ValOpts(Len(Slices), a)
        last == opts[Len(Slices)]
    IN  /\ Going /\ o \in live /\ results[o].set
        /\ init' = [b1 |-> last.b1, b2 |-> last.b2, a |-> a]                                    \* D4
        /\ tinit' = TRUE
        /\ iter' = [nm \in AllNames |-> IF \E k \in 1..Len(Slices) : nm = VName(o, k)
                                        THEN Some(opts[CHOOSE k \in 1..Len(Slices) : nm = VName(o, k)])
                                        ELSE iter[nm]]
        /\ nrep' = [nm \in AllNames |-> IF \E k \in 1..Len(Slices) : nm = VName(o, k) THEN nrep[nm] + 1 ELSE nrep[nm]]
        /\ nval' = [nval EXCEPT ![mname[o]] = @ + 1]
        /\ lastres' = [nm \in AllNames |-> IF \E k \in 1..Len(Slices) : nm = VName(o, k)
                                           THEN LET k == CHOOSE j \in 1..Len(Slices) : nm = VName(o, j)
                                                IN  Some([b |-> opts[k], ll |-> SumOver(Slices[k].est, opts[k], a)])
                                           ELSE lastres[nm]]
        /\ UNCHANGED <<live, start, fixedv, data, mname, best, results, tstart, done>>
        /\ Log("validate", o, "none",
               [k \in 1..Len(Slices) |->
                   LET vr == Slices[k].val IN [j \in 1..Cardinality(vr) |-> C(PerRow(vr, opts[k], a)[j])]], FALSE)

\* estimate(recycle=True): D6 -- the results of the most recent pickle file of the model name are returned
\* and NOTHING else happens (no optimisation, no new file, the expression keeps its values)
Recycle(o) ==
    /\ Going /\ o \in live /\ nrep[MName(o)] > 0 /\ Same
    /\ Log("estimate_recycle", o, "none",
           [betas |-> CB(lastres[MName(o)].p.b), ll |-> C(lastres[MName(o)].p.ll)], FALSE)

Finish == ~done /\ Len(hist) = MaxSteps /\ done' = TRUE
          /\ UNCHANGED <<init, live, start, fixedv, data, mname, best, iter, nrep, nval, results, lastres, tinit, tstart, hist>>

Next == \/ \E o \in Objs, D \in DataSets, m \in ModelNames : New(o, D, m)
        \/ \E o \in Objs, d \in Dicts : ChangeInitB(o, d)
        \/ \E d \in Dicts : ChangeInitE(d)
        \/ \E o \in Objs, p \in Points : LLAt(o, p) \/ Simulate(o, p)
        \/ \E o \in Objs : InitLL(o) \/ GetBetas(o) \/ Estimate(o) \/ QuickEstimate(o) \/ Validate(o) \/ Recycle(o)
        \/ Finish
Spec == Init /\ [][Next]_vars

(***************************************************************************)
(* Properties of the model.                                                *)
(***************************************************************************)
\* what an object answers for an explicit point never depends on the history: only on its own snapshot
LLIsAFunctionOfTheObject ==
    [][\A o \in live : data'[o] = data[o] /\ fixedv'[o] = fixedv[o]]_vars
\* the maximiser really is one: no offered point does better
OptimumDominates ==
    \A o \in live : \A p \in Points :
        QLeq(SumOver(data[o], p, fixedv[o]), SumOver(data[o], Optimum(data[o], fixedv[o]), fixedv[o]))
\* report files are only ever added (the numbering never goes back)
FilesOnlyGrow == [][\A nm \in AllNames : nrep'[nm] >= nrep[nm] /\ (iter[nm].set => iter'[nm].set)]_vars
\* D1 + D5: only New, ChangeInitB and a reload of saved iterations move an object's starting point
StartMovesOnlyByNamedSteps ==
    [][\A o \in live : start'[o] # start[o] =>
          \/ \E d \in Dicts : start'[o] = Override(start[o], d)
          \/ (iter[MName(o)].set /\ start'[o] = iter[MName(o)].p)]_vars
\* a saved-iteration file always holds the maximiser of SOME object of that name (the last writer)
IterHoldsOptimum ==
    \A m \in ModelNames : iter[<<"m", m, 0>>].set =>
        \E o \in live : mname[o] = m /\ iter[<<"m", m, 0>>].p = Optimum(data[o], fixedv[o])
\* what recycling returns was produced by an object of that name, on that object's data
RecycledBelongsToTheName ==
    \A m \in ModelNames : lastres[<<"m", m, 0>>].set =>
        \E o \in live : mname[o] = m /\ lastres[<<"m", m, 0>>].p.b = Optimum(data[o], fixedv[o])

Emitted == [steps |-> hist]
EmitInv == done => PrintT(ToJson(Emitted))
=============================================================================
