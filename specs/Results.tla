------------------------------ MODULE Results ------------------------------
(***************************************************************************)
(* The estimation report of biogeme: what every reported figure IS, given  *)
(* the raw outcome of an estimation.  Written from the defining formulas   *)
(* (DESIGN.md appendix B.4, the docstrings of results.py), not from the    *)
(* code.                                                                   *)
(*                                                                         *)
(* Raw outcome (record):                                                   *)
(*   id     model name (string)                                            *)
(*   K      number of estimated parameters, names (strings, in the order   *)
(*          of the estimates), theta (rationals), lb / ub optional bounds  *)
(*   N      sample size, nobs number of observations, excl excluded rows   *)
(*   L      final log likelihood, L0 initial, Ln null (both optional)      *)
(*   g      gradient (integers), H Hessian, B BHHH (integer KxK matrices)  *)
(*   hs, bs positive rational scale factors: the Hessian of the outcome is *)
(*          hs * H and its BHHH is bs * B, so that entries such as 1/3 or  *)
(*          -9/7, which no binary floating-point number represents, occur  *)
(*          (a singular hs * H is then in general NOT exactly singular     *)
(*          once the driver has rounded its entries to floats)             *)
(*   boot   optional R x K integer matrix of bootstrap replications        *)
(*   mc     Monte-Carlo flag (adds pass-through rows to the general table) *)
(* Optional values are records [ex |-> BOOLEAN, v |-> value]: TLC equality *)
(* is typed.  Optional RESULTS are records [def |-> BOOLEAN, v |-> term].  *)
(*                                                                         *)
(* Actions: Choose (an outcome arrives), Compute (the statistics), Report  *)
(* (the tabular views of one model), Compile (several models side by side  *)
(* and the likelihood-ratio tests between them).  A finished behaviour is  *)
(* printed with every expected figure and every expected table cell        *)
(* (row label, column label) -> named quantity.                            *)
(*                                                                         *)
(* Arithmetic: matrices are integer matrices over one common denominator   *)
(* (TLC has 32-bit integers), entries become exact rationals of module     *)
(* Term; sqrt, log, Phi and the chi-square quantile stay uninterpreted     *)
(* primitives that only the driver evaluates.                              *)
(***************************************************************************)
EXTENDS Integers, Sequences, FiniteSets, TLC, Json, Term

CONSTANTS
    Outcomes,     \* the set of raw outcomes explored
    Companions,   \* sequence of raw outcomes compiled side by side with the current one
    CompileStats, \* sequence of general-statistics labels requested in the compiled table
    Mutant        \* "none", or the name of a seeded defect (negative controls on the model)

VARIABLES phase, raw, stats, tables, compiled
vars == <<phase, raw, stats, tables, compiled>>

Nothing == [ex |-> FALSE]
Absent     == [ex |-> FALSE, v |-> Zero]
Present(x) == [ex |-> TRUE, v |-> x]
Opt(b, x)  == [def |-> b, v |-> IF b THEN x ELSE Zero]
QAbs(x)    == IF x.n < 0 THEN QNeg(x) ELSE x
\* product / quotient of two rationals, cancelling across BEFORE multiplying (32-bit integers of TLC)
QMulX(x, y) == LET g1 == Gcd(Abs(x.n), y.d)
                   g2 == Gcd(Abs(y.n), x.d)
               IN  Q((x.n \div g1) * (y.n \div g2), (x.d \div g2) * (y.d \div g1))
QDivX(x, y) == QMulX(x, QInv(y))

(***************************************************************************)
(* Integer matrices (sequences of rows).                                   *)
(***************************************************************************)
RECURSIVE SumN(_, _)
SumN(f, n) == IF n = 0 THEN 0 ELSE f[n] + SumN(f, n - 1)

MZero(n)       == [i \in 1..n |-> [j \in 1..n |-> 0]]
MId(n)         == [i \in 1..n |-> [j \in 1..n |-> IF i = j THEN 1 ELSE 0]]
MNeg(A, n)     == [i \in 1..n |-> [j \in 1..n |-> -A[i][j]]]
MScale(c, A, n) == [i \in 1..n |-> [j \in 1..n |-> c * A[i][j]]]
MSub(A, B, n)  == [i \in 1..n |-> [j \in 1..n |-> A[i][j] - B[i][j]]]
MMul(A, B, n)  == [i \in 1..n |-> [j \in 1..n |-> SumN([k \in 1..n |-> A[i][k] * B[k][j]], n)]]
MTrace(A, n)   == SumN([k \in 1..n |-> A[k][k]], n)
MIsSym(A, n)   == \A i, j \in 1..n : A[i][j] = A[j][i]
MIsZero(A, n)  == \A i, j \in 1..n : A[i][j] = 0

DropAt(s, i)   == [k \in 1..(Len(s) - 1) |-> IF k < i THEN s[k] ELSE s[k + 1]]
Minor(A, i, j) == LET R == DropAt(A, i) IN [r \in 1..Len(R) |-> DropAt(R[r], j)]
Sgn(k)         == IF k % 2 = 0 THEN 1 ELSE -1
RECURSIVE Det(_, _)
Det(A, n) == IF n = 0 THEN 1
             ELSE IF n = 1 THEN A[1][1]
             ELSE SumN([j \in 1..n |-> Sgn(1 + j) * A[1][j] * Det(Minor(A, 1, j), n - 1)], n)
Adj(A, n) == [i \in 1..n |-> [j \in 1..n |-> Sgn(i + j) * Det(Minor(A, j, i), n - 1)]]
\* second elementary symmetric function of the eigenvalues = sum of the principal 2x2 minors
E2(A, n)  == SumN([i \in 1..n |-> SumN([j \in 1..n |->
                 IF j < i THEN A[i][i] * A[j][j] - A[i][j] * A[j][i] ELSE 0], n)], n)

\* positive semi-definite (symmetric A, n <= 3): every principal minor is >= 0
MIsPSD(A, n) == /\ MIsSym(A, n)
                /\ \A i \in 1..n : A[i][i] >= 0
                /\ \A i, j \in 1..n : i < j => A[i][i] * A[j][j] - A[i][j] * A[j][i] >= 0
                /\ Det(A, n) >= 0
MIsPD(A, n)  == /\ MIsSym(A, n)
                /\ \A m \in 1..n : Det([i \in 1..m |-> [j \in 1..m |-> A[i][j]]], m) > 0

(***************************************************************************)
(* Rational matrices: integer numerators over one common denominator > 0.  *)
(***************************************************************************)
RECURSIVE GcdSeq(_)
GcdSeq(s) == IF s = << >> THEN 0 ELSE Gcd(Abs(Head(s)), GcdSeq(Tail(s)))
GcdM(A, n) == GcdSeq([i \in 1..n |-> GcdSeq(A[i])])

RM(num, den, n) ==
    LET s == IF den < 0 THEN -1 ELSE 1
        g == Gcd(Abs(den), GcdM(num, n))
    IN  [num |-> [i \in 1..n |-> [j \in 1..n |-> (s * num[i][j]) \div g]], den |-> (s * den) \div g]
RMEntry(M, i, j) == Q(M.num[i][j], M.den)

(***************************************************************************)
(* Moore-Penrose inverse of a SYMMETRIC integer matrix of order n <= 3.    *)
(* With r the rank and p the monic polynomial whose roots are the non-zero *)
(* eigenvalues, 1/lambda is a polynomial in lambda on those roots that     *)
(* vanishes at 0:                                                          *)
(*   r = n : adj(A)/det(A)                                                 *)
(*   r = 0 : 0                                                             *)
(*   r = 1 : A / tr(A)^2                    (lambda = tr A)                *)
(*   r = 2 : A (e1 I - A)^2 / e2^2          (lambda^2 - e1 lambda + e2 = 0)*)
(* The invariant Penrose re-checks the four defining conditions.           *)
(***************************************************************************)
SymRank(A, n) == IF Det(A, n) # 0 THEN n
                 ELSE IF n = 3 /\ E2(A, n) # 0 THEN 2
                 ELSE IF MIsZero(A, n) THEN 0 ELSE 1

PInvSym(A, n) ==
    LET r == SymRank(A, n) IN
    IF r = n THEN RM(Adj(A, n), Det(A, n), n)
    ELSE IF r = 0 THEN RM(MZero(n), 1, n)
    ELSE IF r = 1 THEN RM(A, MTrace(A, n) * MTrace(A, n), n)
    ELSE LET e1 == MTrace(A, n)
             e2 == E2(A, n)
             C  == MSub(MScale(e1, MId(n), n), A, n)
         IN  RM(MMul(A, MMul(C, C, n), n), e2 * e2, n)

PenroseHolds(A, X, n) ==     \* X = [num, den] is the Moore-Penrose inverse of A
    /\ MMul(A, MMul(X.num, A, n), n) = MScale(X.den, A, n)
    /\ MMul(X.num, MMul(A, X.num, n), n) = MScale(X.den, X.num, n)
    /\ MIsSym(MMul(A, X.num, n), n)
    /\ MIsSym(MMul(X.num, A, n), n)
\* the same for the rational matrix (s.n / s.d) A:  (s A) X (s A) = s A,  X (s A) X = X,  (s A) X and X (s A) symmetric
PenroseHoldsScaled(A, s, X, n) ==
    /\ MScale(s.n, MMul(A, MMul(X.num, A, n), n), n) = MScale(s.d * X.den, A, n)
    /\ MScale(s.n, MMul(X.num, MMul(A, X.num, n), n), n) = MScale(s.d * X.den, X.num, n)
    /\ MIsSym(MMul(A, X.num, n), n)
    /\ MIsSym(MMul(X.num, A, n), n)

(***************************************************************************)
(* The three variance-covariance estimators.                               *)
(***************************************************************************)
\* The Hessian is hs * H and the BHHH is bs * B with rationals hs, bs > 0.  The Moore-Penrose inverse of
\* s A is (1/s) A^+ (s # 0): the four Penrose conditions are homogeneous (invariant Penrose checks them
\* on the scaled matrix).
ClassicalCov(o) ==                                              \* (-(hs H))^+ = (1/hs) (-H)^+
    LET V0 == PInvSym(MNeg(o.H, o.K), o.K) IN RM(MScale(o.hs.d, V0.num, o.K), V0.den * o.hs.n, o.K)
RobustCov(o) ==                                                 \* V (bs B) V with V = (-(hs H))^+
    LET V == ClassicalCov(o)
    IN  RM(MScale(o.bs.n, MMul(V.num, MMul(o.B, V.num, o.K), o.K), o.K), V.den * V.den * o.bs.d, o.K)
RankH(o) == SymRank(MNeg(o.H, o.K), o.K)                        \* rank of the Hessian (a scale > 0 keeps it)
BootCov(o) ==                                                   \* unbiased sample covariance
    LET X == o.boot.r
        R == Len(X)
        S1(i)    == SumN([r \in 1..R |-> X[r][i]], R)
        S2(i, j) == SumN([r \in 1..R |-> X[r][i] * X[r][j]], R)
    IN  RM([i \in 1..o.K |-> [j \in 1..o.K |-> R * S2(i, j) - S1(i) * S1(j)]], R * (R - 1), o.K)

FamNames == <<"cls", "rob", "boot">>
FamExists(o, F) == F # "boot" \/ o.boot.ex
CovOf(o, F) == IF F = "cls" THEN ClassicalCov(o)
               ELSE IF F = "rob" THEN RobustCov(o)
               ELSE IF o.boot.ex THEN BootCov(o) ELSE RM(MZero(o.K), 1, o.K)

(***************************************************************************)
(* se -> t -> p, correlations and pairwise tests inside ONE family.        *)
(***************************************************************************)
Sqrt(x)      == App("sqrt", <<x>>)
PValue(abst) == App("mul", <<I(2), App("sub", <<One, App("phi", <<abst>>)>>)>>)    \* 2 (1 - Phi(|t|))

RECURSIVE Pairs(_)
Pairs(n) == IF n <= 1 THEN << >> ELSE Pairs(n - 1) \o [j \in 1..(n - 1) |-> <<n, j>>]

\* C: covariance the family reports; P: covariance whose t-statistic feeds the p-values
\* (the same matrix, unless a seeded defect says otherwise)
FamilyStats(o, C, P, ex) ==
    LET n == o.K
        var(M, i)  == RMEntry(M, i, i)
        pos(M, i)  == M.num[i][i] > 0
        pnum(M, i, j) == M.num[i][i] + M.num[j][j] - 2 * M.num[i][j]
        pvar(M, i, j) == Q(pnum(M, i, j), M.den)
        d(i, j)    == QSub(o.theta[i], o.theta[j])
    IN
    [ex     |-> ex,
     cov    |-> [i \in 1..n |-> [j \in 1..n |-> RMEntry(C, i, j)]],
     allpos |-> \A i \in 1..n : pos(C, i),
     se     |-> [i \in 1..n |-> Opt(pos(C, i), Sqrt(var(C, i)))],
     t      |-> [i \in 1..n |-> Opt(pos(C, i), Div(o.theta[i], Sqrt(var(C, i))))],
     t2     |-> [i \in 1..n |-> Opt(pos(C, i), QDivX(QMul(o.theta[i], o.theta[i]), var(C, i)))],
     p      |-> [i \in 1..n |-> Opt(pos(P, i), PValue(Div(QAbs(o.theta[i]), Sqrt(var(P, i)))))],
     pairs  |-> [k \in 1..Len(Pairs(n)) |->
                   LET i == Pairs(n)[k][1]
                       j == Pairs(n)[k][2]
                       both == pos(C, i) /\ pos(C, j)
                   IN
                   [i     |-> i, j |-> j,
                    cov   |-> RMEntry(C, i, j),
                    corr  |-> Opt(both, SDiv(RMEntry(C, i, j), Sqrt(SMul(var(C, i), var(C, j))))),
                    corr2 |-> Opt(both, SDiv(SMul(RMEntry(C, i, j), RMEntry(C, i, j)), SMul(var(C, i), var(C, j)))),
                    pvar  |-> pvar(C, i, j),
                    tt    |-> Opt(pnum(C, i, j) > 0, Div(d(i, j), Sqrt(pvar(C, i, j)))),
                    pp    |-> Opt(pnum(P, i, j) > 0, PValue(Div(QAbs(d(i, j)), Sqrt(pvar(P, i, j)))))]]]

(***************************************************************************)
(* Summary statistics.                                                     *)
(***************************************************************************)
IsActive(o, i) == (o.lb[i].ex /\ QEq(o.theta[i], o.lb[i].v)) \/ (o.ub[i].ex /\ QEq(o.theta[i], o.ub[i].v))
NActive(o)     == Cardinality({i \in 1..o.K : IsActive(o, i)})
AnyActive(o)   == NActive(o) > 0

LRatio(ref, L)      == QMul(I(-2), QSub(ref, L))                   \* -2 (Lref - L)
Rho2(ref, L)        == QSub(One, QDiv(L, ref))                     \* 1 - L / Lref
RhoBar2(ref, L, k)  == QSub(One, QDiv(QSub(L, I(k)), ref))         \* 1 - (L - K) / Lref

General(o) ==
    LET has0 == o.L0.ex /\ o.L0.v.n # 0
        hasn == o.Ln.ex /\ o.Ln.v.n # 0
    IN
    [K        |-> Opt(TRUE, I(o.K)),
     Kfree    |-> Opt(TRUE, I(o.K - NActive(o))),
     N        |-> Opt(TRUE, I(o.N)),
     nobs     |-> Opt(TRUE, I(o.nobs)),
     excl     |-> Opt(TRUE, I(o.excl)),
     L        |-> Opt(TRUE, o.L),
     L0       |-> Opt(o.L0.ex, o.L0.v),
     Ln       |-> Opt(o.Ln.ex, o.Ln.v),
     LR0      |-> Opt(o.L0.ex, LRatio(o.L0.v, o.L)),
     LRn      |-> Opt(o.Ln.ex, LRatio(o.Ln.v, o.L)),
     rho2     |-> Opt(has0, Rho2(o.L0.v, o.L)),
     rho2n    |-> Opt(hasn, Rho2(o.Ln.v, o.L)),
     rhobar2  |-> Opt(has0, RhoBar2(o.L0.v, o.L, o.K)),
     rhobar2n |-> Opt(hasn, RhoBar2(o.Ln.v, o.L, o.K)),
     AIC      |-> Opt(TRUE, QSub(I(2 * o.K), QMul(I(2), o.L))),                          \* 2K - 2L
     BIC      |-> Opt(TRUE, Add(QMul(I(-2), o.L), Mul(I(o.K), App("log", <<I(o.N)>>)))),  \* -2L + K ln N
     gnorm    |-> Opt(TRUE, Sqrt(I(SumN([k \in 1..o.K |-> o.g[k] * o.g[k]], o.K))))]

\* the statistics of one outcome.  Every family feeds ITS OWN covariance into se -> t -> p.
StatOf(o, mutant) ==
    LET fam(F) == LET C == CovOf(o, F)
                      P == IF mutant = "boot_p_from_robust" /\ F = "boot" THEN CovOf(o, "rob") ELSE C
                  IN  FamilyStats(o, C, P, FamExists(o, F))
    IN  [gen |-> General(o), cls |-> fam("cls"), rob |-> fam("rob"), boot |-> fam("boot")]
Stat(o) == StatOf(o, "none")

(***************************************************************************)
(* Tabular views of one model.  A cell is <<row label, column label,       *)
(* family, kind, i, j>>: the figure of that family and kind for parameter  *)
(* i (and j for pairs).  Family "-" = not tied to a covariance estimator.  *)
(***************************************************************************)
Cell(r, c, F, kind, i, j) == <<r, c, F, kind, i, j>>

RECURSIVE Flatten(_)
Flatten(ss) == IF ss = << >> THEN << >> ELSE Head(ss) \o Flatten(Tail(ss))

BootSeLabel(o) == "Bootstrap[" \o ToString(Len(o.boot.r)) \o "] Std err"

EstColumns(o, onlyRobust) ==
    <<  <<"Value", "-", "value">>  >>
    \o (IF AnyActive(o) THEN << <<"Active bound", "-", "active">> >> ELSE << >>)
    \o (IF onlyRobust THEN << >>
        ELSE << <<"Std err", "cls", "se">>, <<"t-test", "cls", "t">>, <<"p-value", "cls", "p">> >>)
    \o << <<"Rob. Std err", "rob", "se">>, <<"Rob. t-test", "rob", "t">>, <<"Rob. p-value", "rob", "p">> >>
    \o (IF o.boot.ex /\ ~onlyRobust
        THEN << <<BootSeLabel(o), "boot", "se">>, <<"Bootstrap t-test", "boot", "t">>,
                <<"Bootstrap p-value", "boot", "p">> >>
        ELSE << >>)

EstTable(o, onlyRobust) ==
    LET cols == EstColumns(o, onlyRobust) IN
    [rows  |-> o.names,
     cols  |-> [c \in 1..Len(cols) |-> cols[c][1]],
     cells |-> Flatten([i \in 1..o.K |-> [c \in 1..Len(cols) |->
                  Cell(o.names[i], cols[c][1], cols[c][2], cols[c][3], i, 0)]])]

PairLabel(o, i, j) == o.names[i] \o "-" \o o.names[j]
CorrColumns(o) ==
    << <<"Covariance", "cls", "cov">>, <<"Correlation", "cls", "corr">>, <<"t-test", "cls", "tt">>,
       <<"p-value", "cls", "pp">>,
       <<"Rob. cov.", "rob", "cov">>, <<"Rob. corr.", "rob", "corr">>, <<"Rob. t-test", "rob", "tt">>,
       <<"Rob. p-value", "rob", "pp">> >>
    \o (IF o.boot.ex
        THEN << <<"Boot. cov.", "boot", "cov">>, <<"Boot. corr.", "boot", "corr">>,
                <<"Boot. t-test", "boot", "tt">>, <<"Boot. p-value", "boot", "pp">> >>
        ELSE << >>)
CorrTable(o) ==
    LET cols == CorrColumns(o)
        ps   == Pairs(o.K)
    IN
    [rows  |-> [k \in 1..Len(ps) |-> PairLabel(o, ps[k][1], ps[k][2])],
     cols  |-> [c \in 1..Len(cols) |-> cols[c][1]],
     cells |-> Flatten([k \in 1..Len(ps) |-> [c \in 1..Len(cols) |->
                  Cell(PairLabel(o, ps[k][1], ps[k][2]), cols[c][1], cols[c][2], cols[c][3], ps[k][1], ps[k][2])]])]

VarCovarTable(o, F) ==
    [ex    |-> FamExists(o, F),
     rows  |-> o.names, cols |-> o.names,
     cells |-> IF FamExists(o, F)
               THEN Flatten([i \in 1..o.K |-> [j \in 1..o.K |-> Cell(o.names[i], o.names[j], F, "covij", i, j)]])
               ELSE << >>]

\* the general statistics: ordered <<label, kind>>; kinds of General plus pass-through values
GeneralTable(o) ==
    << <<"Number of estimated parameters", "K">> >>
    \o (IF NActive(o) # 0 THEN << <<"Number of free parameters", "Kfree">> >> ELSE << >>)
    \o << <<"Sample size", "N">> >>
    \o (IF o.nobs # o.N THEN << <<"Observations", "nobs">> >> ELSE << >>)
    \o << <<"Excluded observations", "excl">> >>
    \o (IF o.Ln.ex THEN << <<"Null log likelihood", "Ln">> >> ELSE << >>)
    \o << <<"Init log likelihood", "L0">>, <<"Final log likelihood", "L">> >>
    \o (IF o.Ln.ex
        THEN << <<"Likelihood ratio test for the null model", "LRn">>,
                <<"Rho-square for the null model", "rho2n">>,
                <<"Rho-square-bar for the null model", "rhobar2n">> >>
        ELSE << >>)
    \o << <<"Likelihood ratio test for the init. model", "LR0">>,
          <<"Rho-square for the init. model", "rho2">>,
          <<"Rho-square-bar for the init. model", "rhobar2">>,
          <<"Akaike Information Criterion", "AIC">>,
          <<"Bayesian Information Criterion", "BIC">>,
          <<"Final gradient norm", "gnorm">> >>
    \o (IF o.mc THEN << <<"Number of draws", "pass:ndraws">>, <<"Draws generation time", "pass:drawtime">>,
                        <<"Types of draws", "pass:drawtypes">> >> ELSE << >>)
    \o (IF o.boot.ex THEN << <<"Bootstrapping time", "pass:boottime">> >> ELSE << >>)
    \o << <<"Nbr of threads", "pass:threads">> >>

GeneralKind(o, label) ==
    LET T == GeneralTable(o) IN T[CHOOSE k \in 1..Len(T) : T[k][1] = label][2]
HasGeneral(o, label) == \E k \in 1..Len(GeneralTable(o)) : GeneralTable(o)[k][1] = label

TablesOf(o) ==
    [est_full   |-> EstTable(o, FALSE),
     est_robust |-> EstTable(o, TRUE),
     corr       |-> CorrTable(o),
     general    |-> GeneralTable(o),
     vc         |-> [cls |-> VarCovarTable(o, "cls"), rob |-> VarCovarTable(o, "rob"),
                     boot |-> VarCovarTable(o, "boot")]]

(***************************************************************************)
(* Several models side by side.  Columns = model ids.  A compiled cell is  *)
(* <<row label, model id, parts>> with parts a sequence of                 *)
(* <<model index, family, kind, i>>; cells not listed are empty.           *)
(*   formatted:   one row "name[ (std)][ (t-test)]" per parameter holding  *)
(*                estimate, robust standard error, robust t (as requested) *)
(*   unformatted: rows "name", "name (std)", "name (ttest)"                *)
(* and one row per requested general statistic.                            *)
(***************************************************************************)
Part(m, F, kind, i) == <<m, F, kind, i>>

CompileTable(models, formatted, withStd, withT, mutant) ==
    LET M == Len(models)
        statRows(m) == [s \in 1..Len(CompileStats) |->
                          <<CompileStats[s], models[m].id,
                            << Part(m, "-", GeneralKind(models[m], CompileStats[s]), 0) >> >>]
        fmtRow(m, i) ==
            << <<models[m].names[i] \o (IF withStd THEN " (std)" ELSE "") \o (IF withT THEN " (t-test)" ELSE ""),
                 models[m].id,
                 << Part(m, "-", "value", i) >>
                 \o (IF withStd THEN << Part(m, "rob", "se", i) >> ELSE << >>)
                 \o (IF withT THEN << Part(m, "rob", "t", i) >> ELSE << >>)>> >>
        rawRows(m, i) ==
            << <<models[m].names[i], models[m].id, << Part(m, "-", "value", i) >> >> >>
            \o (IF withStd
                THEN << <<models[m].names[i] \o " (std)", models[m].id,
                          << IF mutant = "compile_rows_value" THEN Part(m, "-", "value", i)
                             ELSE Part(m, "rob", "se", i) >> >> >>
                ELSE << >>)
            \o (IF withT
                THEN << <<models[m].names[i] \o " (ttest)", models[m].id,
                          << IF mutant = "compile_rows_value" THEN Part(m, "-", "value", i)
                             ELSE Part(m, "rob", "t", i) >> >> >>
                ELSE << >>)
        paramRows(m) == Flatten([i \in 1..models[m].K |-> IF formatted THEN fmtRow(m, i) ELSE rawRows(m, i)])
    IN  [formatted |-> formatted, std |-> withStd, ttest |-> withT,
         cols  |-> [m \in 1..M |-> models[m].id],
         cells |-> Flatten([m \in 1..M |-> statRows(m) \o paramRows(m)])]

\* the variants of compile_estimation_results that are exercised
CompileVariants == << <<TRUE, FALSE, TRUE>>, <<TRUE, TRUE, TRUE>>, <<TRUE, TRUE, FALSE>>,
                      <<FALSE, TRUE, TRUE>>, <<FALSE, FALSE, TRUE>>, <<FALSE, FALSE, FALSE>> >>

(***************************************************************************)
(* Likelihood-ratio test between two estimated models (argument order is   *)
(* irrelevant): the unrestricted model is the one with more parameters;    *)
(* refused when it has the LOWER log likelihood; statistic -2(Lr - Lu),    *)
(* df = Ku - Kr, threshold = chi-square quantile at 1 - alpha.             *)
(***************************************************************************)
LRTest(a, b, alpha) ==
    LET defd == a.K # b.K
        u == IF a.K > b.K THEN a ELSE b
        r == IF a.K > b.K THEN b ELSE a
        refused == defd /\ QLess(u.L, r.L)
    IN  [other |-> b.id, alpha |-> <<alpha.n, alpha.d>>,
         def |-> defd, refused |-> refused,
         stat |-> IF defd /\ ~refused THEN QMul(I(-2), QSub(r.L, u.L)) ELSE Zero,
         df |-> IF defd THEN u.K - r.K ELSE 0,
         threshold |-> IF defd /\ ~refused
                       THEN App("chi2q", <<QSub(One, alpha), I(u.K - r.K)>>) ELSE Zero]
Alphas == <<Q(5, 100), Q(1, 10)>>

\* the models standing side by side: the current one first (unless it is itself a companion)
Models(o) == IF \E c \in 1..Len(Companions) : Companions[c].id = o.id THEN Companions ELSE <<o>> \o Companions

CompiledOf(o, mutant) ==
    LET models == Models(o) IN
    [tables |-> [v \in 1..Len(CompileVariants) |->
                    CompileTable(models, CompileVariants[v][1], CompileVariants[v][2], CompileVariants[v][3], mutant)],
     lrt    |-> Flatten([c \in 1..Len(Companions) |-> [a \in 1..Len(Alphas) |-> LRTest(o, Companions[c], Alphas[a])]])]

(***************************************************************************)
(* The state machine.                                                      *)
(***************************************************************************)
Init == phase = "init" /\ raw = Nothing /\ stats = Nothing /\ tables = Nothing /\ compiled = Nothing

Choose(o) == /\ phase = "init"
             /\ raw' = o /\ phase' = "raw"
             /\ UNCHANGED <<stats, tables, compiled>>
Compute   == /\ phase = "raw"
             /\ stats' = StatOf(raw, Mutant) /\ phase' = "computed"
             /\ UNCHANGED <<raw, tables, compiled>>
Report    == /\ phase = "computed"
             /\ tables' = TablesOf(raw) /\ phase' = "reported"
             /\ UNCHANGED <<raw, stats, compiled>>
Compile   == /\ phase = "reported"
             /\ compiled' = CompiledOf(raw, Mutant) /\ phase' = "done"
             /\ UNCHANGED <<raw, stats, tables>>

Next == (\E o \in Outcomes : Choose(o)) \/ Compute \/ Report \/ Compile
Spec == Init /\ [][Next]_vars

done == phase = "done"

\* What an action has produced is never touched again (UNCHANGED in every later action), so each
\* invariant below is evaluated in one phase in which its subject exists.  (Penrose and CovSane speak about
\* the raw outcome only; they are evaluated in phase "computed" because TLC evaluates the invariants of ALL
\* successors of the single initial state -- one per outcome, phase "raw" -- in one thread.)
Frozen == [][/\ phase # "init" => raw' = raw
             /\ phase \in {"computed", "reported"} => stats' = stats
             /\ phase = "reported" => tables' = tables]_vars

(***************************************************************************)
(* Properties checked by TLC on the model itself.                          *)
(***************************************************************************)
WellFormed(o) ==
    /\ o.K >= 1 /\ Len(o.names) = o.K /\ Len(o.theta) = o.K /\ Len(o.lb) = o.K /\ Len(o.ub) = o.K
    /\ Len(o.g) = o.K /\ Len(o.H) = o.K /\ Len(o.B) = o.K
    /\ \A i, j \in 1..o.K : i # j => o.names[i] # o.names[j]
    /\ MIsSym(o.H, o.K) /\ MIsSym(o.B, o.K)
    /\ IsQ(o.hs) /\ o.hs.n > 0 /\ o.hs.d > 0 /\ IsQ(o.bs) /\ o.bs.n > 0 /\ o.bs.d > 0
    /\ o.N >= 1 /\ o.nobs >= o.N       \* panel data: the sample size counts individuals, each with >= 1 observation
    /\ o.boot.ex => Len(o.boot.r) >= 2 /\ \A r \in 1..Len(o.boot.r) : Len(o.boot.r[r]) = o.K
RawWellFormed == phase = "raw" => WellFormed(raw)

\* the pseudo-inverse used for the classical covariance satisfies the four Penrose conditions;
\* it is the inverse whenever -H is regular
Penrose == phase = "computed" =>
    LET A == MNeg(raw.H, raw.K)                     \* minus the Hessian is hs * A
        V == ClassicalCov(raw)
    IN  /\ PenroseHoldsScaled(A, raw.hs, V, raw.K)
        /\ PenroseHolds(A, PInvSym(A, raw.K), raw.K)
        /\ Det(A, raw.K) # 0 => MScale(raw.hs.n, MMul(A, V.num, raw.K), raw.K) = MScale(raw.hs.d * V.den, MId(raw.K), raw.K)

\* KEY INVARIANT.  Family separation: inside each of classical / robust / bootstrap, se, t, p,
\* correlation and pairwise test are those of THAT family's covariance, recomputed from the raw outcome.
FamilySeparation == phase = "computed" =>
    \A k \in 1..Len(FamNames) :
        LET F == FamNames[k]
            C == CovOf(raw, F)
            S == stats[F]
            n == raw.K
        IN  FamExists(raw, F) =>
            /\ S.ex
            /\ \A i, j \in 1..n : S.cov[i][j] = RMEntry(C, i, j)
            /\ \A i \in 1..n :
                  LET v == RMEntry(C, i, i)
                      ok == C.num[i][i] > 0
                  IN  /\ S.se[i] = Opt(ok, Sqrt(v))
                      /\ S.t[i]  = Opt(ok, Div(raw.theta[i], Sqrt(v)))
                      /\ S.p[i]  = Opt(ok, PValue(Div(QAbs(raw.theta[i]), Sqrt(v))))
                      /\ ok => QMulX(S.t2[i].v, v) = QMul(raw.theta[i], raw.theta[i])     \* t^2 var = theta^2
            /\ \A q \in 1..Len(S.pairs) :
                  LET e == S.pairs[q]
                      pn == C.num[e.i][e.i] + C.num[e.j][e.j] - 2 * C.num[e.i][e.j]
                  IN  /\ e.i > e.j
                      /\ e.cov = RMEntry(C, e.i, e.j)
                      /\ e.pvar = Q(pn, C.den)                                            \* var_i + var_j - 2 cov_ij
                      /\ e.tt.def = (pn > 0) /\ e.pp.def = (pn > 0)
                      /\ pn > 0 => e.pp.v = PValue(Div(QAbs(QSub(raw.theta[e.i], raw.theta[e.j])), Sqrt(e.pvar)))

\* covariance matrices are symmetric; a sample covariance and a sandwich around a PSD BHHH have a
\* non-negative diagonal; Cauchy-Schwarz for the sample covariance
CovSane == phase = "computed" =>
    /\ \A k \in 1..Len(FamNames) : MIsSym(CovOf(raw, FamNames[k]).num, raw.K) /\ CovOf(raw, FamNames[k]).den > 0
    /\ MIsPSD(raw.B, raw.K) => \A i \in 1..raw.K : RobustCov(raw).num[i][i] >= 0
    /\ raw.boot.ex => LET C == BootCov(raw) IN
          \A i, j \in 1..raw.K : C.num[i][i] >= 0 /\ C.num[i][j] * C.num[i][j] <= C.num[i][i] * C.num[j][j]

\* identities between the summary statistics that do not go through their definitions
GeneralSane == phase = "computed" =>
    LET G == stats.gen
        o == raw
    IN  /\ QAdd(G.AIC.v, QMul(I(2), o.L)) = I(2 * o.K)
        /\ G.LR0.def = o.L0.ex /\ G.LRn.def = o.Ln.ex
        /\ G.rho2.def => /\ QSub(G.rho2.v, G.rhobar2.v) = QNeg(QDiv(I(o.K), o.L0.v))    \* rho2 - rhobar2 = -K/L0
                         /\ QMul(QMul(I(-2), o.L0.v), G.rho2.v) = G.LR0.v               \* LR = -2 L0 rho2
        /\ G.rho2n.def => /\ QSub(G.rho2n.v, G.rhobar2n.v) = QNeg(QDiv(I(o.K), o.Ln.v))
                          /\ QMul(QMul(I(-2), o.Ln.v), G.rho2n.v) = G.LRn.v
        /\ G.Kfree.v.n + NActive(o) = o.K
        \* the N of BIC = -2L + K ln N is the figure the report shows as "Sample size" (for panel data the number
        \* of individuals), not the number of observations (rows)
        /\ G.BIC.v = Add(QMul(I(-2), o.L), Mul(I(o.K), App("log", <<G[GeneralKind(o, "Sample size")].v>>)))
        /\ HasGeneral(o, "Observations") = (o.nobs # o.N)
        /\ HasGeneral(o, "Observations") => GeneralKind(o, "Observations") = "nobs" /\ G.nobs.v = I(o.nobs)

\* what each column label of the single-model tables names (written independently of the builders)
Meaning(o) ==
    { <<"Value", "-", "value">>, <<"Active bound", "-", "active">>,
      <<"Std err", "cls", "se">>, <<"t-test", "cls", "t">>, <<"p-value", "cls", "p">>,
      <<"Rob. Std err", "rob", "se">>, <<"Rob. t-test", "rob", "t">>, <<"Rob. p-value", "rob", "p">>,
      <<"Bootstrap t-test", "boot", "t">>, <<"Bootstrap p-value", "boot", "p">> }
    \cup (IF o.boot.ex THEN { <<BootSeLabel(o), "boot", "se">> } ELSE {})
PairMeaning ==
    { <<"Covariance", "cls", "cov">>, <<"Correlation", "cls", "corr">>, <<"t-test", "cls", "tt">>, <<"p-value", "cls", "pp">>,
      <<"Rob. cov.", "rob", "cov">>, <<"Rob. corr.", "rob", "corr">>, <<"Rob. t-test", "rob", "tt">>, <<"Rob. p-value", "rob", "pp">>,
      <<"Boot. cov.", "boot", "cov">>, <<"Boot. corr.", "boot", "corr">>, <<"Boot. t-test", "boot", "tt">>, <<"Boot. p-value", "boot", "pp">> }

TablesNamed == phase = "reported" =>
    LET o == raw
        estOK(T) == \A q \in 1..Len(T.cells) :
                        LET c == T.cells[q] IN
                        /\ <<c[2], c[3], c[4]>> \in Meaning(o)
                        /\ c[5] \in 1..o.K /\ c[1] = o.names[c[5]]
                        /\ c[3] = "boot" => o.boot.ex
    IN  /\ estOK(tables.est_full) /\ estOK(tables.est_robust)
        /\ Len(tables.est_full.cells) = o.K * Len(tables.est_full.cols)
        /\ \A q \in 1..Len(tables.est_robust.cells) : tables.est_robust.cells[q][3] \in {"-", "rob"}
        /\ \A q \in 1..Len(tables.corr.cells) :
              LET c == tables.corr.cells[q] IN
              /\ <<c[2], c[3], c[4]>> \in PairMeaning
              /\ c[5] > c[6] /\ c[1] = o.names[c[5]] \o "-" \o o.names[c[6]]
              /\ c[3] = "boot" => o.boot.ex
        /\ Len(tables.corr.rows) * 2 = o.K * (o.K - 1)
        /\ \A k \in 1..Len(FamNames) :
              LET T == tables.vc[FamNames[k]] IN
              T.ex => /\ Len(T.cells) = o.K * o.K
                      /\ \A q \in 1..Len(T.cells) :
                            LET c == T.cells[q] IN
                            c[3] = FamNames[k] /\ c[1] = o.names[c[5]] /\ c[2] = o.names[c[6]]
        /\ \A k, l \in 1..Len(tables.general) : k # l => tables.general[k][1] # tables.general[l][1]

\* in the compiled tables every row holds the quantity its label names, in the column of its model
CompileNamed == done =>
    LET models == Models(raw) IN
    \A v \in 1..Len(compiled.tables) :
        LET T == compiled.tables[v]
            cellAt(r, c) == {q \in 1..Len(T.cells) : T.cells[q][1] = r /\ T.cells[q][2] = c}
            holds(r, c, parts) == \E q \in cellAt(r, c) : T.cells[q][3] = parts
        IN
        /\ \A q1, q2 \in 1..Len(T.cells) :
              q1 # q2 => <<T.cells[q1][1], T.cells[q1][2]>> # <<T.cells[q2][1], T.cells[q2][2]>>
        /\ \A m \in 1..Len(models) : \A i \in 1..models[m].K :
              LET nm == models[m].names[i]
                  id == models[m].id
              IN
              IF T.formatted
              THEN holds(nm \o (IF T.std THEN " (std)" ELSE "") \o (IF T.ttest THEN " (t-test)" ELSE ""), id,
                         << <<m, "-", "value", i>> >>
                         \o (IF T.std THEN << <<m, "rob", "se", i>> >> ELSE << >>)
                         \o (IF T.ttest THEN << <<m, "rob", "t", i>> >> ELSE << >>))
              ELSE /\ holds(nm, id, << <<m, "-", "value", i>> >>)
                   /\ T.std => holds(nm \o " (std)", id, << <<m, "rob", "se", i>> >>)
                   /\ T.ttest => holds(nm \o " (ttest)", id, << <<m, "rob", "t", i>> >>)

\* the likelihood-ratio statistic is never negative and does not depend on the argument order
LRTSane == done =>
    \A q \in 1..Len(compiled.lrt) :
        LET e == compiled.lrt[q] IN
        /\ e.def /\ ~e.refused => e.stat.n >= 0 /\ e.df >= 1
        /\ \A c \in 1..Len(Companions) : Companions[c].id = e.other =>
              LET f == LRTest(Companions[c], raw, Q(e.alpha[1], e.alpha[2])) IN
              f.def = e.def /\ f.refused = e.refused /\ f.stat = e.stat /\ f.df = e.df /\ f.threshold = e.threshold

(***************************************************************************)
(* Emission of finished behaviours.                                        *)
(***************************************************************************)
RECURSIVE Compact(_)
Compact(t) == IF IsQ(t) THEN <<t.n, t.d>>
              ELSE [f |-> t.f, a |-> [j \in 1..Len(t.a) |-> Compact(t.a[j])]]
CO(x)  == [def |-> x.def, v |-> Compact(x.v)]
CX(x)  == [ex |-> x.ex, v |-> Compact(x.v)]

CompactFamily(S, n) ==
    [ex |-> S.ex, allpos |-> S.allpos,
     cov |-> [i \in 1..n |-> [j \in 1..n |-> Compact(S.cov[i][j])]],
     se |-> [i \in 1..n |-> CO(S.se[i])], t |-> [i \in 1..n |-> CO(S.t[i])],
     t2 |-> [i \in 1..n |-> CO(S.t2[i])], p |-> [i \in 1..n |-> CO(S.p[i])],
     pairs |-> [k \in 1..Len(S.pairs) |->
                  LET e == S.pairs[k] IN
                  [i |-> e.i, j |-> e.j, cov |-> Compact(e.cov), corr |-> CO(e.corr), corr2 |-> CO(e.corr2),
                   pvar |-> Compact(e.pvar), tt |-> CO(e.tt), pp |-> CO(e.pp)]]]

CompactRaw(o) ==
    [id |-> o.id, K |-> o.K, names |-> o.names,
     theta |-> [i \in 1..o.K |-> Compact(o.theta[i])],
     lb |-> [i \in 1..o.K |-> CX(o.lb[i])], ub |-> [i \in 1..o.K |-> CX(o.ub[i])],
     active |-> [i \in 1..o.K |-> IsActive(o, i)],
     N |-> o.N, nobs |-> o.nobs, excl |-> o.excl,
     L |-> Compact(o.L), L0 |-> CX(o.L0), Ln |-> CX(o.Ln),
     g |-> o.g, H |-> o.H, B |-> o.B, hs |-> <<o.hs.n, o.hs.d>>, bs |-> <<o.bs.n, o.bs.d>>, rankH |-> RankH(o),
     boot |-> [ex |-> o.boot.ex, r |-> o.boot.r], mc |-> o.mc]

CompactGeneral(G) == [k \in DOMAIN G |-> CO(G[k])]

Emitted ==
    [raw |-> CompactRaw(raw),
     stats |-> [gen |-> CompactGeneral(stats.gen),
                cls |-> CompactFamily(stats.cls, raw.K), rob |-> CompactFamily(stats.rob, raw.K),
                boot |-> CompactFamily(stats.boot, raw.K)],
     tables |-> tables,
     \* of the compiled tables only the column of the current model is printed: the columns of the
     \* companions are printed once, by the behaviours in which a companion is the current model
     compiled |-> [tables |-> [v \in 1..Len(compiled.tables) |->
                                 LET T == compiled.tables[v] IN
                                 [formatted |-> T.formatted, std |-> T.std, ttest |-> T.ttest, cols |-> T.cols,
                                  cells |-> SelectSeq(T.cells, LAMBDA c : c[2] = raw.id)]],
                   lrt |-> [q \in 1..Len(compiled.lrt) |->
                              LET e == compiled.lrt[q] IN
                              [other |-> e.other, alpha |-> e.alpha, def |-> e.def, refused |-> e.refused,
                               stat |-> Compact(e.stat), df |-> e.df, threshold |-> Compact(e.threshold)]]]]
EmitInv == done => PrintT(ToJson(Emitted))
=============================================================================
