------------------------------ MODULE Helpers ------------------------------
(***************************************************************************)
(* The ready-made building blocks of a model specification, as the         *)
(* documentation states them:                                              *)
(*                                                                         *)
(*   piecewise-linear variables / formula / transformed variable / plain   *)
(*   function (models.piecewise), the Box-Cox transform (models.boxcox),   *)
(*   densities and distribution functions (distributions), the regression  *)
(*   log-likelihood (loglikelihood), segmented parameters (segmentation)   *)
(*   and the correlation matrix of a nested logit (nests).                 *)
(*                                                                         *)
(* Everything is a pure definition over exact rationals (module Term);     *)
(* where the documented formula needs exp / log / pow / sqrt(2 pi) the     *)
(* value is a TERM over these uninterpreted primitives (the driver         *)
(* interprets them), and every discrete decision (which interval, which    *)
(* branch, which segment, which nest) is still taken exactly by TLC.       *)
(*                                                                         *)
(* For each family a small generator builds one CASE step by step          *)
(* (one action per user decision: add a threshold, add a slope, pick the   *)
(* argument ...).  TLC explores all cases, checks the family's invariants  *)
(* on the model itself and prints every finished case with the value the   *)
(* documentation prescribes (XxEmit); the driver replays the case into     *)
(* the real helpers of biogeme and compares.                               *)
(*                                                                         *)
(* "None" (an open end of a threshold list, a reference category that is   *)
(* not given) is a FLAG, never a value of another type.                    *)
(***************************************************************************)
EXTENDS Integers, Sequences, FiniteSets, TLC, Json, Term

CONSTANTS
    Mutation,      \* "none"; other values switch ONE definition to a known-wrong variant (negative controls)
    \* ---- piecewise
    PwGrid,        \* set of rationals offered as thresholds
    PwMaxK,        \* maximal number of thresholds (open ends included)
    PwBetaVals,    \* set of rationals offered as slopes
    PwMargin,      \* how far beyond the outermost thresholds the argument goes
    PwExtraXs,     \* further arguments (set of rationals)
    \* ---- Box-Cox
    BcXs,          \* arguments (positive rationals)
    BcDen,         \* small exponents are k / BcDen
    BcSmallLs,     \* set of integers k
    BcLargeLs,     \* set of rationals (integer ones give exact values)
    BcPairMax,     \* continuity pairs are taken among |k| <= BcPairMax
    \* ---- densities
    DsDists,       \* subset of {"normal", "lognormal", "logistic", "uniform", "triangular"}
    DsGrid,        \* set of rationals offered as location / bound parameters
    DsScales,      \* set of positive rationals offered as scale parameters
    DsOffsets,     \* arguments of normal / logistic are mu + k * s, k in DsOffsets
    DsLogXs,       \* arguments of the lognormal density
    DsMargin,      \* how far outside [a, b] the argument goes
    \* ---- regression
    RgYs, RgMs, RgSs,
    \* ---- segmentation
    SgMaxVars,     \* number of segmentation variables
    SgLevelSets,   \* set of sequences of integers: the values a discrete variable takes
    SgCatMaps,     \* set of sequences of category numbers: cats[j] = category of the j-th value (several values may share one)
    SgDupVars,     \* many-to-one mappings are explored in segmentations of at most this many variables
    SgShiftSeqs,   \* set of sequences of rationals: one shift per CATEGORY
    SgRefVals,     \* reference values of the parameter
    SgPrefixes,    \* prefixes offered to the code generator (indices, the driver maps them to strings)
    \* ---- nests
    NsOrders,      \* set of sequences of alternative labels: the choice set, in the user's order
    NsMus,         \* nest scale parameters
    NsTopMus,      \* scale of the model
    NsMaxNests,
    NsNameOrders   \* in which order the user lists the names of the alternatives

VARIABLES stage, c
vars == <<stage, c>>

(***************************************************************************)
(* Small helpers.                                                          *)
(***************************************************************************)
QMin(a, b) == IF QLeq(a, b) THEN a ELSE b
QMax(a, b) == IF QLeq(a, b) THEN b ELSE a
Sq(t)      == Mul(t, t)
Half       == Q(1, 2)
SetMax(S)  == CHOOSE m \in S : \A k \in S : k <= m
SetMin(S)  == CHOOSE m \in S : \A k \in S : m <= k
Last(s)    == s[Len(s)]
SeqToSet(s) == {s[i] : i \in 1..Len(s)}
RECURSIVE SumNat(_)
SumNat(s) == IF s = << >> THEN 0 ELSE Head(s) + SumNat(Tail(s))
Dot(bs, vs) == SumSeq([i \in 1..Len(bs) |-> Mul(bs[i], vs[i])])
\* the constant sqrt(2 pi) is a primitive of the term language (its argument is a placeholder)
Sqrt2Pi == App("sqrt2pi", <<Zero>>)

\* compact JSON form of a value: rational = <<n, d>>, application = [f, a]
RECURSIVE Compact(_)
Compact(t) == IF IsQ(t) THEN <<t.n, t.d>>
              ELSE [f |-> t.f, a |-> [j \in 1..Len(t.a) |-> Compact(t.a[j])]]
CompactSeq(s) == [i \in 1..Len(s) |-> Compact(s[i])]

\* structurally positive terms (enough for the densities below)
RECURSIVE Positive(_)
Positive(t) == IF IsQ(t) THEN t.n > 0
               ELSE \/ t.f \in {"exp", "sqrt2pi"}
                    \/ t.f \in {"mul", "div"} /\ Positive(t.a[1]) /\ Positive(t.a[2])
                    \/ t.f = "add" /\ Positive(t.a[1]) /\ Positive(t.a[2])

(***************************************************************************)
(* PIECEWISE LINEAR SPECIFICATION.                                         *)
(* A threshold is [inf, v]; inf = TRUE stands for the "None" of the        *)
(* library: minus infinity in first position, plus infinity in last.       *)
(* With K thresholds there are K-1 intervals and K-1 variables; for the    *)
(* interval [a, a+b[ :  x_i = max(0, min(t - a, b)).  For an open first    *)
(* interval the variable is min(t, b) (distances are counted from 0), for  *)
(* an open last interval max(0, t - a).                                    *)
(***************************************************************************)
Fin(v) == [inf |-> FALSE, v |-> v]
Inf    == [inf |-> TRUE, v |-> Zero]

PwVar(a, b, x) ==
    CASE a.inf /\ ~b.inf  -> QMin(x, b.v)
      [] ~a.inf /\ b.inf  -> QMax(Zero, QSub(x, a.v))
      [] ~a.inf /\ ~b.inf -> QMax(Zero, QMin(QSub(x, a.v), QSub(b.v, a.v)))
      [] OTHER            -> x
PwVars(thr, x) == [i \in 1..(Len(thr) - 1) |-> PwVar(thr[i], thr[i + 1], x)]

\* sum_i beta_i x_i
PwFormula(thr, bs, x) == Dot(bs, PwVars(thr, x))
\* x_1 + sum_{i >= 2} beta_i x_i        (bs2 = <<beta_2, ..., beta_{K-1}>>)
PwAsVariable(thr, bs2, x) ==
    LET v == PwVars(thr, x) IN
    Add(v[1], SumSeq([i \in 1..Len(bs2) |-> Mul(bs2[i], v[i + 1])]))

\* The plain function, written independently: the continuous function that is constant outside
\* the thresholds, has slope beta_i on the i-th interval and vanishes at the origin (the first
\* threshold, or 0 when the list is open on the left).
PwOrigin(thr) == IF thr[1].inf THEN Zero ELSE thr[1].v
PwClip(thr, x) ==
    LET lo == thr[1]
        hi == Last(thr)
        y  == IF ~lo.inf /\ QLess(x, lo.v) THEN lo.v ELSE x
    IN  IF ~hi.inf /\ QLess(hi.v, y) THEN hi.v ELSE y
\* interval that holds y = clip(x): the last one whose left end is <= y
PwSeg(thr, y) == SetMax({i \in 1..(Len(thr) - 1) : thr[i].inf \/ QLeq(thr[i].v, y)})
PwFunction(thr, bs, x) ==
    LET y    == PwClip(thr, x)
        j    == PwSeg(thr, y)
        org  == IF Mutation = "function-ignores-origin" THEN Zero ELSE PwOrigin(thr)
        left(i) == IF i = 1 THEN org ELSE thr[i].v
        full == SumSeq([i \in 1..(j - 1) |-> Mul(bs[i], QSub(thr[i + 1].v, left(i)))])
    IN  Add(full, Mul(bs[j], QSub(y, left(j))))

\* ---- generator
PwInit == stage = "thr" /\ c = [thr |-> << >>, betas |-> << >>, x |-> Zero]
\* (written with IF: TLC explores BOTH sides of a disjunction that occurs inside an action)
PwLastFinite(thr) == IF Len(thr) = 0 THEN FALSE ELSE ~Last(thr).inf
PwCanExtend(thr) == Len(thr) < PwMaxK /\ (IF Len(thr) <= 1 THEN TRUE ELSE PwLastFinite(thr))
PwAddThreshold ==
    /\ stage = "thr" /\ PwCanExtend(c.thr)
    /\ \E e \in {Inf} \cup {Fin(g) : g \in PwGrid} :
          \* only the two ends can be open, and not both ends of a single interval
          /\ IF e.inf THEN (IF Len(c.thr) = 0 THEN TRUE ELSE PwLastFinite(c.thr))
                       ELSE (IF PwLastFinite(c.thr) THEN QLess(Last(c.thr).v, e.v) ELSE TRUE)
          /\ c' = [c EXCEPT !.thr = Append(@, e)]
    /\ UNCHANGED stage
PwCloseThresholds ==
    /\ stage = "thr" /\ Len(c.thr) >= 2
    /\ stage' = "betas" /\ UNCHANGED c
PwAddBeta ==
    /\ stage = "betas" /\ Len(c.betas) < Len(c.thr) - 1
    /\ \E b \in PwBetaVals : c' = [c EXCEPT !.betas = Append(@, b)]
    /\ UNCHANGED stage
PwFinite(thr) == {thr[i].v : i \in {j \in 1..Len(thr) : ~thr[j].inf}}
PwXPoints(thr) ==
    LET idx  == {j \in 1..Len(thr) : ~thr[j].inf}
        lo   == thr[SetMin(idx)].v
        hi   == thr[SetMax(idx)].v
        mids == {QMul(Half, QAdd(thr[i].v, thr[i + 1].v)) :
                    i \in {j \in 1..(Len(thr) - 1) : ~thr[j].inf /\ ~thr[j + 1].inf}}
    IN  PwFinite(thr) \cup mids \cup {QSub(lo, PwMargin), QAdd(hi, PwMargin)} \cup PwExtraXs
PwChooseX ==
    /\ stage = "betas" /\ Len(c.betas) = Len(c.thr) - 1
    /\ \E x \in PwXPoints(c.thr) : c' = [c EXCEPT !.x = x]
    /\ stage' = "done"
PwNext == PwAddThreshold \/ PwCloseThresholds \/ PwAddBeta \/ PwChooseX
PwSpec == PwInit /\ [][PwNext]_vars

\* ---- properties of the model itself
PwDone == stage = "done"
\* the variables add up to the clipped distance from the origin
PwSumIsClip == PwDone =>
    SumSeq(PwVars(c.thr, c.x)) = QSub(PwClip(c.thr, c.x), PwOrigin(c.thr))
\* the formula and the plain function are the same function
PwFormulaIsFunction == PwDone =>
    PwFormula(c.thr, c.betas, c.x) = PwFunction(c.thr, c.betas, c.x)
\* the transformed variable is the formula whose first slope is one
PwAsVariableIsFormula == PwDone /\ Len(c.thr) >= 3 =>
    PwAsVariable(c.thr, Tail(c.betas), c.x) = PwFormula(c.thr, <<One>> \o Tail(c.betas), c.x)
\* a variable of a closed interval lies between 0 and the width of the interval
PwVarsBounded == PwDone =>
    \A i \in 1..(Len(c.thr) - 1) :
        (~c.thr[i].inf /\ ~c.thr[i + 1].inf) =>
            /\ QLeq(Zero, PwVars(c.thr, c.x)[i])
            /\ QLeq(PwVars(c.thr, c.x)[i], QSub(c.thr[i + 1].v, c.thr[i].v))
\* only the two ends can be open, at least one threshold is finite, thresholds increase
PwWellFormed == PwDone =>
    /\ \A i \in 2..(Len(c.thr) - 1) : ~c.thr[i].inf
    /\ PwFinite(c.thr) # {}
    /\ \A i \in 1..(Len(c.thr) - 1) : (~c.thr[i].inf /\ ~c.thr[i + 1].inf) => QLess(c.thr[i].v, c.thr[i + 1].v)

PwRecord ==
    [fam |-> "piecewise",
     thr |-> [i \in 1..Len(c.thr) |-> [inf |-> c.thr[i].inf, v |-> Compact(c.thr[i].v)]],
     betas |-> CompactSeq(c.betas), x |-> Compact(c.x),
     vars |-> CompactSeq(PwVars(c.thr, c.x)),
     sum |-> Compact(QSub(PwClip(c.thr, c.x), PwOrigin(c.thr))),
     formula |-> Compact(PwFormula(c.thr, c.betas, c.x)),
     function |-> Compact(PwFunction(c.thr, c.betas, c.x)),
     asvar |-> IF Len(c.thr) >= 3 THEN <<Compact(PwAsVariable(c.thr, Tail(c.betas), c.x))>> ELSE << >>]
PwEmit == PwDone => PrintT(ToJson(PwRecord))

(***************************************************************************)
(* BOX-COX.   B(x, l) = (x^l - 1) / l,   B(x, 0) = log x  (the limit).      *)
(* Exponents near zero are k / BcDen with k an integer, so that TLC orders *)
(* them without multiplying denominators.                                  *)
(***************************************************************************)
BcL(k) == Q(k, BcDen)
\* the definition, literally
BoxCoxDef(x, l) ==
    IF IsZero(l) THEN App("log", <<x>>)
    ELSE IF QIsInt(l) /\ Abs(l.n) <= 3 THEN QDiv(QSub(QPowInt(x, l.n), One), l)
    ELSE Div(Sub(App("pow", <<x, l>>), One), l)
\* the same number written so that it can be evaluated accurately: x^l - 1 = expm1(l log x)
BoxCoxStable(x, l) ==
    IF IsZero(l) THEN App("log", <<x>>)
    ELSE IF QIsInt(l) /\ Abs(l.n) <= 3 THEN QDiv(QSub(QPowInt(x, l.n), One), l)
    ELSE Div(App("expm1", <<Mul(l, App("log", <<x>>))>>), l)
\* B(x, .) is continuous: B = sum_{k>=1} l^(k-1) L^k / k!  with L = log x, hence
\* |dB/dl| <= L^2/2 * exp(|l L|).  On |l| <= lmax this is a Lipschitz constant.
BoxCoxLip(x, lmax) ==
    LET L == App("log", <<x>>) IN
    IF IsOne(x) THEN Zero
    ELSE Mul(Mul(Half, Sq(L)), App("exp", <<Mul(lmax, App("max", <<L, Neg(L)>>))>>))

BcInit == stage = "x" /\ c = [x |-> One, pair |-> FALSE, l |-> Zero, l2 |-> Zero]
BcChooseX == stage = "x" /\ \E x \in BcXs : c' = [c EXCEPT !.x = x] /\ stage' = "l"
BcAllLs == {BcL(k) : k \in BcSmallLs} \cup BcLargeLs
BcChooseL == stage = "l" /\ \E l \in BcAllLs : c' = [c EXCEPT !.l = l] /\ stage' = "done"
BcPairKs == {k \in BcSmallLs : Abs(k) <= BcPairMax}
BcAdjacent(k1, k2) == k1 < k2 /\ ~\E m \in BcPairKs : k1 < m /\ m < k2
BcChoosePair ==
    /\ stage = "l"
    /\ \E k1, k2 \in BcPairKs :
          /\ BcAdjacent(k1, k2)
          /\ c' = [c EXCEPT !.pair = TRUE, !.l = BcL(k1), !.l2 = BcL(k2)]
    /\ stage' = "done"
BcNext == BcChooseX \/ BcChooseL \/ BcChoosePair
BcSpec == BcInit /\ [][BcNext]_vars

BcDone == stage = "done"
\* exact corners of the definition: B(x,1) = x - 1, B(x,-1) = 1 - 1/x, B(x,2) = (x-1)(x+1)/2, the limit is the logarithm
BcCorners == BcDone =>
    /\ BoxCoxDef(c.x, One) = QSub(c.x, One)
    /\ BoxCoxDef(c.x, I(-1)) = QSub(One, QInv(c.x))
    /\ BoxCoxDef(c.x, I(2)) = QMul(Half, QMul(QSub(c.x, One), QAdd(c.x, One)))
    /\ BoxCoxDef(c.x, Zero) = App("log", <<c.x>>)
    /\ BoxCoxStable(c.x, Zero) = BoxCoxDef(c.x, Zero)
\* pairs are neighbours on the exponent grid and lie on both sides of every grid point between them (none)
BcPairsAdjacent == (BcDone /\ c.pair) =>
    \E k1, k2 \in BcPairKs : BcAdjacent(k1, k2) /\ c.l = BcL(k1) /\ c.l2 = BcL(k2)

BcRecord ==
    [fam |-> "boxcox", x |-> Compact(c.x), pair |-> c.pair,
     l |-> Compact(c.l), def |-> Compact(BoxCoxDef(c.x, c.l)), ref |-> Compact(BoxCoxStable(c.x, c.l)),
     l2 |-> Compact(c.l2),
     ref2 |-> IF c.pair THEN <<Compact(BoxCoxStable(c.x, c.l2))>> ELSE << >>,
     lip |-> IF c.pair THEN <<Compact(BoxCoxLip(c.x, BcL(BcPairMax)))>> ELSE << >>]
BcEmit == BcDone => PrintT(ToJson(BcRecord))

(***************************************************************************)
(* DENSITIES AND DISTRIBUTION FUNCTIONS (textbook forms).                  *)
(* parameters p:  normal / lognormal / logistic <<mu, s>>, uniform         *)
(* <<a, b>>, triangular <<a, b, m>> (m the mode, a < m < b).               *)
(***************************************************************************)
NormalPdf(x, mu, s) ==
    Div(App("exp", <<Neg(Div(Sq(Sub(x, mu)), Mul(I(2), Sq(s))))>>), Mul(s, Sqrt2Pi))
LognormalPdf(x, mu, s) ==
    IF QLeq(x, Zero) THEN Zero
    ELSE LET lx == App("log", <<x>>) IN
         Div(App("exp", <<Neg(Div(Sq(Sub(lx, mu)), Mul(I(2), Sq(s))))>>), Mul(Mul(x, s), Sqrt2Pi))
LogisticCdf(x, mu, s) ==
    Div(One, Add(One, App("exp", <<Neg(Div(Sub(x, mu), s))>>)))
UniformPdf(x, a, b) ==
    IF QLeq(a, x) /\ QLeq(x, b) THEN QInv(QSub(b, a)) ELSE Zero
TriUp(x, a, b, m)   == QDiv(QMul(I(2), QSub(x, a)), QMul(QSub(b, a), QSub(m, a)))
TriDown(x, a, b, m) == QDiv(QMul(I(2), QSub(b, x)), QMul(QSub(b, a), QSub(b, m)))
TriangularPdf(x, a, b, m) ==
    IF QLess(x, a) THEN Zero
    ELSE IF QLess(x, m) THEN TriUp(x, a, b, m)
    ELSE IF QLess(x, b) THEN TriDown(x, a, b, m)
    ELSE Zero

DsArity(d) == IF d = "triangular" THEN 3 ELSE 2
DsValue(d, p, x) ==
    CASE d = "normal"     -> NormalPdf(x, p[1], p[2])
      [] d = "lognormal"  -> LognormalPdf(x, p[1], p[2])
      [] d = "logistic"   -> LogisticCdf(x, p[1], p[2])
      [] d = "uniform"    -> UniformPdf(x, p[1], p[2])
      [] d = "triangular" -> TriangularPdf(x, p[1], p[2], p[3])
DsScaled(d) == d \in {"normal", "lognormal", "logistic"}
DsParamChoices(d, p) ==
    IF DsScaled(d) THEN (IF Len(p) = 0 THEN DsGrid ELSE DsScales)
    ELSE IF Len(p) = 0 THEN DsGrid
    ELSE IF Len(p) = 1 THEN {v \in DsGrid : QLess(p[1], v)}
    ELSE {v \in DsGrid : QLess(p[1], v) /\ QLess(v, p[2])}
DsBreaks(d, p) ==     \* where the exact densities change their formula
    CASE d = "uniform"    -> <<p[1], p[2]>>
      [] d = "triangular" -> <<p[1], p[3], p[2]>>
      [] OTHER            -> << >>
DsXPoints(d, p) ==
    CASE d \in {"normal", "logistic"} -> {QAdd(p[1], QMul(k, p[2])) : k \in DsOffsets}
      [] d = "lognormal" -> DsLogXs
      [] OTHER ->
           LET br == DsBreaks(d, p) IN
           SeqToSet(br) \cup {QMul(Half, QAdd(br[i], br[i + 1])) : i \in 1..(Len(br) - 1)}
              \cup {QSub(br[1], DsMargin), QAdd(Last(br), DsMargin)}

DsInit == stage = "dist" /\ c = [dist |-> "none", p |-> << >>, x |-> Zero]
DsChooseDist == stage = "dist" /\ \E d \in DsDists : c' = [c EXCEPT !.dist = d] /\ stage' = "params"
DsAddParam ==
    /\ stage = "params" /\ Len(c.p) < DsArity(c.dist)
    /\ \E v \in DsParamChoices(c.dist, c.p) : c' = [c EXCEPT !.p = Append(@, v)]
    /\ UNCHANGED stage
DsChooseX ==
    /\ stage = "params" /\ Len(c.p) = DsArity(c.dist)
    /\ \E x \in DsXPoints(c.dist, c.p) : c' = [c EXCEPT !.x = x]
    /\ stage' = "done"
DsNext == DsChooseDist \/ DsAddParam \/ DsChooseX
DsSpec == DsInit /\ [][DsNext]_vars

DsDone == stage = "done"
DsNonNegative == DsDone =>
    LET v == DsValue(c.dist, c.p, c.x) IN IsZero(v) \/ Positive(v)
\* trapezoid rule over the breakpoints: exact for piecewise linear densities
DsTrapezoid(d, p) ==
    LET br == DsBreaks(d, p)
        f(x) == DsValue(d, p, x)
    IN  SumSeq([i \in 1..(Len(br) - 1) |->
                  QMul(Half, QMul(QAdd(f(br[i]), f(br[i + 1])), QSub(br[i + 1], br[i])))])
\* uniform and triangular densities integrate to one, exactly
DsExactMass == (DsDone /\ ~DsScaled(c.dist)) => DsTrapezoid(c.dist, c.p) = One
\* the triangular density is continuous at its mode and peaks at 2/(b-a)
DsTriangularPeak == (DsDone /\ c.dist = "triangular") =>
    LET a == c.p[1]
        b == c.p[2]
        m == c.p[3]
    IN  /\ TriUp(m, a, b, m) = TriDown(m, a, b, m)
        /\ TriangularPdf(m, a, b, m) = QDiv(I(2), QSub(b, a))
        /\ TriangularPdf(a, a, b, m) = Zero /\ TriangularPdf(b, a, b, m) = Zero
        /\ QLeq(TriangularPdf(c.x, a, b, m), QDiv(I(2), QSub(b, a)))
DsUniformFlat == (DsDone /\ c.dist = "uniform") =>
    \/ QLess(c.x, c.p[1]) \/ QLess(c.p[2], c.x)
    \/ QMul(UniformPdf(c.x, c.p[1], c.p[2]), QSub(c.p[2], c.p[1])) = One

DsRecord ==
    [fam |-> "density", dist |-> c.dist, p |-> CompactSeq(c.p), x |-> Compact(c.x),
     value |-> Compact(DsValue(c.dist, c.p, c.x)), breaks |-> CompactSeq(DsBreaks(c.dist, c.p))]
DsEmit == DsDone => PrintT(ToJson(DsRecord))

(***************************************************************************)
(* REGRESSION LIKELIHOOD: the logarithm of the normal density of the       *)
(* measurement y around the model m,                                       *)
(*   -(y-m)^2 / (2 s^2) - 1/2 log(s^2) - 1/2 log(2 pi).                    *)
(***************************************************************************)
RegLogLike(y, m, s) ==
    Sub(Sub(Neg(Div(Sq(Div(Sub(y, m), s)), I(2))), Div(App("log", <<Sq(s)>>), I(2))),
        App("log", <<Sqrt2Pi>>))

RgInit == stage = "y" /\ c = [y |-> Zero, m |-> Zero, s |-> One]
RgChooseY == stage = "y" /\ \E y \in RgYs : c' = [c EXCEPT !.y = y] /\ stage' = "m"
RgChooseM == stage = "m" /\ \E m \in RgMs : c' = [c EXCEPT !.m = m] /\ stage' = "s"
RgChooseS == stage = "s" /\ \E s \in RgSs : c' = [c EXCEPT !.s = s] /\ stage' = "done"
RgNext == RgChooseY \/ RgChooseM \/ RgChooseS
RgSpec == RgInit /\ [][RgNext]_vars
RgDone == stage = "done"
\* the likelihood depends on y and m through (y - m) only, and on s through s^2 (structure of the term)
RgShiftInvariant == RgDone =>
    RegLogLike(c.y, c.m, c.s) = RegLogLike(QSub(c.y, c.m), Zero, c.s)
RgRecord ==
    [fam |-> "regression", y |-> Compact(c.y), m |-> Compact(c.m), s |-> Compact(c.s),
     ll |-> Compact(RegLogLike(c.y, c.m, c.s)), pdf |-> Compact(NormalPdf(c.y, c.m, c.s))]
RgEmit == RgDone => PrintT(ToJson(RgRecord))

(***************************************************************************)
(* SEGMENTED PARAMETER.  A discrete variable takes the values vals[1..n];  *)
(* the user maps every VALUE to a CATEGORY, cats[j] being the category of  *)
(* vals[j].  Several values may share a category (1 -> young, 2 -> young,  *)
(* 3 -> adult); the plain case is one category per value.  The parameter   *)
(* is shifted per CATEGORY: in the reference category by nothing, in       *)
(* category q by shifts[q], whatever value of that category the row holds. *)
(* There is exactly one shift parameter per non-reference category.  With  *)
(* several variables the shifts add up.  refcat = 0 stands for "reference  *)
(* not given": the library may then choose any category, so the expected   *)
(* value is given for each possible choice.                                *)
(***************************************************************************)
SgNCats(seg) == Cardinality({seg.cats[j] : j \in 1..Len(seg.cats)})
SgIsPlain(cm) == \A j \in 1..Len(cm) : cm[j] = j
\* shift of the row whose variable holds vals[j], when category rc is the reference
SgShiftOf(seg, rc, j) ==
    IF Mutation = "shift-per-value"
    THEN (IF seg.cats[j] = rc THEN Zero ELSE seg.shifts[IF j <= Len(seg.shifts) THEN j ELSE 1])
    ELSE IF seg.cats[j] = rc THEN Zero ELSE seg.shifts[seg.cats[j]]
SgValue(ref, segs, refs, row) ==
    SumSeq(<<ref>> \o [k \in 1..Len(segs) |-> SgShiftOf(segs[k], refs[k], row[k])])
\* the free shift parameters: one per (variable, non-reference category)
SgParams(segs, refs) == {kq \in (1..Len(segs)) \X (1..3) : kq[2] <= SgNCats(segs[kq[1]]) /\ kq[2] # refs[kq[1]]}
SgTuples(segs) == {f \in [1..Len(segs) -> 1..3] : \A k \in 1..Len(segs) : f[k] <= Len(segs[k].vals)}
SgCatTuples(segs) == {f \in [1..Len(segs) -> 1..3] : \A k \in 1..Len(segs) : f[k] <= SgNCats(segs[k])}
SgRefChoices(segs) ==
    {f \in SgCatTuples(segs) : \A k \in 1..Len(segs) : segs[k].refcat # 0 => f[k] = segs[k].refcat}

SgInit == stage = "ref" /\ c = [ref |-> Zero, segs |-> << >>, row |-> << >>, prefix |-> 0]
SgChooseRef == stage = "ref" /\ \E r \in SgRefVals, px \in SgPrefixes :
                  c' = [c EXCEPT !.ref = r, !.prefix = px] /\ stage' = "vars"
\* many-to-one mappings are explored in segmentations of at most SgDupVars variables
SgMayAdd(segs, cm) ==
    IF Len(segs) + 1 <= SgDupVars THEN TRUE
    ELSE SgIsPlain(cm) /\ \A k \in 1..Len(segs) : SgIsPlain(segs[k].cats)
SgAddVar ==
    /\ stage = "vars" /\ Len(c.segs) < SgMaxVars
    /\ \E lv \in SgLevelSets, cm \in {m \in SgCatMaps : SgMayAdd(c.segs, m)}, sh \in SgShiftSeqs :
          /\ Len(cm) = Len(lv)
          /\ Len(sh) = Cardinality({cm[j] : j \in 1..Len(cm)})
          /\ \E rc \in 0..Len(sh) :
                /\ rc = 0 => Len(c.segs) = 0          \* "reference not given" is explored on the first variable
                /\ c' = [c EXCEPT !.segs = Append(@, [vals |-> lv, cats |-> cm, refcat |-> rc, shifts |-> sh])]
    /\ UNCHANGED stage
SgCloseVars == stage = "vars" /\ Len(c.segs) >= 1 /\ stage' = "row" /\ UNCHANGED c
SgChooseRow == stage = "row" /\ \E r \in SgTuples(c.segs) : c' = [c EXCEPT !.row = r] /\ stage' = "done"
SgNext == SgChooseRef \/ SgAddVar \/ SgCloseVars \/ SgChooseRow
SgSpec == SgInit /\ [][SgNext]_vars
SgDone == stage = "done"
\* categories are numbered 1..q without holes, every value has one
SgWellFormed == SgDone => \A k \in 1..Len(c.segs) :
    /\ Len(c.segs[k].cats) = Len(c.segs[k].vals)
    /\ {c.segs[k].cats[j] : j \in 1..Len(c.segs[k].cats)} = 1..SgNCats(c.segs[k])
    /\ Len(c.segs[k].shifts) = SgNCats(c.segs[k])
    /\ c.segs[k].refcat \in 0..SgNCats(c.segs[k])
\* in every segment of the reference categories the parameter has its reference value
SgReferenceSegment == SgDone =>
    \A refs \in SgRefChoices(c.segs) : \A row \in SgTuples(c.segs) :
        (\A k \in 1..Len(c.segs) : c.segs[k].cats[row[k]] = refs[k]) => SgValue(c.ref, c.segs, refs, row) = c.ref
\* each variable contributes its own shift, independently of the others
SgAdditive == SgDone =>
    \A refs \in SgRefChoices(c.segs) : \A k \in 1..Len(c.segs) : \A j \in 1..Len(c.segs[k].vals) :
        LET row2 == [c.row EXCEPT ![k] = j]
            sh(i) == IF c.segs[k].cats[i] = refs[k] THEN Zero ELSE c.segs[k].shifts[c.segs[k].cats[i]]
        IN  QSub(SgValue(c.ref, c.segs, refs, row2), SgValue(c.ref, c.segs, refs, c.row)) = QSub(sh(j), sh(c.row[k]))
\* two values of one category are the same segment: the parameter does not distinguish them
SgSameCategory == SgDone =>
    \A refs \in SgRefChoices(c.segs) : \A k \in 1..Len(c.segs) : \A j \in 1..Len(c.segs[k].vals) :
        c.segs[k].cats[j] = c.segs[k].cats[c.row[k]] =>
            SgValue(c.ref, c.segs, refs, [c.row EXCEPT ![k] = j]) = SgValue(c.ref, c.segs, refs, c.row)
\* one shift parameter per non-reference category
SgParameterCount == SgDone =>
    \A refs \in SgRefChoices(c.segs) :
        Cardinality(SgParams(c.segs, refs)) = SumNat([k \in 1..Len(c.segs) |-> SgNCats(c.segs[k]) - 1])
SgRecord ==
    [fam |-> "segmentation", ref |-> Compact(c.ref), prefix |-> c.prefix,
     segs |-> [k \in 1..Len(c.segs) |->
                 [vals |-> c.segs[k].vals, cats |-> c.segs[k].cats, refcat |-> c.segs[k].refcat,
                  shifts |-> CompactSeq(c.segs[k].shifts)]],
     row |-> c.row,
     expected |-> {[refs |-> refs, value |-> Compact(SgValue(c.ref, c.segs, refs, c.row)),
                    params |-> SgParams(c.segs, refs)] : refs \in SgRefChoices(c.segs)}]
SgEmit == SgDone => PrintT(ToJson(SgRecord))

(***************************************************************************)
(* NESTED LOGIT: correlation of the error terms.  Alternatives i # j in    *)
(* the same nest m: 1 - (mu / mu_m)^2 (that is 1 - 1/mu_m^2 for the usual  *)
(* normalisation mu = 1); in different nests or alone: 0; diagonal: 1.     *)
(***************************************************************************)
NsNestOf(nests, a) == {m \in 1..Len(nests) : a \in SeqToSet(nests[m].alts)}
NsCorr(nests, top, a, b) ==
    IF a = b THEN One
    ELSE LET both == NsNestOf(nests, a) \cap NsNestOf(nests, b) IN
         IF both = {} THEN Zero
         ELSE LET mu == nests[CHOOSE m \in both : TRUE].mu IN QSub(One, QPowInt(QDiv(top, mu), 2))
NsUsed(nests) == UNION {SeqToSet(nests[m].alts) : m \in 1..Len(nests)}
\* the alternatives of S in the REVERSE of their order in the choice set
RECURSIVE NsPick(_, _)
NsPick(order, S) == IF order = << >> THEN << >>
                    ELSE IF Last(order) \in S THEN <<Last(order)>> \o NsPick(SubSeq(order, 1, Len(order) - 1), S)
                    ELSE NsPick(SubSeq(order, 1, Len(order) - 1), S)

NsInit == stage = "order" /\ c = [order |-> << >>, nests |-> << >>, top |-> One, names |-> "none"]
NsChooseOrder == stage = "order" /\ \E o \in NsOrders : c' = [c EXCEPT !.order = o] /\ stage' = "nests"
NsAddNest ==
    /\ stage = "nests" /\ Len(c.nests) < NsMaxNests
    /\ \E S \in SUBSET (SeqToSet(c.order) \ NsUsed(c.nests)) :
          /\ Cardinality(S) >= 2
          \* one representative per set of nests: by increasing smallest label
          /\ Len(c.nests) >= 1 => SetMin(SeqToSet(Last(c.nests).alts)) < SetMin(S)
          /\ \E mu \in NsMus :
                c' = [c EXCEPT !.nests = Append(@, [mu |-> mu, alts |-> NsPick(c.order, S)])]
    /\ UNCHANGED stage
NsClose ==
    /\ stage = "nests" /\ Len(c.nests) >= 1
    /\ \E t \in NsTopMus, no \in NsNameOrders :
          /\ \A m \in 1..Len(c.nests) : QLeq(t, c.nests[m].mu)
          /\ c' = [c EXCEPT !.top = t, !.names = no]
    /\ stage' = "done"
NsNext == NsChooseOrder \/ NsAddNest \/ NsClose
NsSpec == NsInit /\ [][NsNext]_vars
NsDone == stage = "done"
NsAlts == SeqToSet(c.order)
NsSymmetric == NsDone => \A a, b \in NsAlts : NsCorr(c.nests, c.top, a, b) = NsCorr(c.nests, c.top, b, a)
NsUnitDiagonal == NsDone => \A a \in NsAlts : NsCorr(c.nests, c.top, a, a) = One
NsZeroAcross == NsDone => \A a, b \in NsAlts :
    (a # b /\ NsNestOf(c.nests, a) \cap NsNestOf(c.nests, b) = {}) => NsCorr(c.nests, c.top, a, b) = Zero
\* with mu = 1 the entry within nest m is 1 - 1/mu_m^2
NsWithinNest == NsDone => \A m \in 1..Len(c.nests) : \A a, b \in SeqToSet(c.nests[m].alts) :
    (a # b /\ IsOne(c.top)) => NsCorr(c.nests, c.top, a, b) = QSub(One, QInv(QMul(c.nests[m].mu, c.nests[m].mu)))
NsRange == NsDone => \A a, b \in NsAlts :
    a # b => QLeq(Zero, NsCorr(c.nests, c.top, a, b)) /\ QLess(NsCorr(c.nests, c.top, a, b), One)
NsPartition == NsDone => \A a \in NsAlts : Cardinality(NsNestOf(c.nests, a)) <= 1
NsRecord ==
    [fam |-> "nests", order |-> c.order, top |-> Compact(c.top), names |-> c.names,
     nests |-> [m \in 1..Len(c.nests) |-> [mu |-> Compact(c.nests[m].mu), alts |-> c.nests[m].alts]],
     corr |-> [i \in 1..Len(c.order) |-> [j \in 1..Len(c.order) |->
                  Compact(NsCorr(c.nests, c.top, c.order[i], c.order[j]))]]]
NsEmit == NsDone => PrintT(ToJson(NsRecord))
=============================================================================
