------------------------------ MODULE DrawTypes ------------------------------
(***************************************************************************)
(* The catalogue of native draw types of biogeme (C11), written from the   *)
(* descriptions the catalogue advertises and from the mathematics of the   *)
(* families -- not from draws.py.                                          *)
(*                                                                         *)
(*   name -> (family, base, skip, symmetric, antithetic, normal)           *)
(*                                                                         *)
(* A call Gen(name, n, R) first produces the GENERATED PART: a flat        *)
(* sequence u of G numbers of the unit interval, G = n*R (n*R/2 for an     *)
(* antithetic entry, which is defined for even R only):                    *)
(*   iid     any numbers of [0,1)                  (nondeterministic)      *)
(*   halton  u[k] = radical inverse, in the advertised base, of skip+k     *)
(*           (the Halton sequence starts at index 1: 1/b, 2/b, ...)        *)
(*   mlhs    one point in each of the G equal strata [s/G, (s+1)/G),       *)
(*           in any order                          (nondeterministic)      *)
(* then maps every number with the entry's transform                       *)
(*   unit: x      symmetric: 2x-1      normal: probit(x) (uninterpreted    *)
(*   primitive: the standard normal quantile; TLC never sees a float)      *)
(* lays the result out row by row as an n x C matrix and, for an           *)
(* antithetic entry, appends to every row its mirror image                 *)
(*   unit: 1-y    symmetric: -y        normal: -z.                         *)
(*                                                                         *)
(* The acceptance predicates (ShapeOK, SupportOK, StrataOK, MirrorOK,      *)
(* SymOK, QuantBad) are stated on an OBSERVATION of an array and are used  *)
(* twice: TLC checks that every behaviour of this model is accepted        *)
(* (invariant Accepted), and DrawTypesTrace applies the same predicates to *)
(* observations recorded from the real generators.                         *)
(***************************************************************************)
EXTENDS Integers, Sequences, FiniteSets, TLC, Json, Term

CONSTANTS
    Sizes,      \* set of <<n, R>>: sizes requested from the deterministic (Halton) entries
    RandSizes,  \* set of <<n, R>>: sizes requested from the nondeterministic entries
    Den,        \* nondeterministic numbers are multiples of 1/Den (within [0,1) resp. within a stratum)
    MaxG        \* bound on the generated part of a nondeterministic entry (state space)

E(f, b, s, sy, an, no) == [fam |-> f, base |-> b, skip |-> s, sym |-> sy, anti |-> an, normal |-> no]

\* the 21 advertised entries (descriptions of native_random_number_generators / Database.generate_draws)
Advertised ==
    "UNIFORM"              :> E("iid",    0,  0, FALSE, FALSE, FALSE) @@
    "UNIFORM_ANTI"         :> E("iid",    0,  0, FALSE, TRUE,  FALSE) @@
    "UNIFORM_HALTON2"      :> E("halton", 2, 10, FALSE, FALSE, FALSE) @@
    "UNIFORM_HALTON3"      :> E("halton", 3, 10, FALSE, FALSE, FALSE) @@
    "UNIFORM_HALTON5"      :> E("halton", 5, 10, FALSE, FALSE, FALSE) @@
    "UNIFORM_MLHS"         :> E("mlhs",   0,  0, FALSE, FALSE, FALSE) @@
    "UNIFORM_MLHS_ANTI"    :> E("mlhs",   0,  0, FALSE, TRUE,  FALSE) @@
    "UNIFORMSYM"           :> E("iid",    0,  0, TRUE,  FALSE, FALSE) @@
    "UNIFORMSYM_ANTI"      :> E("iid",    0,  0, TRUE,  TRUE,  FALSE) @@
    "UNIFORMSYM_HALTON2"   :> E("halton", 2, 10, TRUE,  FALSE, FALSE) @@
    "UNIFORMSYM_HALTON3"   :> E("halton", 3, 10, TRUE,  FALSE, FALSE) @@
    "UNIFORMSYM_HALTON5"   :> E("halton", 5, 10, TRUE,  FALSE, FALSE) @@
    "UNIFORMSYM_MLHS"      :> E("mlhs",   0,  0, TRUE,  FALSE, FALSE) @@
    "UNIFORMSYM_MLHS_ANTI" :> E("mlhs",   0,  0, TRUE,  TRUE,  FALSE) @@
    "NORMAL"               :> E("iid",    0,  0, FALSE, FALSE, TRUE)  @@
    "NORMAL_ANTI"          :> E("iid",    0,  0, FALSE, TRUE,  TRUE)  @@
    "NORMAL_HALTON2"       :> E("halton", 2, 10, FALSE, FALSE, TRUE)  @@
    "NORMAL_HALTON3"       :> E("halton", 3, 10, FALSE, FALSE, TRUE)  @@
    "NORMAL_HALTON5"       :> E("halton", 5, 10, FALSE, FALSE, TRUE)  @@
    "NORMAL_MLHS"          :> E("mlhs",   0,  0, FALSE, FALSE, TRUE)  @@
    "NORMAL_MLHS_ANTI"     :> E("mlhs",   0,  0, FALSE, TRUE,  TRUE)

\* (an operator of its own so that a control run can substitute a mutated catalogue)
Cat == Advertised

Names == DOMAIN Cat
HaltonNames == {nm \in Names : Cat[nm].fam = "halton"}

\* the unit-interval entry an entry is "the 2u-1 map of" / "the quantile of"
UnitOf(nm) == CHOOSE m \in Names : Cat[m] = [Cat[nm] EXCEPT !.sym = FALSE, !.normal = FALSE]
\* mirror operation advertised for the OUTPUT values of an entry
MirrorOp(e) == IF e.normal \/ e.sym THEN "neg" ELSE "one_minus"
SupportOf(e) == IF e.normal THEN "real" ELSE IF e.sym THEN "sym" ELSE "unit"

---------------------------------------------------------------------------
(* radical inverse: two independent formulations *)
RECURSIVE RadInv(_, _)
RadInv(i, b) == IF i = 0 THEN Zero ELSE QDiv(QAdd(I(i % b), RadInv(i \div b, b)), I(b))

RECURSIVE Digits(_, _)      \* least significant digit first
Digits(i, b) == IF i = 0 THEN << >> ELSE <<i % b>> \o Digits(i \div b, b)
RadInvSum(i, b) == LET ds == Digits(i, b)
                   IN  SumSeq([k \in 1..Len(ds) |-> Q(ds[k], IPow(b, k))])

---------------------------------------------------------------------------
Cols(e, RR) == IF e.anti THEN RR \div 2 ELSE RR
GLen(e, nn, RR) == nn * Cols(e, RR)
Grid == {Q(j, Den) : j \in 0..(Den - 1)}

\* the admissible generated parts
Underlying(e, nn, RR) ==
    LET G == GLen(e, nn, RR) IN
    CASE e.fam = "halton" -> {[k \in 1..G |-> RadInv(e.skip + k, e.base)]}
      [] e.fam = "iid"    -> [1..G -> Grid]
      [] e.fam = "mlhs"   -> {[k \in 1..G |-> QDiv(QAdd(I(p[k] - 1), o[k]), I(G))] :
                                  p \in Permutations(1..G), o \in [1..G -> Grid]}

T(e, x) == IF e.normal THEN App("probit", <<x>>)
           ELSE IF e.sym THEN QSub(QMul(I(2), x), One) ELSE x
MirrorVal(e, y) == IF e.normal THEN Neg(y) ELSE IF e.sym THEN QNeg(y) ELSE QSub(One, y)

Build(e, nn, RR, g) ==
    LET C == Cols(e, RR) IN
    [i \in 1..nn |->
        LET first == [j \in 1..C |-> T(e, g[(i - 1) * C + j])] IN
        IF e.anti THEN first \o [j \in 1..C |-> MirrorVal(e, first[j])] ELSE first]

VARIABLES name, n, R, u, out, done
vars == <<name, n, R, u, out, done>>


Admissible(nm, nn, RR) ==
    LET e == Cat[nm] IN
    /\ nn >= 1 /\ RR >= 1
    /\ e.anti => RR % 2 = 0
    /\ IF e.fam = "halton" THEN <<nn, RR>> \in Sizes
       ELSE <<nn, RR>> \in RandSizes /\ GLen(e, nn, RR) <= MaxG

\* a state before `done` is a pending request generator(n, R) of the entry `name`
Init == /\ name \in Names
        /\ \E s \in Sizes \cup RandSizes : n = s[1] /\ R = s[2]
        /\ Admissible(name, n, R)
        /\ u = << >> /\ out = << >> /\ done = FALSE

Gen(nm, nn, RR) ==
    /\ ~done
    /\ name = nm /\ n = nn /\ R = RR
    /\ \E g \in Underlying(Cat[nm], nn, RR) :
          /\ u' = g
          /\ out' = Build(Cat[nm], nn, RR, g)
    /\ done' = TRUE
    /\ UNCHANGED <<name, n, R>>

Next == Gen(name, n, R)
Spec == Init /\ [][Next]_vars

---------------------------------------------------------------------------
(* Observation of an array and the acceptance predicates.  `v` is the      *)
(* value, `m` its advertised mirror, `s` the 2x-1 map of the corresponding *)
(* value of the unit entry built from the same generated part, `sup` the   *)
(* support flag, `q` the flag "this normal value is the quantile of its    *)
(* underlying uniform number" (an axiom of the primitive in the model).    *)
(* `st` are the stratum indices floor(u*G) of the generated part.          *)
(***************************************************************************)
InSupport(e, y) == IF e.normal THEN TRUE
                   ELSE IF e.sym THEN QLeq(I(-1), y) /\ QLeq(y, One)
                   ELSE QLeq(Zero, y) /\ QLeq(y, One)
Stratum(x, G) == (x.n * G) \div x.d

Observe(nm, nn, RR, g, o) ==
    LET e  == Cat[nm]
        uo == Build(Cat[UnitOf(nm)], nn, RR, g)
    IN  [rows |-> Len(o),
         cols |-> [i \in 1..Len(o) |-> Len(o[i])],
         pts  |-> [p \in 1..(nn * RR) |->
                     LET i == ((p - 1) \div RR) + 1
                         j == ((p - 1) % RR) + 1
                         y == o[i][j]
                     IN  [v |-> y, m |-> MirrorVal(e, y),
                          s |-> IF e.sym /\ ~e.normal THEN QSub(QMul(I(2), uo[i][j]), One) ELSE y,
                          sup |-> InSupport(e, y), q |-> TRUE]],
         st   |-> IF e.fam = "mlhs" THEN [k \in 1..Len(g) |-> Stratum(g[k], Len(g))] ELSE << >>]

ShapeOK(ob, nn, RR) == /\ ob.rows = nn /\ Len(ob.cols) = nn
                       /\ \A i \in 1..nn : ob.cols[i] = RR
                       /\ Len(ob.pts) = nn * RR
SupportOK(ob) == \A p \in DOMAIN ob.pts : ob.pts[p].sup
StrataOK(e, ob, nn, RR) ==
    e.fam = "mlhs" => LET G == GLen(e, nn, RR) IN
                      /\ Len(ob.st) = G
                      /\ {ob.st[k] : k \in 1..G} = 0..(G - 1)
MirrorOK(e, ob, nn, RR) ==
    e.anti => LET C == RR \div 2 IN
              /\ RR % 2 = 0
              /\ \A i \in 1..nn : \A j \in 1..C :
                    ob.pts[(i - 1) * RR + C + j].v = ob.pts[(i - 1) * RR + j].m
\* symmetric = 2x-1 of the unit entry, stated on the generated part (the first C columns of every row);
\* for the mirrored half it follows from MirrorOK and MirrorLaws (-(2x-1) = 2(1-x)-1), and stating it there
\* bit for bit would compare two different floating-point roundings of the same number
SymOK(e, ob, nn, RR) ==
    (e.sym /\ ~e.normal) => \A i \in 1..nn : \A j \in 1..Cols(e, RR) :
                                ob.pts[(i - 1) * RR + j].v = ob.pts[(i - 1) * RR + j].s
QuantBad(e, ob) == IF e.normal THEN {p \in DOMAIN ob.pts : ~ob.pts[p].q} ELSE {}

\* axiom check of the interpretation of probit (numeric accuracy is not decidable in TLA+):
\* the driver evaluates samples and hands in one flag per sample; the spec requires every flag
ProbitBad(flags) == {i \in DOMAIN flags : ~flags[i]}

Fails(nm, nn, RR, ob) ==
    LET e == Cat[nm] IN
    IF ~ShapeOK(ob, nn, RR) THEN {"shape"}
    ELSE (IF SupportOK(ob) THEN {} ELSE {"support"})
         \cup (IF StrataOK(e, ob, nn, RR) THEN {} ELSE {"strata"})
         \cup (IF MirrorOK(e, ob, nn, RR) THEN {} ELSE {"mirror"})
         \cup (IF SymOK(e, ob, nn, RR) THEN {} ELSE {"symmetric"})
         \cup (IF QuantBad(e, ob) = {} THEN {} ELSE {"quantile"})
ClauseOrder == <<"shape", "support", "strata", "mirror", "symmetric", "quantile">>
FirstOf(fs) == IF fs = {} THEN "ok"
               ELSE ClauseOrder[CHOOSE k \in 1..Len(ClauseOrder) :
                        ClauseOrder[k] \in fs /\ \A k2 \in 1..(k - 1) : ClauseOrder[k2] \notin fs]

---------------------------------------------------------------------------
(* Properties of the model, checked by TLC *)
TypeOK == done => /\ name \in Names /\ Len(out) = n
                  /\ \A i \in 1..n : Len(out[i]) = R
                  /\ Len(u) = GLen(Cat[name], n, R)

\* every behaviour of the model is accepted by the predicates the traces are judged with
Accepted == done => Fails(name, n, R, Observe(name, n, R, u, out)) = {}

\* Halton: the generated part is exactly the radical inverse sequence after the skip
PowerOf(b, d) == \E k \in 0..12 : IPow(b, k) = d
RadInvExact ==
    (done /\ Cat[name].fam = "halton") =>
        LET e == Cat[name] IN
        /\ \A k \in 1..Len(u) :
              /\ u[k] = RadInvSum(e.skip + k, e.base)
              /\ QLess(Zero, u[k]) /\ QLess(u[k], One)
              /\ PowerOf(e.base, u[k].d)
        /\ \A k1 \in 1..Len(u) : \A k2 \in 1..Len(u) : k1 # k2 => u[k1] # u[k2]
        \* digit shift: b*i has the radical inverse of i divided by b
        /\ \A k \in 1..Len(u) : RadInv(e.base * (e.skip + k), e.base) = QDiv(u[k], I(e.base))

\* entries of the same kind that advertise different bases yield different sequences,
\* and differ within the first 8 points
SameKind(a, b) == Cat[a].sym = Cat[b].sym /\ Cat[a].normal = Cat[b].normal /\ Cat[a].anti = Cat[b].anti
FlatOf(o, RR, k) == o[((k - 1) \div RR) + 1][((k - 1) % RR) + 1]
DistinctBases ==
    (done /\ Cat[name].fam = "halton") =>
        \A b \in HaltonNames :
            (SameKind(name, b) /\ Cat[b].base # Cat[name].base) =>
                LET ob == Build(Cat[b], n, R, CHOOSE g \in Underlying(Cat[b], n, R) : TRUE)
                    K  == IF n * R < 8 THEN n * R ELSE 8
                IN  /\ ob # out
                    /\ \E k \in 1..K : FlatOf(ob, R, k) # FlatOf(out, R, k)

\* the mirror of a symmetric value is the 2x-1 map of the mirror of the unit value;
\* mirroring twice is the identity
MirrorLaws ==
    (done /\ ~Cat[name].normal) =>
        LET e == Cat[name]
            eu == Cat[UnitOf(name)] IN
        \A k \in 1..Len(u) :
            /\ MirrorVal(e, T(e, u[k])) = T(e, MirrorVal(eu, u[k]))
            /\ MirrorVal(e, MirrorVal(e, T(e, u[k]))) = T(e, u[k])

\* catalogue sanity: 21 names, every entry has its unit counterpart, bases are the advertised primes
CatalogueOK == /\ Cardinality(Names) = 21
               /\ \A nm \in Names : UnitOf(nm) \in Names /\ ~Cat[UnitOf(nm)].sym /\ ~Cat[UnitOf(nm)].normal
               /\ \A nm \in HaltonNames : Cat[nm].base \in {2, 3, 5} /\ Cat[nm].skip = 10
               /\ \A nm \in Names \ HaltonNames : Cat[nm].base = 0 /\ Cat[nm].skip = 0

---------------------------------------------------------------------------
(* spec -> code: finished deterministic behaviours with their exact values *)
Emitted == [name |-> name, n |-> n, R |-> R, out |-> out]
EmitInv == (done /\ Cat[name].fam = "halton") => PrintT(ToJson(Emitted))

\* the catalogue as the driver needs it (which recordings to make, which mirror to compute)
CatalogueJson == [catalogue |-> [nm \in Names |->
                    [fam |-> Cat[nm].fam, base |-> Cat[nm].base, skip |-> Cat[nm].skip,
                     sym |-> Cat[nm].sym, anti |-> Cat[nm].anti, normal |-> Cat[nm].normal,
                     unit |-> UnitOf(nm), mirror |-> MirrorOp(Cat[nm]), support |-> SupportOf(Cat[nm])]]]
EmitCatalogue == PrintT(ToJson(CatalogueJson))   \* used as an ASSUME of the generated root module
=============================================================================
