----------------------------- MODULE DbObservers -----------------------------
(***************************************************************************)
(* Observers of a data set that the listed properties do not mention       *)
(* (beyond C13): availability of the chosen alternative, choice and        *)
(* availability statistics, suggested scaling, values of a formula -- on   *)
(* the table as it is after earlier removals (gaps in the row labels).     *)
(*                                                                         *)
(* A row is [id, ch, av, x]: a label-independent identity, the chosen      *)
(* alternative, the availability of alternatives 1..NA, a number.          *)
(* Modelled as the code behaves; deviations from the documentation named:  *)
(*   S1  suggest_scaling uses the LARGEST ABSOLUTE VALUE of the column,    *)
(*       not the difference between largest and smallest (documentation);  *)
(*   S2  its filter also drops scale 0.1 (and "10", which cannot occur);   *)
(*   T1  choice_availability_statistics lists only alternatives chosen at  *)
(*       least once; a chosen alternative missing from the availability    *)
(*       dictionary surfaces as KeyError, not as the library's error;      *)
(*   A1  check_availability_of_chosen_alt refuses (library error) a chosen *)
(*       alternative missing from the dictionary.                          *)
(***************************************************************************)
EXTENDS Integers, Sequences, FiniteSets, TLC, Json

CONSTANTS Rows0,      \* the initial table: sequence of [id, ch, av, x]
          NA,         \* alternatives 1..NA
          KeySets,    \* sets of alternatives offered as keys of the availability dictionary
          MaxSteps

VARIABLES table, hist, done
vars == <<table, hist, done>>

Alts == 1..NA
N == Len(table)
RECURSIVE SumSeq(_)
SumSeq(s) == IF s = << >> THEN 0 ELSE Head(s) + SumSeq(Tail(s))
Abs(v) == IF v < 0 THEN -v ELSE v
RECURSIVE Pow10(_)
Pow10(e) == IF e = 0 THEN 1 ELSE 10 * Pow10(e - 1)
MaxOf(S) == CHOOSE m \in S : \A y \in S : y <= m

\* ---- what each observer returns on the current table
AvailChosen(keys) ==
    IF N = 0 THEN [out |-> "refused"]
    ELSE IF \E k \in 1..N : table[k].ch \notin keys THEN [out |-> "refused"]
    ELSE [out |-> "ok", v |-> [k \in 1..N |-> table[k].av[table[k].ch] # 0]]
Stats(keys) ==
    IF N = 0 THEN [out |-> "refused"]
    ELSE IF \E k \in 1..N : table[k].ch \notin keys THEN [out |-> "KeyError"]                          \* T1
    ELSE [out |-> "ok",
          v |-> {[alt |-> a, chosen |-> Cardinality({k \in 1..N : table[k].ch = a}),
                  available |-> SumSeq([k \in 1..N |-> table[k].av[a]])] :
                 a \in {b \in Alts : \E k \in 1..N : table[k].ch = b}}]
\* exponent e with 10^(e - 1/2) <= max(1, lv) < 10^(e + 1/2), i.e. 10^(2e-1) <= lv^2 < 10^(2e+1)
Expo(lv) == LET m == IF lv < 1 THEN 1 ELSE lv
            IN  CHOOSE e \in 0..6 : (e = 0 \/ Pow10(2 * e - 1) <= m * m) /\ m * m < Pow10(2 * e + 1)
Scaling(all) ==
    IF N = 0 THEN [out |-> "empty"]
    ELSE LET lv == MaxOf({Abs(table[k].x) : k \in 1..N})                                                \* S1
             e == Expo(lv)
         IN  [out |-> "ok", largest |-> lv, expo |-> e, listed |-> all \/ e >= 2]                        \* S2
Values == [k \in 1..N |-> 2 * table[k].x + table[k].ch]

Init == table = Rows0 /\ hist = << >> /\ done = FALSE
Going == ~done /\ Len(hist) < MaxSteps
Log(op, arg, ret) == hist' = Append(hist, [op |-> op, arg |-> arg, ret |-> ret, ids |-> [k \in 1..Len(table') |-> table'[k].id]])

RemoveId(i) == /\ Going /\ \E k \in 1..N : table[k].id = i
               /\ table' = SelectSeq(table, LAMBDA r : r.id # i)
               /\ Log("remove", i, [out |-> "ok", v |-> 1]) /\ UNCHANGED done
ObsAvail(keys) == Going /\ UNCHANGED <<table, done>> /\ Log("avail_chosen", keys, AvailChosen(keys))
ObsStats(keys) == Going /\ UNCHANGED <<table, done>> /\ Log("stats", keys, Stats(keys))
ObsScaling(all) == Going /\ UNCHANGED <<table, done>> /\ Log("scaling", all, Scaling(all))
ObsValues == Going /\ N > 0 /\ UNCHANGED <<table, done>> /\ Log("values", 0, [out |-> "ok", v |-> Values])
Finish == ~done /\ Len(hist) = MaxSteps /\ done' = TRUE /\ UNCHANGED <<table, hist>>
Next == \/ \E i \in {Rows0[k].id : k \in 1..Len(Rows0)} : RemoveId(i)
        \/ \E ks \in KeySets : ObsAvail(ks) \/ ObsStats(ks)
        \/ \E b \in BOOLEAN : ObsScaling(b)
        \/ ObsValues \/ Finish
Spec == Init /\ [][Next]_vars

\* observers do not change the table; what they return depends on the table only (not on the labels, not on the history)
ObserversStutter == [][\A i \in 1..Len(table) : (Len(table') = Len(table)) => table'[i] = table[i]]_vars
StatsConsistent == \A ks \in KeySets :
    Stats(ks).out = "ok" => SumSeq([j \in 1..NA |-> LET S == {e \in Stats(ks).v : e.alt = j} IN
                                       IF S = {} THEN 0 ELSE (CHOOSE e \in S : TRUE).chosen]) = N
AvailWithinStats == \A ks \in KeySets :
    (AvailChosen(ks).out = "ok" /\ Stats(ks).out = "ok") =>
        \A e \in Stats(ks).v : Cardinality({k \in 1..N : table[k].ch = e.alt /\ AvailChosen(ks).v[k]}) <= e.available

EmitInv == done => PrintT(ToJson([steps |-> hist]))
=============================================================================
