---------------------------- MODULE HaltonSweep ----------------------------
(***************************************************************************)
(* Every total length of a Halton array (C11).                             *)
(*                                                                         *)
(* The property quantifies over ALL sample sizes n and numbers of draws R. *)
(* For a Halton entry the numbers depend on the product L = n*R only (the  *)
(* first L members of the sequence after the skip), the shape on (n, R).   *)
(* This module walks through EVERY length L = 1..MaxLen of every Halton    *)
(* entry of the catalogue:                                                 *)
(*                                                                         *)
(*   Extend     the sequence kept in `seq` grows by its next member        *)
(*              (incremental formulation: seq' = seq ++ <<RadInv(..)>>),   *)
(*              `acc` is the exact rolling sum of seq;                     *)
(*   Post(s)    a request generator(n, R) with n*R = Len(seq) is posted    *)
(*              (all factorisations for short lengths, three for longer);  *)
(*   Gen        the action of the design module DrawTypes answers it       *)
(*              (definitional formulation: u[k] = RadInv(skip + k)).       *)
(*                                                                         *)
(* TLC checks that the two formulations agree (SweepIsGen), that the       *)
(* rolling sum is the sum of the digit-reversed integers over the common   *)
(* denominator (ChecksumOK, a third formulation in integers), that a       *)
(* longer sequence only appends (PrefixStable) and that the answers are    *)
(* accepted observations (TypeOK, Accepted of DrawTypes).                  *)
(*                                                                         *)
(* Every answered request is printed with the exact LAST members of the    *)
(* array, the exact checksum and a few sampled positions; because of       *)
(* PrefixStable the last member printed for length k is member k of every  *)
(* longer array of the same entry, so the driver also knows the complete   *)
(* expected array.                                                         *)
(***************************************************************************)
EXTENDS DrawTypes

CONSTANTS
    MaxLen,         \* lengths 1..MaxLen
    AllShapesUpTo,  \* every factorisation (n, R) of L for L <= AllShapesUpTo
    LastK           \* number of trailing members printed

VARIABLES seq, acc
svars == <<name, n, R, u, out, done, seq, acc>>

\* sum of two rationals whose denominators are powers of the same base: the larger
\* denominator is the common one (QAdd would multiply the two denominators: 32 bits)
AddPow(x, y) == LET D == IF x.d >= y.d THEN x.d ELSE y.d
                IN  Q(x.n * (D \div x.d) + y.n * (D \div y.d), D)

Divisors(L) == {d \in 1..L : L % d = 0}
\* largest divisor not above the square root, smallest divisor above 1
Mid(L)   == CHOOSE d \in Divisors(L) : d * d <= L /\ \A d2 \in Divisors(L) : d2 * d2 <= L => d2 <= d
Least(L) == CHOOSE d \in Divisors(L) : (d > 1 \/ L = 1) /\ \A d2 \in Divisors(L) : d2 > 1 => d <= d2
Shapes(L) ==
    IF L <= AllShapesUpTo THEN {<<d, L \div d>> : d \in Divisors(L)}
    ELSE {<<Mid(L), L \div Mid(L)>>, <<L \div Mid(L), Mid(L)>>, <<Least(L), L \div Least(L)>>}

SInit == /\ name \in HaltonNames
         /\ n = 0 /\ R = 0 /\ u = << >> /\ out = << >> /\ done = FALSE
         /\ seq = << >> /\ acc = Zero

Extend == /\ n = 0 /\ ~done /\ Len(seq) < MaxLen
          /\ \E x \in {RadInv(Cat[name].skip + Len(seq) + 1, Cat[name].base)} :
                /\ seq' = Append(seq, x)
                /\ acc' = AddPow(acc, x)
          /\ UNCHANGED <<name, n, R, u, out, done>>

Post(s) == /\ n = 0 /\ ~done /\ Len(seq) >= 1
           /\ n' = s[1] /\ R' = s[2]
           /\ UNCHANGED <<name, u, out, done, seq, acc>>

Answer == /\ n >= 1
          /\ Gen(name, n, R)            \* the action of the design module
          /\ UNCHANGED <<seq, acc>>

SNext == IF n = 0 THEN Extend \/ (\E s \in Shapes(Len(seq)) : Post(s)) ELSE Answer
SweepSpec == SInit /\ [][SNext]_svars

---------------------------------------------------------------------------
\* the answer of the design module is the incrementally built sequence
SweepIsGen == done => /\ Len(u) = Len(seq) /\ Len(seq) = n * R
                      /\ \A k \in 1..Len(seq) : u[k] = seq[k]

\* third formulation, in integers: over m digits the radical inverse of i is rev(i)/b^m
RECURSIVE NDigits(_, _)
NDigits(i, b) == IF i = 0 THEN 0 ELSE 1 + NDigits(i \div b, b)
RECURSIVE Rev(_, _, _)
Rev(i, b, m) == IF m = 0 THEN 0 ELSE (i % b) * IPow(b, m - 1) + Rev(i \div b, b, m - 1)
RECURSIVE SumRev(_, _, _, _)      \* binary splitting: recursion depth log(hi - lo)
SumRev(lo, hi, b, m) == IF lo > hi THEN 0
                        ELSE IF lo = hi THEN Rev(lo, b, m)
                        ELSE LET mid == (lo + hi) \div 2
                             IN  SumRev(lo, mid, b, m) + SumRev(mid + 1, hi, b, m)
ChecksumOK ==
    (n = 0 /\ ~done) =>
        LET e == Cat[name]
            L == Len(seq)
            m == NDigits(e.skip + L, e.base)
        IN  acc = Q(SumRev(e.skip + 1, e.skip + L, e.base, m), IPow(e.base, m))

\* a longer sequence only appends
PrefixStable == [][/\ Len(seq') >= Len(seq)
                   /\ \A k \in 1..Len(seq) : seq'[k] = seq[k]]_svars

---------------------------------------------------------------------------
(* spec -> code *)
Min2(a, b) == IF a <= b THEN a ELSE b
\* checksum of the OUTPUT for the rational entries (2x-1 is affine); the normal entries have no
\* rational output: their checksum is the one of the underlying uniform numbers (usum)
OutSum(e, L) == IF e.normal THEN App("sum_probit", <<acc>>)
                ELSE IF e.sym THEN Q(2 * acc.n - L * acc.d, acc.d)
                ELSE acc
SamplePos(L) == <<1, Min2(L, (L \div 3) + 1), (L + 1) \div 2, Min2(L, ((2 * L) \div 3) + 1)>>

SweepEmitted ==
    LET L == n * R
        K == Min2(LastK, L)
        ps == SamplePos(L)
    IN  [sweep |-> name, n |-> n, R |-> R, L |-> L,
         last |-> [j \in 1..K |-> FlatOf(out, R, L - K + j)],
         usum |-> acc,
         osum |-> OutSum(Cat[name], L),
         samples |-> [j \in 1..Len(ps) |-> [p |-> ps[j], v |-> FlatOf(out, R, ps[j])]]]
SweepEmitInv == done => PrintT(ToJson(SweepEmitted))
=============================================================================
