------------------------------ MODULE Catalog ------------------------------
(***************************************************************************)
(* Catalogs, controllers and configurations of biogeme (property C16).     *)
(*                                                                         *)
(* A CONTROLLER has a name and an ordered list of alternative names; its   *)
(* state is the index of the selected alternative.  A CATALOG is a node of *)
(* a formula that owns one member formula per alternative of the           *)
(* controller that governs it; several catalogs may be governed by the     *)
(* same controller, and a member may itself contain catalogs.  A           *)
(* CONFIGURATION is one choice per controller.  Its identifier is the      *)
(* text  name:choice;name:choice;...  with the controllers sorted by name  *)
(* (Python string order, module Names).                                    *)
(*                                                                         *)
(* Written from the docstrings of biogeme.controller / configuration /     *)
(* catalog:                                                                *)
(*   - set_index: "set the index of the controller, and update the         *)
(*     controlled catalogs"                                                *)
(*   - modify_controller(step, circular): circular => wraps around ("if    *)
(*     the catalog is at its last value and the step is 1, it is set to    *)
(*     its first value"), otherwise stops at the first / last value        *)
(*   - increased_controller / decreased_controller: "increase / decrease   *)
(*     the selection of one controller by step" (circular)                 *)
(*   - two_controllers: NE = first +, second +; NW = first -, second +;    *)
(*     SE = first +, second -; SW = first -, second -                      *)
(*   - modify_random_controllers: "the selection of `step` controllers"    *)
(*     (at most all of them) is moved by 1: increased if `increase`,       *)
(*     decreased otherwise; returns the number of controllers modified     *)
(*   - Configuration: "internally a sorted list"; the string id is "a      *)
(*     unique string representation"; from_string is its inverse           *)
(*   - CentralController: "the total number of configurations is the       *)
(*     product of the length of each controller"                           *)
(*                                                                         *)
(* Formula nodes (sequence Form, children are EARLIER indices, the root is *)
(* the last node), record [op, kids, v, name]:                             *)
(*   "num"   v = the integer                                               *)
(*   "var"   v = index in Cols (integer data column)                       *)
(*   "beta"  v = index in Betas (named parameter with an integer value)    *)
(*   "plus" "minus" "times" "eq"   kids = <<a, b>>  (eq: 1 if equal else 0)*)
(*   "sum"   kids = operands (bioMultSum)                                  *)
(*   "elem"  kids = <<key, e1, .., en>>: the branch e_k with k = value of  *)
(*           the key                                                       *)
(*   "cat"   a catalog: name = its name, v = index of the governing        *)
(*           controller in Ctrls, names = the names of its members IN THE  *)
(*           ORDER THE CATALOG LISTS THEM, kids = the members in that same *)
(*           order (names = << >> for every other kind of node)            *)
(*                                                                         *)
(* Three state machines share the definitions of this module:              *)
(*   Spec        the catalogs / controllers / central controller           *)
(*   BehindSpec  the same actions, restricted to the histories "select A,  *)
(*               move ONE controller individually, re-select A or apply an *)
(*               operator to A" (the operators take the configuration they *)
(*               start from as an ARGUMENT, not the current one)           *)
(*   ConfSpec    one Configuration OBJECT whose selections are assigned    *)
(*               after its creation (Create / ReadId / Assign)             *)
(*                                                                         *)
(* More documentation used:                                                *)
(*   - Catalog.__init__: ":raise BiogemeError: if incompatible Controller" *)
(*     -- "Incompatible IDs between catalog [names] and controller         *)
(*     [names]": the member names of every catalog governed by a           *)
(*     controller are the controller's specification names (same list).    *)
(*   - Catalog.from_dict: "Python does not guarantee the order of elements *)
(*     of a dict ... If the order is critical, it is better to use the     *)
(*     main constructor": the ORDER in which a catalog lists its members   *)
(*     carries no meaning; a selection designates a member BY NAME         *)
(*     (Controller.current_name / set_name, SelectionTuple.selection).     *)
(*   - increased_controller(controller_name, current_config, step) etc.:   *)
(*     ":param current_config: current configuration" -- the operator      *)
(*     starts from the configuration it is GIVEN.                          *)
(*   - Configuration: `selections` is a public property with a setter;     *)
(*     "the string ID is a unique string representation of the             *)
(*     configuration" (of its selections, whenever it is read).            *)
(***************************************************************************)
EXTENDS Integers, Sequences, FiniteSets, TLC, Json

NM == INSTANCE Names

CONSTANTS
    Label,      \* name of the structure (string), copied into everything that is printed
    Ctrls,      \* sequence of [name |-> code points, alts |-> <<code points, ...>>]
    Form,       \* the formula
    Cols,       \* sequence of [name |-> code points, vals |-> <<integer per row>>]
    Betas,      \* sequence of [name |-> code points, val |-> integer]
    NRows,
    MaxStep,    \* operators are applied with steps 1..MaxStep
    MaxLen,     \* length of the recorded operator sequences (Record = TRUE)
    Record,     \* TRUE: the history is part of the state (behaviours are printed for replay)
                \* FALSE: the state is the configuration only (the full state graph is closed)
    FirstSetConf, \* Record = TRUE: the first recorded step selects an arbitrary configuration, so that
                \* sequences of length n cover "every configuration x every operator sequence of length n-1"
    MaxIter,    \* the iteration sub-process is explored when NConf <= MaxIter (Record = FALSE)
    DecSign,    \* -1.  (+1 is the mutant "decrease increases", used as negative control)
    SevDecSign, \* -1.  (+1 is the mutant of the random operator)
    CSelSeq,    \* ConfSpec: the selections a Configuration object is created with / assigned: a sequence of
                \* tuples, one entry per controller, -1 = the controller is not mentioned, else the index of the choice
    CMaxLen     \* ConfSpec: length of the histories of the Configuration object

VARIABLES
    idx,        \* controller -> index of its selected alternative (0-based)
    csel,       \* catalog node -> index of the member it currently presents
    hist,       \* recorded steps
    done,       \* the recorded behaviour is closed
    iter,       \* an iteration over all configurations is in progress
    pending,    \* configurations the iteration has still to visit
    nvis,       \* number of configurations visited by the iteration in progress
    cobj,       \* ConfSpec: the Configuration object [st |-> "none" | "unset" | "set", sel |-> its selections]
    clog        \* ConfSpec: recorded history of the object
vars    == <<idx, csel, hist, done, iter, pending, nvis>>
cvars   == <<cobj, clog>>
allvars == <<idx, csel, hist, done, iter, pending, nvis, cobj, clog>>

COLON == 58
SEMI  == 59

NC       == Len(Ctrls)
C        == 1..NC
Size(c)  == Len(Ctrls[c].alts)
MaxSize  == CHOOSE m \in {Size(c) : c \in C} : \A c \in C : Size(c) <= m
Root     == Len(Form)
Rows     == 1..NRows
Steps    == 1..MaxStep
Dirs     == {"NE", "NW", "SE", "SW"}
\* the public ways of moving ONE controller: Expression.select_expression, CentralController.set_controller,
\* Controller.set_index, Controller.set_name, and set_controller of a SECOND central controller built on the
\* same formula.  "any": the way is left to whoever replays the behaviour.
Vias     == {"expression", "central", "index", "name", "second"}
CatNodes == {i \in 1..Len(Form) : Form[i].op = "cat"}
CtrlOf(i) == Form[i].v
Mod(a, n) == ((a % n) + n) % n
Min(a, b) == IF a <= b THEN a ELSE b
SeqToSet(s) == {s[i] : i \in 1..Len(s)}

(***************************************************************************)
(* Well-formedness of an instance (what the library demands of its user,   *)
(* or what its constructors guarantee).                                    *)
(***************************************************************************)
NoSep(nm) == \A i \in 1..Len(nm) : nm[i] # COLON /\ nm[i] # SEMI
WellFormed ==
    /\ NC >= 1
    /\ \A c \in C : Size(c) >= 1 /\ NoSep(Ctrls[c].name) /\ Ctrls[c].name # << >>
    /\ \A a, b \in C : a # b => Ctrls[a].name # Ctrls[b].name
    /\ \A c \in C : \A j \in 1..Size(c) : NoSep(Ctrls[c].alts[j])
    /\ \A c \in C : \A j, k \in 1..Size(c) : j # k => Ctrls[c].alts[j] # Ctrls[c].alts[k]
    /\ \A i \in 1..Len(Form) : \A q \in 1..Len(Form[i].kids) : Form[i].kids[q] < i
    /\ \A i \in CatNodes : CtrlOf(i) \in C /\ Len(Form[i].kids) = Size(CtrlOf(i)) /\ NoSep(Form[i].name)
    \* the members of a catalog carry the names of the alternatives of its controller (the same SET; the order
    \* is judged by OrderMatches below)
    /\ \A i \in CatNodes : /\ Len(Form[i].names) = Size(CtrlOf(i))
                            /\ SeqToSet(Form[i].names) = SeqToSet(Ctrls[CtrlOf(i)].alts)
    /\ \A c \in C : \E i \in CatNodes : CtrlOf(i) = c        \* every controller governs a catalog
ASSUME WellFormed

(***************************************************************************)
(* The documented rule on the members of catalogs sharing a controller:    *)
(* the names a catalog lists are the controller's names -- the same LIST.  *)
(* A structure in which some catalog lists them in another order is        *)
(* REFUSED when it is built (BiogemeError).  Should such a structure be    *)
(* accepted nevertheless, a selection still designates a member by NAME:   *)
(* everything below (MemberPos, Sync, ValSel, Resolve) is written for that *)
(* reading, so the specification also says what an accepting               *)
(* implementation has to present.                                          *)
(***************************************************************************)
OrderMatches(i) == Form[i].names = Ctrls[CtrlOf(i)].alts
Misordered      == {i \in CatNodes : ~OrderMatches(i)}
Refused         == Misordered # {}
Verdict         == IF Refused THEN "refused" ELSE "accepted"

\* position (0-based) at which catalog i lists the alternative k (0-based) of its controller
MemberPos(i, k) ==
    (CHOOSE j \in 1..Len(Form[i].names) : Form[i].names[j] = Ctrls[CtrlOf(i)].alts[k + 1]) - 1

(***************************************************************************)
(* Configurations and their identifiers.                                   *)
(***************************************************************************)
Configs == {f \in [C -> 0..(MaxSize - 1)] : \A c \in C : f[c] < Size(c)}
Zero    == [c \in C |-> 0]

RECURSIVE ProdTo(_)
ProdTo(k) == IF k = 0 THEN 1 ELSE Size(k) * ProdTo(k - 1)
NConf == ProdTo(NC)

CtrlNames   == {Ctrls[c].name : c \in C}
ByRank(r)   == CHOOSE c \in C : NM!Rank(Ctrls[c].name, CtrlNames) = r
SortedCtrls == [r \in 1..NC |-> ByRank(r - 1)]          \* controllers in the order of their names

TermOf(c, k) == Ctrls[c].name \o <<COLON>> \o Ctrls[c].alts[k + 1]

\* the terms of f, listed in the given order of controllers, joined by ';'
RECURSIVE JoinTerms(_, _)
JoinTerms(order, f) ==
    IF order = << >> THEN << >>
    ELSE TermOf(Head(order), f[Head(order)])
         \o (IF Len(order) = 1 THEN << >> ELSE <<SEMI>> \o JoinTerms(Tail(order), f))

PrintId(f) == JoinTerms(SortedCtrls, f)
AllIds     == {PrintId(f) : f \in Configs}
Perms      == {p \in [C -> C] : \A a, b \in C : a # b => p[a] # p[b]}

\* reading an identifier
FirstAt(s, sep) == IF \E i \in 1..Len(s) : s[i] = sep
                   THEN CHOOSE i \in 1..Len(s) : s[i] = sep /\ \A j \in 1..(i - 1) : s[j] # sep
                   ELSE 0
RECURSIVE Split(_, _)
Split(s, sep) == LET p == FirstAt(s, sep) IN
                 IF p = 0 THEN <<s>>
                 ELSE <<SubSeq(s, 1, p - 1)>> \o Split(SubSeq(s, p + 1, Len(s)), sep)

ParseId(s) ==
    LET terms  == Split(s, SEMI)
        pieces == [t \in 1..Len(terms) |-> Split(terms[t], COLON)]
        shape  == \A t \in 1..Len(terms) : Len(pieces[t]) = 2
        TermsOf(c) == {t \in 1..Len(terms) : pieces[t][1] = Ctrls[c].name}
        known  == \A t \in 1..Len(terms) : \E c \in C :
                     /\ pieces[t][1] = Ctrls[c].name
                     /\ \E j \in 1..Size(c) : pieces[t][2] = Ctrls[c].alts[j]
        once   == \A c \in C : Cardinality(TermsOf(c)) = 1
    IN  IF shape /\ known /\ once
        THEN [ok |-> TRUE,
              cfg |-> [c \in C |->
                         LET t == CHOOSE u \in TermsOf(c) : TRUE IN
                         (CHOOSE j \in 1..Size(c) : pieces[t][2] = Ctrls[c].alts[j]) - 1]]
        ELSE [ok |-> FALSE, cfg |-> Zero]

(***************************************************************************)
(* SELECTIONS: what a Configuration object holds -- a choice for SOME of   *)
(* the controllers (a configuration of the formula is a selection that     *)
(* mentions all of them).  s[c] = -1: controller c is not mentioned.       *)
(* The identifier is written and read like that of a configuration.        *)
(***************************************************************************)
NoSel        == [c \in C |-> 0 - 1]
Mentioned(s) == SelectSeq(SortedCtrls, LAMBDA c : s[c] >= 0)   \* sorted by controller name
PrintSel(s)  == JoinTerms(Mentioned(s), s)
\* the sorted list of (controller, choice) pairs the object exposes
PairsOf(s)   == LET m == Mentioned(s) IN
                [r \in 1..Len(m) |-> [ctrl |-> Ctrls[m[r]].name, alt |-> Ctrls[m[r]].alts[s[m[r]] + 1]]]
ParseSel(t)  ==
    LET terms  == Split(t, SEMI)
        pieces == [q \in 1..Len(terms) |-> Split(terms[q], COLON)]
        shape  == \A q \in 1..Len(terms) : Len(pieces[q]) = 2
        TermsOf(c) == {q \in 1..Len(terms) : pieces[q][1] = Ctrls[c].name}
        known  == \A q \in 1..Len(terms) : \E c \in C :
                     /\ pieces[q][1] = Ctrls[c].name
                     /\ \E j \in 1..Size(c) : pieces[q][2] = Ctrls[c].alts[j]
        atmost == \A c \in C : Cardinality(TermsOf(c)) <= 1
    IN  IF shape /\ known /\ atmost
        THEN [ok |-> TRUE,
              sel |-> [c \in C |->
                         IF TermsOf(c) = {} THEN 0 - 1
                         ELSE LET q == CHOOSE u \in TermsOf(c) : TRUE IN
                              (CHOOSE j \in 1..Size(c) : pieces[q][2] = Ctrls[c].alts[j]) - 1]]
        ELSE [ok |-> FALSE, sel |-> NoSel]
CSels == SeqToSet(CSelSeq)

(***************************************************************************)
(* The neighbourhood operators, as functions on configurations.            *)
(***************************************************************************)
Inc(f, c, s) == [f EXCEPT ![c] = Mod(f[c] + s, Size(c))]
Dec(f, c, s) == [f EXCEPT ![c] = Mod(f[c] + DecSign * s, Size(c))]

East(d)  == d \in {"NE", "SE"}     \* the FIRST controller is increased
North(d) == d \in {"NE", "NW"}     \* the SECOND controller is increased
PairOp(f, c1, c2, d, s) ==
    LET g == IF East(d) THEN Inc(f, c1, s) ELSE Dec(f, c1, s)
    IN  IF North(d) THEN Inc(g, c2, s) ELSE Dec(g, c2, s)
Opposite(d) == CASE d = "NE" -> "SW" [] d = "SW" -> "NE" [] d = "NW" -> "SE" [] d = "SE" -> "NW"

\* `min(step, number of controllers)` DISTINCT controllers each move by one
SeveralCount(s) == Min(s, NC)
MoveSet(f, S, d) == [c \in C |-> IF c \in S THEN Mod(f[c] + d, Size(c)) ELSE f[c]]
SeveralSet(f, up, s) ==
    {MoveSet(f, S, IF up THEN 1 ELSE SevDecSign) : S \in {T \in SUBSET C : Cardinality(T) = SeveralCount(s)}}

\* modify_controller(step = delta, circular)
Modify(f, c, delta, circular) ==
    LET n == f[c] + delta IN
    [f EXCEPT ![c] = IF circular THEN Mod(n, Size(c))
                     ELSE IF n < 0 THEN 0 ELSE IF n >= Size(c) THEN Size(c) - 1 ELSE n]

NOperators == 2 * NC + 4 * NC * (NC - 1) + 2     \* prepare_operators()

(***************************************************************************)
(* Meaning of the formula.                                                 *)
(* ValSel: the configured formula -- each catalog presents ITS OWN member  *)
(* (csel).  Resolve: the formula written out by hand for a configuration   *)
(* (a tree without catalogs); TVal evaluates such a tree.                  *)
(***************************************************************************)
RECURSIVE SumVals(_, _, _, _)
RECURSIVE ValSel(_, _, _)
ValSel(i, sel, r) ==
    LET n == Form[i] IN
    CASE n.op = "num"   -> n.v
      [] n.op = "var"   -> Cols[n.v].vals[r]
      [] n.op = "beta"  -> Betas[n.v].val
      [] n.op = "plus"  -> ValSel(n.kids[1], sel, r) + ValSel(n.kids[2], sel, r)
      [] n.op = "minus" -> ValSel(n.kids[1], sel, r) - ValSel(n.kids[2], sel, r)
      [] n.op = "times" -> ValSel(n.kids[1], sel, r) * ValSel(n.kids[2], sel, r)
      [] n.op = "eq"    -> IF ValSel(n.kids[1], sel, r) = ValSel(n.kids[2], sel, r) THEN 1 ELSE 0
      [] n.op = "sum"   -> SumVals(n.kids, 1, sel, r)
      [] n.op = "elem"  -> ValSel(n.kids[1 + ValSel(n.kids[1], sel, r)], sel, r)
      [] n.op = "cat"   -> ValSel(n.kids[sel[i] + 1], sel, r)
SumVals(kids, q, sel, r) == IF q > Len(kids) THEN 0 ELSE ValSel(kids[q], sel, r) + SumVals(kids, q + 1, sel, r)

RECURSIVE Resolve(_, _)
Resolve(i, f) ==
    LET n == Form[i] IN
    IF n.op = "cat" THEN Resolve(n.kids[MemberPos(i, f[n.v]) + 1], f)     \* the member with the matching NAME
    ELSE [op |-> n.op, v |-> n.v, kids |-> [q \in 1..Len(n.kids) |-> Resolve(n.kids[q], f)]]

RECURSIVE SumT(_, _, _)
RECURSIVE TVal(_, _)
TVal(t, r) ==
    CASE t.op = "num"   -> t.v
      [] t.op = "var"   -> Cols[t.v].vals[r]
      [] t.op = "beta"  -> Betas[t.v].val
      [] t.op = "plus"  -> TVal(t.kids[1], r) + TVal(t.kids[2], r)
      [] t.op = "minus" -> TVal(t.kids[1], r) - TVal(t.kids[2], r)
      [] t.op = "times" -> TVal(t.kids[1], r) * TVal(t.kids[2], r)
      [] t.op = "eq"    -> IF TVal(t.kids[1], r) = TVal(t.kids[2], r) THEN 1 ELSE 0
      [] t.op = "sum"   -> SumT(t.kids, 1, r)
      [] t.op = "elem"  -> TVal(t.kids[1 + TVal(t.kids[1], r)], r)
SumT(kids, q, r) == IF q > Len(kids) THEN 0 ELSE TVal(kids[q], r) + SumT(kids, q + 1, r)

SelOf(f)   == [i \in CatNodes |-> MemberPos(i, f[CtrlOf(i)])]
Values(f)  == [r \in Rows |-> TVal(Resolve(Root, f), r)]

(***************************************************************************)
(* State machine of the catalogs.                                          *)
(***************************************************************************)
Init == /\ idx = Zero
        /\ csel = SelOf(Zero)
        /\ hist = << >> /\ done = FALSE
        /\ iter = FALSE /\ pending = {} /\ nvis = 0
        /\ cobj = [st |-> "none", sel |-> NoSel] /\ clog = << >>

\* set_index: the controller takes index k; every catalog it governs presents the member of that name
SetOne(c, k) == /\ idx' = [idx EXCEPT ![c] = k]
                /\ csel' = [i \in CatNodes |-> IF CtrlOf(i) = c THEN MemberPos(i, k) ELSE csel[i]]
\* one set_index per controller
SetAll(f) == /\ idx' = f
             /\ csel' = SelOf(f)

AsSeq(f) == [c \in 1..NC |-> f[c]]
\* `from`: the configuration an operator was GIVEN to start from; `via`: the way one controller was moved
Step(op, a, b, d, s, circ, text, f, ret, allowed, from, via) ==
    [op |-> op, a |-> a, b |-> b, dir |-> d, step |-> s, circ |-> circ, text |-> text,
     cfg |-> AsSeq(f), ret |-> ret, allowed |-> allowed, from |-> AsSeq(from), via |-> via]
Log(rec) == /\ hist' = IF Record THEN Append(hist, rec) ELSE hist
            /\ UNCHANGED <<done, iter, pending, nvis>>

\* the individual move of ONE controller (whatever the public way it is asked through)
ASetIndex(c, k, via) ==
    /\ SetOne(c, k)
    /\ Log(Step("setindex", c, k, "", 0, FALSE, << >>, [idx EXCEPT ![c] = k], 0, {}, idx, via))

\* text = the identifier of the configuration that is ASKED for (cfg = the one expected afterwards)
ASetConf(f) ==
    /\ SetAll(f)
    /\ Log(Step("setconf", 0, 0, "", 0, FALSE, PrintId(f), f, 0, {}, idx, ""))

\* the identifier of f with its terms listed in the order p
\* (written and read once per (p, f): the table is a constant, TLC evaluates it a single time)
IdTable == TLCEval([p \in Perms |-> TLCEval([f \in Configs |->
               LET text == JoinTerms(p, f) IN TLCEval([text |-> text, got |-> ParseId(text)])])])
AFromString(p, f) ==
    LET text == IdTable[p][f].text
        got  == IdTable[p][f].got
    IN  /\ got.ok
        /\ SetAll(got.cfg)
        /\ Log(Step("fromstring", 0, 0, "", 0, FALSE, text, got.cfg, 0, {}, idx, ""))

\* The operators are functions of the configuration g they are given ("current_config"); the result is
\* selected.  The state of the controllers before the call does not matter.
AIncrease(g, c, s) ==
    /\ SetAll(Inc(g, c, s))
    /\ Log(Step("inc", c, 0, "", s, TRUE, << >>, Inc(g, c, s), s, {}, g, ""))

ADecrease(g, c, s) ==
    /\ SetAll(Dec(g, c, s))
    /\ Log(Step("dec", c, 0, "", s, TRUE, << >>, Dec(g, c, s), s, {}, g, ""))

APair(g, c1, c2, d, s) ==
    /\ c1 # c2
    /\ SetAll(PairOp(g, c1, c2, d, s))
    /\ Log(Step("pair", c1, c2, d, s, TRUE, << >>, PairOp(g, c1, c2, d, s), s, {}, g, ""))

ASeveral(g, up, s) ==
    \E h \in SeveralSet(g, up, s) :
        /\ SetAll(h)
        /\ Log(Step(IF up THEN "sevinc" ELSE "sevdec", 0, 0, "", s, TRUE, << >>, h, SeveralCount(s),
                    {AsSeq(x) : x \in SeveralSet(g, up, s)}, g, ""))

\* Controller.modify_controller: another individual move, relative to the controller's own index
AModify(c, delta, circ) ==
    /\ delta # 0
    /\ SetAll(Modify(idx, c, delta, circ))
    /\ Log(Step("modify", c, 0, "", delta, circ, << >>, Modify(idx, c, delta, circ), 0, {}, idx, ""))

\* Iteration over the formula: every configuration is selected in turn, in no specified order.
\* Record = TRUE: one closing step (the order, hence the configuration left behind, is free).
AIterate ==
    /\ Record
    /\ hist' = Append(hist, Step("iterate", 0, 0, "", 0, FALSE, << >>, idx, NConf, {}, idx, ""))
    /\ done' = TRUE
    /\ UNCHANGED <<idx, csel, iter, pending, nvis>>
\* Record = FALSE: the sub-process itself
IterStart == /\ ~Record /\ ~iter /\ NConf <= MaxIter
             /\ iter' = TRUE /\ pending' = Configs /\ nvis' = 0
             /\ UNCHANGED <<idx, csel, hist, done>>
IterStep  == /\ iter
             /\ \E f \in pending : SetAll(f) /\ pending' = pending \ {f}
             /\ nvis' = nvis + 1
             /\ UNCHANGED <<hist, done, iter>>
IterEnd   == /\ iter /\ pending = {}
             /\ iter' = FALSE /\ nvis' = 0
             /\ UNCHANGED <<idx, csel, hist, done, pending>>

\* every operator applied to the CURRENT configuration
Operate ==
    \/ \E c \in C : \E k \in 0..(Size(c) - 1) : ASetIndex(c, k, "any")
    \/ \E f \in Configs : ASetConf(f)
    \/ \E p \in Perms : \E f \in Configs : AFromString(p, f)
    \/ \E c \in C : \E s \in Steps : AIncrease(idx, c, s) \/ ADecrease(idx, c, s)
    \/ \E c1, c2 \in C : \E d \in Dirs : \E s \in Steps : APair(idx, c1, c2, d, s)
    \/ \E up \in BOOLEAN : \E s \in Steps : ASeveral(idx, up, s)
    \/ \E c \in C : \E delta \in (0 - MaxStep)..MaxStep : \E circ \in BOOLEAN : AModify(c, delta, circ)

CatNext == \/ /\ ~done /\ ~iter /\ Len(hist) < MaxLen
              /\ IF Record /\ FirstSetConf /\ hist = << >>
                 THEN \E f \in Configs : ASetConf(f)
                 ELSE Operate \/ AIterate
           \/ IterStart \/ IterStep \/ IterEnd
Next == CatNext /\ UNCHANGED cvars
Spec == Init /\ [][Next]_allvars

(***************************************************************************)
(* Histories that move a controller behind the central controller's back   *)
(* (Record = TRUE, three steps):                                           *)
(*   1. a configuration A is selected;                                     *)
(*   2. ONE controller is moved individually, in each of the public ways   *)
(*      (or by modify_controller, one position);                           *)
(*   3. A is selected again (as a configuration or through its identifier  *)
(*      in any order of the terms), or a neighbourhood operator is applied *)
(*      to A -- the configuration the caller still holds.                  *)
(* Whatever step 2 did, step 3 leads where it leads from A.                *)
(***************************************************************************)
Chosen == hist[1].cfg          \* the configuration A of step 1 (a tuple = a function on C)
BehindNext ==
    /\ Record /\ ~done /\ ~iter
    /\ IF Len(hist) = 0 THEN \E f \in Configs : ASetConf(f)
       ELSE IF Len(hist) = 1 THEN
            \/ \E c \in C : \E k \in (0..(Size(c) - 1)) \ {idx[c]} : \E via \in Vias : ASetIndex(c, k, via)
            \/ \E c \in C : \E delta \in {0 - 1, 1} : \E circ \in BOOLEAN : AModify(c, delta, circ)
       ELSE IF Len(hist) = 2 THEN
            \/ ASetConf(Chosen)
            \/ \E p \in Perms : AFromString(p, Chosen)
            \/ \E c \in C : \E s \in Steps : AIncrease(Chosen, c, s) \/ ADecrease(Chosen, c, s)
            \/ \E c1, c2 \in C : \E d \in Dirs : \E s \in Steps : APair(Chosen, c1, c2, d, s)
            \/ \E up \in BOOLEAN : \E s \in Steps : ASeveral(Chosen, up, s)
       ELSE FALSE
BehindSpec == Init /\ [][BehindNext /\ UNCHANGED cvars]_allvars

\* selecting A again restores A, and an operator given A ignores the move made in between
BehindInv ==
    (Record /\ Len(hist) = 3 /\ hist[2].op \in {"setindex", "modify"}) =>
        LET last == hist[3] IN
        /\ last.op \in {"inc", "dec", "pair", "sevinc", "sevdec"} => last.from = hist[1].cfg
        /\ last.op \in {"setconf", "fromstring"} => idx = hist[1].cfg /\ csel = SelOf(hist[1].cfg)
        /\ last.op = "inc" => idx = Inc(hist[1].cfg, last.a, last.step)
        /\ last.op = "dec" => idx = Dec(hist[1].cfg, last.a, last.step)
        /\ last.op = "pair" => idx = PairOp(hist[1].cfg, last.a, last.b, last.dir, last.step)
        /\ last.op \in {"sevinc", "sevdec"} => idx \in SeveralSet(hist[1].cfg, last.op = "sevinc", last.step)

(***************************************************************************)
(* State machine of ONE Configuration object (ConfSpec).                   *)
(*   Create(s)  the object is built with the selections s (CreateEmpty:    *)
(*              without selections)                                        *)
(*   ReadId     its identifier is read (get_string_id, str, repr), it is   *)
(*              compared / hashed, and converted back from the identifier  *)
(*   Assign(s)  new selections are assigned through the public setter      *)
(* Whenever it is read, the object is described by its CURRENT selections. *)
(* Each recorded step carries the observables AFTER the step: identifier,  *)
(* sorted pairs, and for every selection of CSelSeq whether an object      *)
(* built from it is equal to this one.                                     *)
(***************************************************************************)
CObs(op, s, isset) ==
    [op |-> op, sel |-> AsSeq(s), set |-> isset,
     id |-> IF isset THEN PrintSel(s) ELSE << >>,
     pairs |-> IF isset THEN PairsOf(s) ELSE << >>,
     eq |-> [k \in 1..Len(CSelSeq) |-> isset /\ PrintSel(CSelSeq[k]) = PrintSel(s)]]

CCreate(s) == /\ cobj.st = "none"
              /\ cobj' = [st |-> "set", sel |-> s]
              /\ clog' = Append(clog, CObs("create", s, TRUE))
CCreateEmpty == /\ cobj.st = "none"
                /\ cobj' = [st |-> "unset", sel |-> NoSel]
                /\ clog' = Append(clog, CObs("empty", NoSel, FALSE))
CReadId == /\ cobj.st = "set"
           /\ clog' = Append(clog, CObs("read", cobj.sel, TRUE))
           /\ UNCHANGED cobj
CAssign(s) == /\ cobj.st \in {"unset", "set"}
              /\ cobj' = [st |-> "set", sel |-> s]
              /\ clog' = Append(clog, CObs("assign", s, TRUE))

ConfNext == /\ Len(clog) < CMaxLen
            /\ \/ \E s \in CSels : CCreate(s) \/ CAssign(s)
               \/ CCreateEmpty
               \/ CReadId
ConfSpec == Init /\ [][ConfNext /\ UNCHANGED vars]_allvars

\* the identifier determines the selections uniquely ...
CIdsUnique == \A s, t \in CSels : PrintSel(s) = PrintSel(t) => AsSeq(s) = AsSeq(t)
\* ... and converts back to them (also for the full configurations, where both readings agree)
CRoundTrip == cobj.st = "set" =>
                  LET got == ParseSel(PrintSel(cobj.sel)) IN
                  /\ got.ok /\ AsSeq(got.sel) = AsSeq(cobj.sel)
                  /\ PrintSel(got.sel) = PrintSel(cobj.sel)
                  /\ (\A c \in C : cobj.sel[c] >= 0) => /\ PrintSel(cobj.sel) = PrintId(cobj.sel)
                                                         /\ AsSeq(ParseId(PrintSel(cobj.sel)).cfg) = AsSeq(cobj.sel)
\* what was recorded last describes the current selections (never those of an earlier step)
CCurrent == (clog # << >> /\ cobj.st = "set") =>
                LET last == clog[Len(clog)] IN
                /\ last.sel = AsSeq(cobj.sel) /\ last.id = PrintSel(cobj.sel)
                /\ \A k \in 1..Len(CSelSeq) : last.eq[k] <=> (AsSeq(CSelSeq[k]) = AsSeq(cobj.sel))
CEmitInv == (Len(clog) = CMaxLen /\ CMaxLen > 0) =>
                PrintT(ToJson([kind |-> "confobj", label |-> Label, steps |-> clog]))

(***************************************************************************)
(* The property, on the model.                                             *)
(***************************************************************************)
Valid == /\ idx \in Configs
         /\ \A i \in CatNodes : csel[i] \in 0..(Len(Form[i].kids) - 1)

\* exactly one configuration per combination of controller choices
CountInv == Cardinality(Configs) = NConf

\* the identifier determines the configuration ...
IdsUnique == Cardinality(AllIds) = NConf
\* ... whatever the order of the terms, converts back, and is sorted by controller name
IdCanonical ==
    /\ \A p \in Perms : LET got == ParseId(JoinTerms(p, idx)) IN got.ok /\ got.cfg = idx
    /\ PrintId(ParseId(PrintId(idx)).cfg) = PrintId(idx)
    /\ \A a, b \in 1..NC : a < b => NM!Less(Ctrls[SortedCtrls[a]].name, Ctrls[SortedCtrls[b]].name)
    /\ \A p \in Perms : PrintId(ParseId(JoinTerms(p, idx)).cfg) = PrintId(idx)

\* all catalogs of a controller present the alternative the controller selects: the member of that NAME
Sync == \A i \in CatNodes : Form[i].names[csel[i] + 1] = Ctrls[CtrlOf(i)].alts[idx[CtrlOf(i)] + 1]
\* in a structure that is not refused, that member stands at the controller's index
SyncPos == ~Refused => \A i \in CatNodes : csel[i] = idx[CtrlOf(i)]

\* the configured formula evaluates like the formula written out by hand
ValueAgrees == \A r \in Rows : ValSel(Root, csel, r) = TVal(Resolve(Root, idx), r)

\* every operator maps a valid configuration to a valid one
Closure ==
    /\ \A c \in C, s \in Steps : Inc(idx, c, s) \in Configs /\ Dec(idx, c, s) \in Configs
    /\ \A c1, c2 \in C : c1 # c2 => \A d \in Dirs, s \in Steps : PairOp(idx, c1, c2, d, s) \in Configs
    /\ \A up \in BOOLEAN, s \in Steps : SeveralSet(idx, up, s) # {} /\ SeveralSet(idx, up, s) \subseteq Configs
    /\ \A c \in C, delta \in (0 - MaxStep)..MaxStep, circ \in BOOLEAN : Modify(idx, c, delta, circ) \in Configs

\* increasing then decreasing one controller by the same step is the identity (and conversely)
IncDecInverse ==
    \A c \in C, s \in Steps : Dec(Inc(idx, c, s), c, s) = idx /\ Inc(Dec(idx, c, s), c, s) = idx

\* the compass directions are pairwise opposite
PairInverse ==
    \A c1, c2 \in C : c1 # c2 =>
        \A d \in Dirs, s \in Steps : PairOp(PairOp(idx, c1, c2, d, s), c1, c2, Opposite(d), s) = idx

\* decreasing the controllers that were increased comes back
SeveralOpposite ==
    \A s \in Steps : \A g \in SeveralSet(idx, TRUE, s) : idx \in SeveralSet(g, FALSE, s)

\* a step of one is the smallest move: it changes the configuration iff the controller has a choice
UnitMoves == \A c \in C : (Inc(idx, c, 1) # idx) <=> (Size(c) > 1)

\* iteration visits every configuration exactly once
IterOnce ==
    /\ iter => /\ nvis + Cardinality(pending) = NConf
               /\ (nvis > 0 => idx \notin pending)
    /\ ~iter => pending = {}
IterProgress == iter /\ pending = {} => nvis = NConf

(***************************************************************************)
(* What is printed for the binding to the code.                            *)
(***************************************************************************)
\* one line per configuration (Record = FALSE: the non-iterating states ARE the configurations)
ConfRow ==
    [kind |-> "conf", label |-> Label, cfg |-> AsSeq(idx), id |-> PrintId(idx),
     vals |-> Values(idx), tree |-> Resolve(Root, idx),
     sel |-> {[cat |-> Form[i].name, alt |-> Form[i].names[csel[i] + 1]] : i \in CatNodes},
     perms |-> {JoinTerms(p, idx) : p \in Perms}]
Meta ==
    [kind |-> "meta", label |-> Label, nconf |-> NConf, nops |-> NOperators, ids |-> AllIds,
     sorted |-> [r \in 1..NC |-> Ctrls[SortedCtrls[r]].name],
     verdict |-> Verdict, misordered |-> {Form[i].name : i \in Misordered}]
TableInv == (~Record /\ ~iter) => PrintT(ToJson(ConfRow))
MetaInv  == (idx = Zero /\ hist = << >> /\ ~iter) => PrintT(ToJson(Meta))

\* one line per recorded behaviour
EmitInv == (Record /\ (done \/ Len(hist) = MaxLen)) =>
               PrintT(ToJson([kind |-> "path", label |-> Label, steps |-> hist]))
=============================================================================
