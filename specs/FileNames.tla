------------------------------ MODULE FileNames ------------------------------
(***************************************************************************)
(* Names of the output files of biogeme (constant module, no state).       *)
(*                                                                         *)
(* Written from the documentation:                                         *)
(*  - filenames.get_new_file_name(name, ext): "Generate a file name that   *)
(*    does not exist.  name.ext if the file does not exist.  If it does,   *)
(*    returns name~xx.ext, where xx is the smallest integer such that the  *)
(*    corresponding file does not exist.  It is designed to avoid erasing  *)
(*    output inadvertently."  (xx is written with two digits: 00, 01, ...) *)
(*  - tools.files.create_backup(filename, rename): "If the file exist, we  *)
(*    create a backup copy.  rename: if True, the file is renamed.  If     *)
(*    False, a copy is made."  The backup of stem.ext is stem_N.ext with   *)
(*    the first N = 1, 2, ... that is free.                                *)
(*  - BIOGEME.estimate(recycle=True): "the results are read from the       *)
(*    pickle file, if it exists"; when several exist the library warns     *)
(*    that the LAST one in the sorted list of names is used.  Sorting is   *)
(*    the order of Python strings (code points), stated here on the part   *)
(*    of the name that follows the model name.                             *)
(*                                                                         *)
(* A directory is seen through the set of names it holds.                  *)
(***************************************************************************)
EXTENDS Integers, Sequences, FiniteSets, TLC

Pad2(n) == IF n < 10 THEN "0" \o ToString(n) ELSE ToString(n)

Plain(base, ext)        == base \o "." \o ext
Numbered(base, n, ext)  == base \o "~" \o Pad2(n) \o "." \o ext

\* the k-th candidate name: k = 0 is base.ext, k >= 1 is base~(k-1).ext
Cand(base, ext, k) == IF k = 0 THEN Plain(base, ext) ELSE Numbered(base, k - 1, ext)

RECURSIVE LeastFreeFrom(_, _, _, _)
LeastFreeFrom(names, base, ext, k) ==
    IF Cand(base, ext, k) \notin names THEN k ELSE LeastFreeFrom(names, base, ext, k + 1)

\* index of the name get_new_file_name must return, and the name itself
NewIndex(names, base, ext) == LeastFreeFrom(names, base, ext, 0)
NewName(names, base, ext)  == Cand(base, ext, NewIndex(names, base, ext))

\* the same rule stated as a property of a name (used by the invariants, not by the actions)
IsDocumentedNewName(names, base, ext, name) ==
    \E k \in 0..(Cardinality(names) + 1) :
        /\ name = Cand(base, ext, k)
        /\ name \notin names
        /\ \A j \in 0..(k - 1) : Cand(base, ext, j) \in names

(* ---------------- create_backup ---------------- *)
BackupCand(stem, ext, n) == stem \o "_" \o ToString(n) \o "." \o ext
RECURSIVE BackupFrom(_, _, _, _)
BackupFrom(names, stem, ext, n) ==
    IF BackupCand(stem, ext, n) \notin names THEN BackupCand(stem, ext, n) ELSE BackupFrom(names, stem, ext, n + 1)
BackupName(names, stem, ext) == BackupFrom(names, stem, ext, 1)

(* ---------------- order of Python strings on the candidates of one (base, ext) ---------------- *)
\* code points: '.' = 46, '0'..'9' = 48..57, '~' = 126
RECURSIVE DigitsOf(_)
DigitsOf(n) == IF n < 10 THEN <<48 + n>> ELSE DigitsOf(n \div 10) \o <<48 + (n % 10)>>
Pad2Codes(n) == IF n < 10 THEN <<48, 48 + n>> ELSE DigitsOf(n)
\* what follows the base in the k-th candidate, up to and including the dot before the extension
SuffixCodes(k) == IF k = 0 THEN <<46>> ELSE <<126>> \o Pad2Codes(k - 1) \o <<46>>

RECURSIVE LexLess(_, _)
LexLess(s, t) == IF s = << >> THEN t # << >>
                 ELSE IF t = << >> THEN FALSE
                 ELSE IF Head(s) # Head(t) THEN Head(s) < Head(t)
                 ELSE LexLess(Tail(s), Tail(t))
\* candidate j sorts before candidate k as Python strings (same base, same extension)
PyBefore(j, k) == LexLess(SuffixCodes(j), SuffixCodes(k))

\* indices of the candidates of (base, ext) present in the directory, up to a bound
PresentIdx(names, base, ext, bound) == {k \in 0..bound : Cand(base, ext, k) \in names}
\* the one that sorts last: k with every other one before it (computed by one pass over the set)
IsLastSorted(ks, k) == k \in ks /\ \A j \in ks \ {k} : PyBefore(j, k)
RECURSIVE LastFrom(_, _)
LastFrom(S, best) == IF S = {} THEN best
                     ELSE LET x == CHOOSE x \in S : TRUE
                          IN  IF PyBefore(best, x) THEN LastFrom(S \ {x}, x) ELSE LastFrom(S \ {x}, best)
LastSorted(ks) == LET x == CHOOSE x \in ks : TRUE IN LastFrom(ks \ {x}, x)

ASSUME /\ PyBefore(0, 1)            \* "m.pickle"    < "m~00.pickle"
       /\ PyBefore(1, 2)            \* "m~00.pickle" < "m~01.pickle"
       /\ PyBefore(10, 11)          \* "m~09.pickle" < "m~10.pickle"
       /\ PyBefore(101, 100)        \* "m~100.pickle" < "m~99.pickle"   (the numbering outgrows two digits)
       /\ PyBefore(11, 101)         \* "m~10.pickle" < "m~100.pickle"
       /\ Pad2(7) = "07" /\ Pad2(12) = "12" /\ Pad2(100) = "100"
       /\ Cand("m", "html", 0) = "m.html" /\ Cand("m", "html", 1) = "m~00.html"
       /\ \A ks \in (SUBSET {0, 1, 2, 3, 10, 11, 12, 100, 101, 102}) \ {{}} : IsLastSorted(ks, LastSorted(ks))
       /\ LastSorted(0..101) = 100 /\ LastSorted(0..100) = 100 /\ LastSorted(0..99) = 99
=============================================================================
