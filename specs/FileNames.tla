------------------------------ MODULE FileNames ------------------------------
(***************************************************************************)
(* Names of the output files of biogeme (constant module, no state).       *)
(*                                                                         *)
(* Written from the documentation:                                         *)
(*  - filenames.get_new_file_name(name, ext): "Generate a file name that   *)
(*    does not exist.  name.ext if the file does not exist.  If it does,   *)
(*    returns name~xx.ext, where xx is the smallest integer such that the  *)
(*    corresponding file does not exist.  It is designed to avoid erasing  *)
(*    output inadvertently."  (xx is written with two digits: 00, 01, ...) *)
(*  - tools.files.create_backup(filename, rename): "If the file exist, we  *)
(*    create a backup copy.  rename: if True, the file is renamed.  If     *)
(*    False, a copy is made."  The backup of stem.ext is stem_N.ext with   *)
(*    the first N = 1, 2, ... that is free.                                *)
(*  - BIOGEME.estimate(recycle=True): "the results are read from the       *)
(*    pickle file, if it exists"; when several exist the library warns     *)
(*    that the LAST one in the sorted list of names is used.  Sorting is   *)
(*    the order of Python strings (code points), stated here on the part   *)
(*    of the name that follows the model name.                             *)
(*                                                                         *)
(*  - BIOGEME.files_of_type(extension): the files of THIS model with the   *)
(*    extension; the output files of a model are named after it (name.ext, *)
(*    name~xx.ext), so a name tells whose file it is (IsFileOf below).     *)
(*                                                                         *)
(* A directory is seen through the set of names it holds.                  *)
(***************************************************************************)
EXTENDS Integers, Sequences, FiniteSets, TLC

Pad2(n) == IF n < 10 THEN "0" \o ToString(n) ELSE ToString(n)

Plain(base, ext)        == base \o "." \o ext
Numbered(base, n, ext)  == base \o "~" \o Pad2(n) \o "." \o ext

\* the k-th candidate name: k = 0 is base.ext, k >= 1 is base~(k-1).ext
Cand(base, ext, k) == IF k = 0 THEN Plain(base, ext) ELSE Numbered(base, k - 1, ext)

RECURSIVE LeastFreeFrom(_, _, _, _)
LeastFreeFrom(names, base, ext, k) ==
    IF Cand(base, ext, k) \notin names THEN k ELSE LeastFreeFrom(names, base, ext, k + 1)

\* index of the name get_new_file_name must return, and the name itself
NewIndex(names, base, ext) == LeastFreeFrom(names, base, ext, 0)
NewName(names, base, ext)  == Cand(base, ext, NewIndex(names, base, ext))

\* the same rule stated as a property of a name (used by the invariants, not by the actions)
IsDocumentedNewName(names, base, ext, name) ==
    \E k \in 0..(Cardinality(names) + 1) :
        /\ name = Cand(base, ext, k)
        /\ name \notin names
        /\ \A j \in 0..(k - 1) : Cand(base, ext, j) \in names

(* ---------------- create_backup ---------------- *)
BackupCand(stem, ext, n) == stem \o "_" \o ToString(n) \o "." \o ext
RECURSIVE BackupFrom(_, _, _, _)
BackupFrom(names, stem, ext, n) ==
    IF BackupCand(stem, ext, n) \notin names THEN BackupCand(stem, ext, n) ELSE BackupFrom(names, stem, ext, n + 1)
BackupName(names, stem, ext) == BackupFrom(names, stem, ext, 1)

(* ---------------- order of Python strings on the candidates of one (base, ext) ---------------- *)
\* code points: '.' = 46, '0'..'9' = 48..57, '~' = 126
RECURSIVE DigitsOf(_)
DigitsOf(n) == IF n < 10 THEN <<48 + n>> ELSE DigitsOf(n \div 10) \o <<48 + (n % 10)>>
Pad2Codes(n) == IF n < 10 THEN <<48, 48 + n>> ELSE DigitsOf(n)
\* what follows the base in the k-th candidate, up to and including the dot before the extension
SuffixCodes(k) == IF k = 0 THEN <<46>> ELSE <<126>> \o Pad2Codes(k - 1) \o <<46>>

RECURSIVE LexLess(_, _)
LexLess(s, t) == IF s = << >> THEN t # << >>
                 ELSE IF t = << >> THEN FALSE
                 ELSE IF Head(s) # Head(t) THEN Head(s) < Head(t)
                 ELSE LexLess(Tail(s), Tail(t))
\* candidate j sorts before candidate k as Python strings (same base, same extension)
PyBefore(j, k) == LexLess(SuffixCodes(j), SuffixCodes(k))

\* indices of the candidates of (base, ext) present in the directory, up to a bound
PresentIdx(names, base, ext, bound) == {k \in 0..bound : Cand(base, ext, k) \in names}
\* the one that sorts last: k with every other one before it (computed by one pass over the set)
IsLastSorted(ks, k) == k \in ks /\ \A j \in ks \ {k} : PyBefore(j, k)
RECURSIVE LastFrom(_, _)
LastFrom(S, best) == IF S = {} THEN best
                     ELSE LET x == CHOOSE x \in S : TRUE
                          IN  IF PyBefore(best, x) THEN LastFrom(S \ {x}, x) ELSE LastFrom(S \ {x}, best)
LastSorted(ks) == LET x == CHOOSE x \in ks : TRUE IN LastFrom(ks \ {x}, x)

(* ---------------- whose file is it: the naming scheme read backwards ---------------- *)
\* A file name carries the name of the model (data set, ...) it belongs to: the files of model m with
\* extension e are  m.e  and the numbered versions  m~NN.e  (NN as get_new_file_name writes it: two
\* digits, more only beyond 99 and then without a leading zero) -- and nothing else.  In particular
\* neither mode_price.pickle, nor mode_validation.pickle, nor mode~v2.pickle, nor mode~00~00.pickle
\* (the second pickle of a model named mode~00) is a file of model "mode".
Digits == {"0", "1", "2", "3", "4", "5", "6", "7", "8", "9"}
DigitVal == [c \in Digits |-> CASE c = "0" -> 0 [] c = "1" -> 1 [] c = "2" -> 2 [] c = "3" -> 3 [] c = "4" -> 4
                                 [] c = "5" -> 5 [] c = "6" -> 6 [] c = "7" -> 7 [] c = "8" -> 8 [] c = "9" -> 9]
Char(s, i) == SubSeq(s, i, i)
HasPrefix(n, p) == Len(p) <= Len(n) /\ SubSeq(n, 1, Len(p)) = p
HasSuffix(n, s) == Len(s) <= Len(n) /\ SubSeq(n, Len(n) - Len(s) + 1, Len(n)) = s
IsNumberField(s) == /\ Len(s) >= 2
                    /\ \A i \in 1..Len(s) : Char(s, i) \in Digits
                    /\ (Len(s) = 2 \/ Char(s, 1) # "0")
RECURSIVE NumberOf(_)
NumberOf(s) == IF s = "" THEN 0 ELSE 10 * NumberOf(SubSeq(s, 1, Len(s) - 1)) + DigitVal[Char(s, Len(s))]
\* what stands between the model name and ".ext" ("" when n is not of the form m<something>.e)
Middle(n, m, e) == SubSeq(n, Len(m) + 1, Len(n) - Len(e) - 1)
IsFileOf(n, m, e) ==
    /\ Len(n) >= Len(m) + Len(e) + 1
    /\ HasPrefix(n, m)
    /\ HasSuffix(n, "." \o e)
    /\ LET mid == Middle(n, m, e)
       IN  mid = "" \/ (Len(mid) >= 3 /\ Char(mid, 1) = "~" /\ IsNumberField(SubSeq(mid, 2, Len(mid))))
\* the lookup "the files of model m with extension e" (BIOGEME.files_of_type, estimate(recycle=True))
FilesOf(names, m, e) == {n \in names : IsFileOf(n, m, e)}
\* candidate index of a file of (m, e): Cand(m, e, IndexOf(n, m, e)) = n
IndexOf(n, m, e) == LET mid == Middle(n, m, e) IN IF mid = "" THEN 0 ELSE NumberOf(SubSeq(mid, 2, Len(mid))) + 1
FoundIdx(names, m, e) == {IndexOf(n, m, e) : n \in FilesOf(names, m, e)}
\* the seeded lookup defect (negative control): everything that starts with the model name
LooseFilesOf(names, m, e) == {n \in names : HasPrefix(n, m) /\ HasSuffix(n, "." \o e)}

ASSUME /\ \A k \in 0..120 : IsFileOf(Cand("mode", "pickle", k), "mode", "pickle")
                            /\ IndexOf(Cand("mode", "pickle", k), "mode", "pickle") = k
       /\ ~IsFileOf("mode_price.pickle", "mode", "pickle") /\ ~IsFileOf("mode_price~00.pickle", "mode", "pickle")
       /\ IsFileOf("mode_price~00.pickle", "mode_price", "pickle")
       /\ ~IsFileOf("mode.pickle", "mode_price", "pickle") /\ ~IsFileOf("mode.pickle", "mode", "html")
       /\ ~IsFileOf("m_validation.pickle", "m", "pickle") /\ ~IsFileOf("m_val_est_1~00.pickle", "m", "pickle")
       /\ ~IsFileOf("mode~v2.pickle", "mode", "pickle") /\ ~IsFileOf("mode~7.pickle", "mode", "pickle")
       /\ ~IsFileOf("mode~007.pickle", "mode", "pickle") /\ ~IsFileOf("mode~.pickle", "mode", "pickle")
       /\ ~IsFileOf("mode~00~00.pickle", "mode", "pickle") /\ IsFileOf("mode~00~00.pickle", "mode~00", "pickle")
       /\ ~IsFileOf("mode_1.pickle", "mode", "pickle") /\ ~IsFileOf("xmode.pickle", "mode", "pickle")
       /\ ~IsFileOf("mode.pickle.bak", "mode", "pickle") /\ ~IsFileOf("mode", "mode", "pickle")
       /\ FilesOf({"m.pickle", "m~00.pickle", "m~02.pickle", "m_validation.pickle", "m_val_est_1.pickle", "mx.pickle", "m.html"},
                  "m", "pickle") = {"m.pickle", "m~00.pickle", "m~02.pickle"}
       /\ FoundIdx({"m.pickle", "m~02.pickle", "m~100.pickle", "m_2.pickle"}, "m", "pickle") = {0, 3, 101}
       /\ LooseFilesOf({"m.pickle", "m_validation.pickle", "m.html", "n.pickle"}, "m", "pickle") = {"m.pickle", "m_validation.pickle"}

ASSUME /\ PyBefore(0, 1)            \* "m.pickle"    < "m~00.pickle"
       /\ PyBefore(1, 2)            \* "m~00.pickle" < "m~01.pickle"
       /\ PyBefore(10, 11)          \* "m~09.pickle" < "m~10.pickle"
       /\ PyBefore(101, 100)        \* "m~100.pickle" < "m~99.pickle"   (the numbering outgrows two digits)
       /\ PyBefore(11, 101)         \* "m~10.pickle" < "m~100.pickle"
       /\ Pad2(7) = "07" /\ Pad2(12) = "12" /\ Pad2(100) = "100"
       /\ Cand("m", "html", 0) = "m.html" /\ Cand("m", "html", 1) = "m~00.html"
       /\ \A ks \in (SUBSET {0, 1, 2, 3, 10, 11, 12, 100, 101, 102}) \ {{}} : IsLastSorted(ks, LastSorted(ks))
       /\ LastSorted(0..101) = 100 /\ LastSorted(0..100) = 100 /\ LastSorted(0..99) = 99
=============================================================================
