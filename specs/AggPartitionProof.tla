------------------------- MODULE AggPartitionProof -------------------------
(* Unbounded version of AggPartition!PartitionOK: for ALL n >= 1, t >= 1.  *)
EXTENDS Integers, TLAPS

CeilDiv(a, b) == (a + b - 1) \div b
Size(n, t)   == CeilDiv(n, t)
Blocks(n, t) == CeilDiv(n, Size(n, t))
First(n, t, k) == (k - 1) * Size(n, t) + 1
Last(n, t, k)  == IF k = Blocks(n, t) THEN n ELSE k * Size(n, t)

\* division facts handed to the SMT solver as the defining inequalities of \div
LEMMA DivDef == \A a \in Int, b \in Int : b > 0 => /\ b * (a \div b) <= a
                                                    /\ a < b * (a \div b) + b
  OBVIOUS

THEOREM SizePos == \A n \in Nat, t \in Nat : n >= 1 /\ t >= 1 => Size(n, t) >= 1 /\ Size(n, t) * t >= n
  BY DivDef DEF Size, CeilDiv

THEOREM Partition ==
  \A n \in Nat, t \in Nat : n >= 1 /\ t >= 1 =>
     LET s == Size(n, t)  nb == Blocks(n, t) IN
     /\ s >= 1
     /\ nb >= 1
     /\ (nb - 1) * s < n
     /\ n <= nb * s
  BY DivDef, SizePos DEF Blocks, Size, CeilDiv

THEOREM BlocksAtMostThreads ==
  \A n \in Nat, t \in Nat : n >= 1 /\ t >= 1 => Blocks(n, t) <= t
  <1> SUFFICES ASSUME NEW n \in Nat, NEW t \in Nat, n >= 1, t >= 1 PROVE Blocks(n, t) <= t
      OBVIOUS
  <1> DEFINE s == Size(n, t)
  <1> DEFINE nb == Blocks(n, t)
  <1>1. s \in Nat /\ s >= 1 /\ s * t >= n
      BY DivDef, SizePos DEF Size, CeilDiv
  <1>2. nb \in Int /\ (nb - 1) * s < n
      BY Partition, DivDef DEF Blocks, Size, CeilDiv
  <1>3. (nb - 1) * s < t * s
      BY <1>1, <1>2
  <1>4. nb - 1 < t
      BY <1>1, <1>2, <1>3
  <1> QED BY <1>4, <1>2

\* the blocks are non-empty, start at 1, end at n, and each starts right after the previous one:
\* hence (by induction on k) every row of 1..n lies in exactly one block
THEOREM BlockStructure ==
  \A n \in Nat, t \in Nat : n >= 1 /\ t >= 1 =>
     /\ First(n, t, 1) = 1
     /\ Last(n, t, Blocks(n, t)) = n
     /\ \A k \in 1..(Blocks(n, t) - 1) : First(n, t, k + 1) = Last(n, t, k) + 1
     /\ \A k \in 1..Blocks(n, t) : First(n, t, k) <= Last(n, t, k)
  <1> SUFFICES ASSUME NEW n \in Nat, NEW t \in Nat, n >= 1, t >= 1
               PROVE /\ First(n, t, 1) = 1
                     /\ Last(n, t, Blocks(n, t)) = n
                     /\ \A k \in 1..(Blocks(n, t) - 1) : First(n, t, k + 1) = Last(n, t, k) + 1
                     /\ \A k \in 1..Blocks(n, t) : First(n, t, k) <= Last(n, t, k)
      OBVIOUS
  <1> DEFINE s == Size(n, t)
  <1> DEFINE nb == Blocks(n, t)
  <1>0. s \in Nat /\ s >= 1 /\ nb \in Int /\ nb >= 1 /\ (nb - 1) * s < n /\ n <= nb * s
      BY Partition, DivDef, SizePos DEF Blocks, Size, CeilDiv
  <1>1. First(n, t, 1) = 1
      BY <1>0 DEF First
  <1>2. Last(n, t, nb) = n
      BY DEF Last
  <1>3. \A k \in 1..(nb - 1) : First(n, t, k + 1) = Last(n, t, k) + 1
      BY <1>0 DEF First, Last
  <1>4. \A k \in 1..nb : First(n, t, k) <= Last(n, t, k)
    <2> TAKE k \in 1..nb
    <2>1. CASE k = nb
        BY <1>0, <2>1 DEF First, Last
    <2>2. CASE k # nb
        <3>1. Last(n, t, k) = k * s
            BY <2>2 DEF Last
        <3>2. First(n, t, k) = (k - 1) * s + 1
            BY DEF First
        <3> QED BY <3>1, <3>2, <1>0
    <2> QED BY <2>1, <2>2
  <1> QED BY <1>1, <1>2, <1>3, <1>4

\* every row lies in exactly one block
THEOREM EachRowOnce ==
  \A n \in Nat, t \in Nat : n >= 1 /\ t >= 1 =>
     \A r \in 1..n :
        /\ \E k \in 1..Blocks(n, t) : First(n, t, k) <= r /\ r <= Last(n, t, k)
        /\ \A k1, k2 \in 1..Blocks(n, t) :
              (First(n, t, k1) <= r /\ r <= Last(n, t, k1) /\ First(n, t, k2) <= r /\ r <= Last(n, t, k2)) => k1 = k2
  <1> SUFFICES ASSUME NEW n \in Nat, NEW t \in Nat, n >= 1, t >= 1, NEW r \in 1..n
               PROVE /\ \E k \in 1..Blocks(n, t) : First(n, t, k) <= r /\ r <= Last(n, t, k)
                     /\ \A k1, k2 \in 1..Blocks(n, t) :
                           (First(n, t, k1) <= r /\ r <= Last(n, t, k1) /\ First(n, t, k2) <= r /\ r <= Last(n, t, k2)) => k1 = k2
      OBVIOUS
  <1> DEFINE s == Size(n, t)
  <1> DEFINE nb == Blocks(n, t)
  <1>0. s \in Nat /\ s >= 1 /\ nb \in Int /\ nb >= 1 /\ (nb - 1) * s < n /\ n <= nb * s
      BY Partition, DivDef, SizePos DEF Blocks, Size, CeilDiv
  <1>1. \E k \in 1..nb : First(n, t, k) <= r /\ r <= Last(n, t, k)
    <2> DEFINE q == (r - 1) \div s
    <2> DEFINE k == q + 1
    <2>1a. q \in Int /\ s * q <= r - 1 /\ r - 1 < s * q + s
        BY <1>0, DivDef
    <2>1b. s * q = q * s
        BY <2>1a, <1>0
    <2>1. q \in Int /\ q * s <= r - 1 /\ r - 1 < q * s + s
        BY <2>1a, <2>1b
    <2>2. q >= 0
        BY <2>1, <1>0
    <2>3. q * s < nb * s
        BY <2>1, <1>0
    <2>4. q < nb
        BY <2>3, <2>1, <1>0
    <2>5. k \in 1..nb
        BY <2>2, <2>4, <2>1, <1>0
    <2>6a. k - 1 = q
        BY <2>1
    <2>6b. First(n, t, k) = q * s + 1
        BY <2>6a DEF First
    <2>6. First(n, t, k) <= r
        BY <2>6b, <2>1, <1>0
    <2>7. r <= Last(n, t, k)
      <3>1. CASE k = nb
          BY <3>1 DEF Last
      <3>2. CASE k # nb
        <4>1. Last(n, t, k) = k * s
            BY <3>2 DEF Last
        <4>2. k * s = q * s + s
            BY <2>1, <1>0
        <4> QED BY <4>1, <4>2, <2>1, <1>0
      <3> QED BY <3>1, <3>2
    <2> QED BY <2>5, <2>6, <2>7
  <1>2. \A k1, k2 \in 1..nb :
           (First(n, t, k1) <= r /\ r <= Last(n, t, k1) /\ First(n, t, k2) <= r /\ r <= Last(n, t, k2)) => k1 = k2
    <2> SUFFICES ASSUME NEW k1 \in 1..nb, NEW k2 \in 1..nb, k1 < k2,
                        First(n, t, k1) <= r, r <= Last(n, t, k1), First(n, t, k2) <= r
                 PROVE FALSE
        BY <1>0
    <2>1. Last(n, t, k1) = k1 * s
        BY <1>0 DEF Last
    <2>2. First(n, t, k2) = (k2 - 1) * s + 1
        BY DEF First
    <2> DEFINE d == k2 - 1 - k1
    <2>3a. d \in Nat
        OBVIOUS
    <2>3b. d * s >= 0
        BY <2>3a, <1>0
    <2>3c. (k2 - 1) * s = k1 * s + d * s
        BY <1>0
    <2>3. k1 * s <= (k2 - 1) * s
        BY <2>3b, <2>3c, <1>0
    <2>4. r <= k1 * s /\ (k2 - 1) * s + 1 <= r
        BY <2>1, <2>2
    <2> QED BY <2>3, <2>4, <1>0
  <1> QED BY <1>1, <1>2
=============================================================================
