------------------------------- MODULE Sampling -------------------------------
(***************************************************************************)
(* Sampling of alternatives (C19), written from the documentation of       *)
(* biogeme.sampling_of_alternatives and from the mathematics of stratified *)
(* importance sampling (McFadden's correction), not from the code.         *)
(*                                                                         *)
(* An INSTANCE is                                                          *)
(*   alts   : id -> [a, c]        the table of alternatives (attributes)   *)
(*   strata : <<[sub, k]>>        a partition of the ids; k alternatives   *)
(*                                are drawn from the stratum `sub`         *)
(*   mev    : <<[sub, k]>>        (possibly empty) partition of the MEV    *)
(*                                alternatives for the second sample       *)
(* and an individual is [choice, x] (x = a socio-economic attribute).      *)
(*                                                                         *)
(* For every individual, in turn:                                          *)
(*   SampleStratum  for each stratum, ANY k-subset of the stratum that     *)
(*                  contains the chosen alternative when the latter is a   *)
(*                  member (the chosen alternative is forced, the other    *)
(*                  k-1 are drawn without replacement among the rest)      *)
(*   Assemble       one row: the chosen alternative first, then the other  *)
(*                  sampled alternatives; each entry carries the           *)
(*                  alternative's own attributes, the correction term      *)
(*                  ln(k/n) of ITS stratum (n = size of the stratum) and   *)
(*                  the combined variables f(x, attributes)                *)
(*   SecondSample   for each MEV stratum any k-subset (the choice plays no *)
(*                  role); each entry carries the expansion weight n/k     *)
(*                                                                         *)
(* The protocol clauses (Fails) are stated on an OBSERVATION of a row and  *)
(* are used twice: TLC checks that every behaviour of this model is        *)
(* accepted (invariant Accepted) and, conversely, that every accepted row  *)
(* is a behaviour of the model (invariant AcceptanceIsMembership);         *)
(* SamplingTrace applies the same clauses to rows recorded from the real   *)
(* ChoiceSetsGeneration.sample_and_merge.                                  *)
(*                                                                         *)
(* Likelihood.  With utilities V_j = ln w_j (w_j a positive integer) the   *)
(* logit built on the sample with corrected utilities V_j - ln(k_j/n_j)    *)
(* gives the chosen alternative the probability                            *)
(*      (w_c n_c/k_c) / sum_{j in row} (w_j n_j/k_j)          (RowProb)    *)
(* and the logit on the full choice set gives w_c / sum_all w (FullProb).  *)
(* FullEquiv: when every stratum is sampled completely both coincide.      *)
(*                                                                         *)
(* Nests.  A nested / cross-nested model is given by the STRUCTURE of its  *)
(* nests (members, scale mu, allocation parameters alpha).  A nest may     *)
(* also carry a label (a name chosen by the user, or a default one): the   *)
(* label is NOT part of the model -- NestedProb and CnlProb below take the  *)
(* structures only, and the labelled versions go through Structure         *)
(* (NamesNotInModel).  See "Names of nests" for the labellings replayed.   *)
(***************************************************************************)
EXTENDS Integers, Sequences, FiniteSets, TLC, Json, Term

CONSTANTS
    AltTab,     \* id -> [a |-> 1.., c |-> 0..] : the alternatives of the model runs
    MaxStrata,  \* number of strata of the main partition: 1..MaxStrata
    Xs,         \* sequence of values of the individual's attribute
    Mode,       \* "main": all main partitions and sizes, one individual, no second sample
                \* "mev" : trivial main partition (one stratum, k = 1), all MEV partitions (of every
                \*         non-empty subset of the ids into 1..2 strata) and sizes
                \* "full": complete sampling only, all individuals in one behaviour, emitted
                \* "lemma": as "main" (tiny table) + AcceptanceIsMembership
    Order       \* "any"   : Assemble may put the non-chosen alternatives in any order;
                \* "blocks": stratum after stratum, any order inside (a refinement, smaller state space)
                \* "sorted": stratum after stratum, by increasing id (one representative; mode "full")

Ids == DOMAIN AltTab
Range(f) == {f[i] : i \in DOMAIN f}

RECURSIVE SetSum(_, _)
SetSum(S, f) == IF S = {} THEN 0 ELSE LET x == CHOOSE y \in S : TRUE IN f[x] + SetSum(S \ {x}, f)
RECURSIVE SortedSeq(_)
SortedSeq(S) == IF S = {} THEN << >>
                ELSE LET m == CHOOSE y \in S : \A z \in S : y <= z IN <<m>> \o SortedSeq(S \ {m})
RECURSIVE Perms(_)
Perms(S) == IF S = {} THEN {<< >>} ELSE UNION {{<<x>> \o p : p \in Perms(S \ {x})} : x \in S}
RECURSIVE Flatten(_)
Flatten(ss) == IF ss = << >> THEN << >> ELSE Head(ss) \o Flatten(Tail(ss))

---------------------------------------------------------------------------
(* Instances *)
St(sub, k) == [sub |-> sub, k |-> k]
Size(st) == Cardinality(st.sub)

\* ordered partitions of S into exactly m non-empty blocks
OrderedPartitions(S, m) ==
    {[s \in 1..m |-> {i \in S : g[i] = s}] :
        g \in {h \in [S -> 1..m] : \A s \in 1..m : \E i \in S : h[i] = s}}
\* all admissible sample sizes: 1 <= k <= size of the stratum
WithSizes(P) == {[s \in 1..Len(P) |-> St(P[s], ks[s])] :
                    ks \in {v \in [1..Len(P) -> 1..Cardinality(UNION Range(P))] :
                               \A s \in 1..Len(P) : v[s] <= Cardinality(P[s])}}
Complete(P) == [s \in 1..Len(P) |-> St(P[s], Cardinality(P[s]))]

AllStrata(S, maxm) == UNION {UNION {WithSizes(P) : P \in OrderedPartitions(S, m)} : m \in 1..maxm}
CompleteStrata(S, maxm) == UNION {{Complete(P) : P \in OrderedPartitions(S, m)} : m \in 1..maxm}
Reverse(s) == [i \in 1..Len(s) |-> s[Len(s) + 1 - i]]

Inst(strata, mev) == [alts |-> AltTab, strata |-> strata, mev |-> mev]
Instances ==
    CASE Mode \in {"main", "lemma"} -> {Inst(st, << >>) : st \in AllStrata(Ids, MaxStrata)}
      [] Mode = "mev"  -> {Inst(<<St(Ids, 1)>>, mv) : mv \in UNION {AllStrata(M, 2) : M \in SUBSET Ids \ {{}}}}
      [] Mode = "full" -> UNION {{Inst(st, << >>), Inst(st, Reverse(st))} : st \in CompleteStrata(Ids, MaxStrata)}

Ind(ch, x) == [choice |-> ch, x |-> x]
\* the individuals handled in one behaviour
IndLists(in) ==
    IF Mode = "full"
    THEN LET ids == SortedSeq(Ids) IN
         {[i \in 1..Len(ids) |-> Ind(ids[i], Xs[((i - 1) % Len(Xs)) + 1])]}
    ELSE {<<Ind(ch, Xs[j])>> : ch \in Ids, j \in 1..Len(Xs)}

\* what the documentation requires of an input (raw: ids and segments as sequences)
SeqSet(s) == {s[i] : i \in 1..Len(s)}
InputClauses(ids, segs, ks, choices) ==
    (IF \E s \in 1..Len(segs) : Len(segs[s]) = 0 THEN {"empty-stratum"} ELSE {})
    \cup (IF \E s, t \in 1..Len(segs) : s # t /\ SeqSet(segs[s]) \cap SeqSet(segs[t]) # {} THEN {"overlap"} ELSE {})
    \cup (IF \E s \in 1..Len(segs) : ~(SeqSet(segs[s]) \subseteq SeqSet(ids)) THEN {"unknown-alternative"} ELSE {})
    \cup (IF \E i \in 1..Len(ids) : \A s \in 1..(IF Len(ks) < Len(segs) THEN Len(ks) ELSE Len(segs)) :
                                        ids[i] \notin SeqSet(segs[s])
          THEN {"not-covering"} ELSE {})
    \cup (IF \E s \in 1..Len(segs) : s <= Len(ks) /\ ks[s] < 1 THEN {"size-zero"} ELSE {})
    \cup (IF \E s \in 1..Len(segs) : s <= Len(ks) /\ ks[s] > Len(segs[s]) THEN {"size-too-large"} ELSE {})
    \cup (IF \E i \in 1..Len(choices) : choices[i] \notin SeqSet(ids) THEN {"unknown-choice"} ELSE {})
InputOrder == <<"empty-stratum", "overlap", "unknown-alternative", "size-zero", "size-too-large",
                "not-covering", "unknown-choice">>

ValidInst(in) ==
    /\ \A s \in 1..Len(in.strata) : in.strata[s].sub # {} /\ in.strata[s].k \in 1..Size(in.strata[s])
    /\ \A s, t \in 1..Len(in.strata) : s # t => in.strata[s].sub \cap in.strata[t].sub = {}
    /\ UNION {in.strata[s].sub : s \in 1..Len(in.strata)} = DOMAIN in.alts
    /\ \A s \in 1..Len(in.mev) : in.mev[s].sub # {} /\ in.mev[s].k \in 1..Size(in.mev[s])
                                 /\ in.mev[s].sub \subseteq DOMAIN in.alts
    /\ \A s, t \in 1..Len(in.mev) : s # t => in.mev[s].sub \cap in.mev[t].sub = {}

---------------------------------------------------------------------------
(* What an entry of a row carries *)
CombNames == {"prod", "diff", "sum"}
Comb(x, at) == [prod |-> I(x * at.c), diff |-> I(x - at.c), sum |-> I(x + at.c)]
Corr(st)   == App("log", <<Q(st.k, Size(st))>>)
Weight(st) == Q(Size(st), st.k)
InStrata(strata, id) == \E s \in 1..Len(strata) : id \in strata[s].sub
StratumOf(strata, id) == CHOOSE s \in 1..Len(strata) : id \in strata[s].sub

Entry(in, x, id) ==
    [id |-> id, a |-> I(in.alts[id].a), c |-> I(in.alts[id].c),
     corr |-> Corr(in.strata[StratumOf(in.strata, id)]), comb |-> Comb(x, in.alts[id])]
MEntry(in, x, id) ==
    [id |-> id, a |-> I(in.alts[id].a), c |-> I(in.alts[id].c),
     w |-> Weight(in.mev[StratumOf(in.mev, id)]), comb |-> Comb(x, in.alts[id])]

\* the admissible samples
CanSample(st, ch, S)  == S \subseteq st.sub /\ Cardinality(S) = st.k /\ (ch \in st.sub => ch \in S)
CanSampleMev(st, S)   == S \subseteq st.sub /\ Cardinality(S) = st.k
Samples(st, ch) == {S \in SUBSET st.sub : CanSample(st, ch, S)}
MevSamples(st)  == {S \in SUBSET st.sub : CanSampleMev(st, S)}

\* the orders in which a list of samples may be laid out after the chosen alternative
RECURSIVE BlockOrders(_, _)
BlockOrders(pk, ch) == IF pk = << >> THEN {<< >>}
                       ELSE {p \o r : p \in Perms(Head(pk) \ {ch}), r \in BlockOrders(Tail(pk), ch)}
Arrangements(pk, ch, order) ==
    CASE order = "any"    -> {<<ch>> \o p : p \in Perms(UNION Range(pk) \ {ch})}
      [] order = "blocks" -> {<<ch>> \o p : p \in BlockOrders(pk, ch)}
      [] order = "sorted" -> {<<ch>> \o Flatten([s \in 1..Len(pk) |-> SortedSeq(pk[s] \ {ch})])}

VARIABLES inst, inds, cur, picked, mpicked, rows, mrows, pc
vars == <<inst, inds, cur, picked, mpicked, rows, mrows, pc>>

Cur == inds[cur]

Init == /\ inst \in Instances
        /\ inds \in IndLists(inst)
        /\ cur = 1 /\ picked = << >> /\ mpicked = << >> /\ rows = << >> /\ mrows = << >>
        /\ pc = "sample"

SampleStratum ==
    /\ pc = "sample" /\ Len(picked) < Len(inst.strata)
    /\ \E S \in Samples(inst.strata[Len(picked) + 1], Cur.choice) : picked' = Append(picked, S)
    /\ UNCHANGED <<inst, inds, cur, mpicked, rows, mrows, pc>>

Assemble ==
    /\ pc = "sample" /\ Len(picked) = Len(inst.strata)
    /\ \E r \in Arrangements(picked, Cur.choice, Order) :
          rows' = Append(rows, [i \in 1..Len(r) |-> Entry(inst, Cur.x, r[i])])
    /\ pc' = "second"
    /\ UNCHANGED <<inst, inds, cur, picked, mpicked, mrows>>

\* second sample, stratum by stratum; the choice plays no role
SecondSample ==
    /\ pc = "second" /\ Len(mpicked) < Len(inst.mev)
    /\ \E S \in MevSamples(inst.mev[Len(mpicked) + 1]) :
          \E p \in (IF Order = "sorted" THEN {SortedSeq(S)} ELSE Perms(S)) : mpicked' = Append(mpicked, p)
    /\ UNCHANGED <<inst, inds, cur, picked, rows, mrows, pc>>

FinishRow ==
    /\ pc = "second" /\ Len(mpicked) = Len(inst.mev)
    /\ LET r == Flatten(mpicked) IN mrows' = Append(mrows, [i \in 1..Len(r) |-> MEntry(inst, Cur.x, r[i])])
    /\ pc' = "rowdone"
    /\ UNCHANGED <<inst, inds, cur, picked, mpicked, rows>>

NextIndividual ==
    /\ pc = "rowdone"
    /\ IF cur < Len(inds) THEN cur' = cur + 1 /\ pc' = "sample" ELSE cur' = cur /\ pc' = "done"
    /\ picked' = << >> /\ mpicked' = << >>
    /\ UNCHANGED <<inst, inds, rows, mrows>>

Next == SampleStratum \/ Assemble \/ SecondSample \/ FinishRow \/ NextIndividual
Spec == Init /\ [][Next]_vars

---------------------------------------------------------------------------
(* Observation of one generated row and the protocol clauses.              *)
(*   ob = [choice, x, row, mrow]: the individual's own columns as they     *)
(*   appear in the generated table, the entries of the first sample, the   *)
(*   entries of the second sample.                                         *)
(***************************************************************************)
Obs(ind, row, mrow) == [choice |-> I(ind.choice), x |-> I(ind.x), row |-> row, mrow |-> mrow]
TotalSize(strata) == SetSum(1..Len(strata), [s \in 1..Len(strata) |-> strata[s].k])
Known(in, r) == {i \in 1..Len(r) : r[i].id \in DOMAIN in.alts /\ InStrata(in.strata, r[i].id)}
MKnown(in, r) == {i \in 1..Len(r) : r[i].id \in DOMAIN in.alts /\ InStrata(in.mev, r[i].id)}

MainFails(in, ind, ob) ==
    LET r == ob.row
        kn == Known(in, r) IN
    (IF Len(r) = TotalSize(in.strata) THEN {} ELSE {"length"})
    \cup (IF Len(r) >= 1 /\ r[1].id = ind.choice THEN {} ELSE {"chosen-first"})
    \cup (IF kn = 1..Len(r) THEN {} ELSE {"unknown-id"})
    \cup (IF \A i, j \in 1..Len(r) : i # j => r[i].id # r[j].id THEN {} ELSE {"duplicate"})
    \cup (IF \A s \in 1..Len(in.strata) :
                Cardinality({i \in 1..Len(r) : r[i].id \in in.strata[s].sub}) = in.strata[s].k
          THEN {} ELSE {"stratum-count"})
    \cup (IF \A i \in kn : r[i].corr = Corr(in.strata[StratumOf(in.strata, r[i].id)]) THEN {} ELSE {"correction"})
    \cup (IF \A i \in kn : r[i].a = I(in.alts[r[i].id].a) /\ r[i].c = I(in.alts[r[i].id].c) THEN {} ELSE {"attributes"})
    \cup (IF \A i \in kn : r[i].comb = Comb(ind.x, in.alts[r[i].id]) THEN {} ELSE {"combined"})
    \cup (IF ob.choice = I(ind.choice) /\ ob.x = I(ind.x) THEN {} ELSE {"individual"})

MevFails(in, ind, ob) ==
    LET r == ob.mrow
        kn == MKnown(in, r) IN
    (IF Len(r) = TotalSize(in.mev) THEN {} ELSE {"mev-length"})
    \cup (IF kn = 1..Len(r) THEN {} ELSE {"mev-unknown-id"})
    \cup (IF \A i, j \in 1..Len(r) : i # j => r[i].id # r[j].id THEN {} ELSE {"mev-duplicate"})
    \cup (IF \A s \in 1..Len(in.mev) :
                Cardinality({i \in 1..Len(r) : r[i].id \in in.mev[s].sub}) = in.mev[s].k
          THEN {} ELSE {"mev-count"})
    \cup (IF \A i \in kn : r[i].w = Weight(in.mev[StratumOf(in.mev, r[i].id)]) THEN {} ELSE {"mev-weight"})
    \cup (IF \A i \in kn : r[i].a = I(in.alts[r[i].id].a) /\ r[i].c = I(in.alts[r[i].id].c) THEN {} ELSE {"mev-attributes"})
    \cup (IF \A i \in kn : r[i].comb = Comb(ind.x, in.alts[r[i].id]) THEN {} ELSE {"mev-combined"})

Fails(in, ind, ob) == MainFails(in, ind, ob) \cup MevFails(in, ind, ob)
ClauseOrder == <<"length", "chosen-first", "unknown-id", "duplicate", "stratum-count", "correction",
                 "attributes", "combined", "individual",
                 "mev-length", "mev-unknown-id", "mev-duplicate", "mev-count", "mev-weight",
                 "mev-attributes", "mev-combined">>
FirstIn(order, fs) == IF fs = {} THEN "ok"
                      ELSE order[CHOOSE k \in 1..Len(order) :
                               order[k] \in fs /\ \A k2 \in 1..(k - 1) : order[k2] \notin fs]
FirstOf(fs) == FirstIn(ClauseOrder, fs)

\* informational: the non-chosen alternatives appear stratum after stratum (not required by the property)
Grouped(in, r) == \A i, j \in Known(in, r) :
                     (1 < i /\ i < j) => StratumOf(in.strata, r[i].id) <= StratumOf(in.strata, r[j].id)

\* the sampling TLC infers from a row: which alternatives were drawn from each stratum
Inferred(strata, r) == [s \in 1..Len(strata) |-> {r[i].id : i \in 1..Len(r)} \cap strata[s].sub]

\* every row the actions SampleStratum; ...; Assemble can produce for one individual
RECURSIVE AllPicks(_, _)
AllPicks(strata, ch) == IF strata = << >> THEN {<< >>}
                        ELSE {<<S>> \o t : S \in Samples(Head(strata), ch), t \in AllPicks(Tail(strata), ch)}
AllRows(in, ind) ==
    UNION {{[i \in 1..Len(r) |-> Entry(in, ind.x, r[i])] : r \in Arrangements(pk, ind.choice, "any")} :
              pk \in AllPicks(in.strata, ind.choice)}
RECURSIVE AllMevPicks(_)
AllMevPicks(mev) == IF mev = << >> THEN {<< >>}
                    ELSE {<<p>> \o t : p \in UNION {Perms(S) : S \in MevSamples(Head(mev))}, t \in AllMevPicks(Tail(mev))}

---------------------------------------------------------------------------
(* Likelihood of the logit on a sample, utilities V = ln w *)
Fams == {"a", "axc"}
W(fam, x, at) == IF fam = "a" THEN at.a ELSE at.a * (x + at.c)
WTab(in, fam, x) == [id \in DOMAIN in.alts |-> W(fam, x, in.alts[id])]

\* corrected weight exp(V - ln(k/n)) = w n / k, summed stratum by stratum over the ids of a row
StratumTerm(in, fam, x, ids, s) ==
    Q(Size(in.strata[s]) * SetSum(ids \cap in.strata[s].sub, WTab(in, fam, x)), in.strata[s].k)
TotalTerm(in, fam, x, ids) == SumSeq([s \in 1..Len(in.strata) |-> StratumTerm(in, fam, x, ids, s)])
ChosenTerm(in, fam, ind) ==
    LET st == in.strata[StratumOf(in.strata, ind.choice)] IN
    Q(W(fam, ind.x, in.alts[ind.choice]) * Size(st), st.k)
RowProb(in, fam, ind, ids) == QDiv(ChosenTerm(in, fam, ind), TotalTerm(in, fam, ind.x, ids))
FullProb(in, fam, ind) == Q(W(fam, ind.x, in.alts[ind.choice]), SetSum(DOMAIN in.alts, WTab(in, fam, ind.x)))
IsComplete(in) == \A s \in 1..Len(in.strata) : in.strata[s].k = Size(in.strata[s])
RowIds(r) == {r[i].id : i \in 1..Len(r)}

\* nested logit on the full choice set, V = ln w:  P(i) = T(i) / sum_j T(j),
\*   T(i) = w_i^mu (sum_{j in nest} w_j^mu)^(1/mu - 1) in a nest, w_i alone
NestOf(nests, id) == CHOOSE m \in 1..Len(nests) : id \in nests[m].sub
InNest(nests, id) == \E m \in 1..Len(nests) : id \in nests[m].sub
NestSum(in, fam, x, nest) == SetSum(nest.sub, [id \in DOMAIN in.alts |-> IPow(W(fam, x, in.alts[id]), nest.mu)])
NestedT(in, fam, x, nests, id) ==
    IF InNest(nests, id)
    THEN LET nest == nests[NestOf(nests, id)] IN
         SMul(I(IPow(W(fam, x, in.alts[id]), nest.mu)),
              App("pow", <<I(NestSum(in, fam, x, nest)), Q(1 - nest.mu, nest.mu)>>))
    ELSE I(W(fam, x, in.alts[id]))
NestedProb(in, fam, ind, nests) ==
    LET ids == SortedSeq(DOMAIN in.alts) IN
    SDiv(NestedT(in, fam, ind.x, nests, ind.choice),
         SSumSeq([i \in 1..Len(ids) |-> NestedT(in, fam, ind.x, nests, ids[i])]))
\* the nest structures tried on an instance: the first stratum as the only nest; every stratum a nest
NestSpecs(in) == <<
    <<[sub |-> in.strata[1].sub, mu |-> 2]>>,
    [s \in 1..Len(in.strata) |-> [sub |-> in.strata[s].sub, mu |-> 2 + ((s + 1) % 2)]] >>

\* cross-nested logit on the full choice set, V = ln w, allocation parameters alpha[id] of each nest
\* (rationals, 0 = not a member):
\*   S_m = sum_j alpha_jm^mu_m w_j^mu_m
\*   P(i) = sum_m alpha_im^mu_m w_i^mu_m S_m^(1/mu_m - 1) / sum_m S_m^(1/mu_m)
CnlMember(nest, id) == ~IsZero(nest.alpha[id])
CnlPart(in, fam, x, nest, id) ==
    QMul(QPowInt(nest.alpha[id], nest.mu), I(IPow(W(fam, x, in.alts[id]), nest.mu)))
CnlSum(in, fam, x, nest) ==
    LET ids == SortedSeq({id \in DOMAIN in.alts : CnlMember(nest, id)}) IN
    SumSeq([i \in 1..Len(ids) |-> CnlPart(in, fam, x, nest, ids[i])])
CnlProb(in, fam, ind, nests) ==
    SDiv(SSumSeq([m \in 1..Len(nests) |->
                    IF CnlMember(nests[m], ind.choice)
                    THEN SMul(CnlPart(in, fam, ind.x, nests[m], ind.choice),
                              App("pow", <<CnlSum(in, fam, ind.x, nests[m]), Q(1 - nests[m].mu, nests[m].mu)>>))
                    ELSE Zero]),
         SSumSeq([m \in 1..Len(nests) |-> App("pow", <<CnlSum(in, fam, ind.x, nests[m]), Q(1, nests[m].mu)>>)]))
\* the structure tried on an instance: by rank of the id, odd ranks belong to the first nest only, ranks
\* divisible by 4 to both (1/2, 1/2), the other even ranks to the second nest only; mu = 2 and 3
CnlSpec(in) ==
    LET rank(id) == Cardinality({j \in DOMAIN in.alts : j <= id})
        a1 == [id \in DOMAIN in.alts |-> IF rank(id) % 2 = 1 THEN One ELSE IF rank(id) % 4 = 0 THEN Q(1, 2) ELSE Zero]
        a2 == [id \in DOMAIN in.alts |-> QSub(One, a1[id])]
    IN  SelectSeq(<<[mu |-> 2, alpha |-> a1], [mu |-> 3, alpha |-> a2]>>,
                  LAMBDA nest : \E id \in DOMAIN in.alts : CnlMember(nest, id))

---------------------------------------------------------------------------
(* Names of nests.                                                         *)
(* A labelling gives every nest a name or none (NoName); the library       *)
(* documents that a nest without a name gets the default "nest_<rank>".    *)
(* Names identify nothing in the mathematics: two nests with the same      *)
(* name remain two nests, a nest keeps its members and parameters whatever *)
(* it is called.  The labellings tried on every nest structure:            *)
(*   default        nobody is named                                        *)
(*   same           every nest has the same user name                      *)
(*   default-clash  the first nest is called like the default name of the  *)
(*                  second ("nest_2"), the others are unnamed              *)
(*   distinct       distinct user names                                    *)
(*   default-clash-reverse  the last nest is called "nest_1", the default  *)
(*                  name of the first; the others are unnamed              *)
(* The likelihood under complete sampling is the SAME exact value for all  *)
(* of them.  The only latitude: where the user himself gave two nests the  *)
(* same name (UserClash) a library that uses names as identifiers may      *)
(* refuse the labelling with its own error type -- never silently compute  *)
(* another model; a clash between a user name and a default name, or no    *)
(* clash at all, is no ground for a refusal (the defaults are the          *)
(* library's own choice).                                                  *)
(***************************************************************************)
NoName == ""
DefaultName(i) == "nest_" \o ToString(i)
NamingKinds == <<"default", "same", "default-clash", "distinct", "default-clash-reverse">>
Naming(kind, m) ==
    [i \in 1..m |->
        CASE kind = "default" -> NoName
          [] kind = "same" -> "n"
          [] kind = "default-clash" -> IF i = 1 THEN DefaultName(2) ELSE NoName
          [] kind = "distinct" -> "zone_" \o ToString(i)
          [] kind = "default-clash-reverse" -> IF i = m THEN DefaultName(1) ELSE NoName]
UserClash(nm) == \E i, j \in 1..Len(nm) : i # j /\ nm[i] # NoName /\ nm[i] = nm[j]
DefaultClash(nm) == \E i, j \in 1..Len(nm) : i # j /\ nm[i] = NoName /\ nm[j] = DefaultName(i)
Label(nests, nm) == [m \in 1..Len(nests) |-> [nest |-> nests[m], name |-> nm[m]]]
Structure(lnests) == [m \in 1..Len(lnests) |-> lnests[m].nest]
\* the models of labelled nests: the labels are dropped before anything is computed
NestedProbL(in, fam, ind, lnests) == NestedProb(in, fam, ind, Structure(lnests))
CnlProbL(in, fam, ind, lnests) == CnlProb(in, fam, ind, Structure(lnests))
NamingsJson(m) == [k \in 1..Len(NamingKinds) |->
                     LET nm == Naming(NamingKinds[k], m) IN
                     [kind |-> NamingKinds[k], names |-> nm, may_refuse |-> UserClash(nm), default_clash |-> DefaultClash(nm)]]

---------------------------------------------------------------------------
(* Properties of the model, checked by TLC *)
TypeOK == /\ ValidInst(inst)
          /\ cur \in 1..Len(inds)
          /\ Len(picked) <= Len(inst.strata) /\ Len(mpicked) <= Len(inst.mev)
          /\ Len(rows) \in {cur - 1, cur} /\ Len(mrows) \in {cur - 1, cur}
          /\ pc \in {"sample", "second", "rowdone", "done"}

\* every sample is drawn from its own stratum, with the requested size, around the chosen alternative
PickedOK == \A s \in 1..Len(picked) : CanSample(inst.strata[s], Cur.choice, picked[s])

\* every behaviour of the model satisfies the protocol clauses the traces are judged with
Accepted == pc = "rowdone" => /\ Fails(inst, Cur, Obs(Cur, rows[cur], mrows[cur])) = {}
                              /\ Inferred(inst.strata, rows[cur]) = picked
                              /\ (Order # "any" => Grouped(inst, rows[cur]))

\* the clauses written out directly on the model's row (the property's sentence)
Protocol == pc = "rowdone" =>
    LET r == rows[cur] IN
    /\ r[1].id = Cur.choice
    /\ Cardinality(RowIds(r)) = Len(r)
    /\ \A s \in 1..Len(inst.strata) :
          LET pos == {i \in 1..Len(r) : r[i].id \in inst.strata[s].sub} IN
          /\ Cardinality(pos) = inst.strata[s].k
          /\ \A i \in pos : r[i].corr = App("log", <<Q(inst.strata[s].k, Cardinality(inst.strata[s].sub))>>)
    /\ \A i \in 1..Len(r) : \E s \in 1..Len(inst.strata) : r[i].id \in inst.strata[s].sub
    /\ \A i \in 1..Len(r) : /\ r[i].comb.prod = I(Cur.x * AltTab[r[i].id].c)
                            /\ r[i].comb.diff = I(Cur.x - AltTab[r[i].id].c)
                            /\ r[i].comb.sum  = I(Cur.x + AltTab[r[i].id].c)
    /\ LET m == mrows[cur] IN
       /\ \A s \in 1..Len(inst.mev) :
             LET pos == {i \in 1..Len(m) : m[i].id \in inst.mev[s].sub} IN
             /\ Cardinality(pos) = inst.mev[s].k
             /\ \A i \in pos : m[i].w = Q(Cardinality(inst.mev[s].sub), inst.mev[s].k)
       /\ Cardinality(RowIds(m)) = Len(m)

\* complete sampling: the corrected logit on the sample is the logit on the full choice set;
\* in general the corrected probability of the chosen alternative is a probability
FullEquiv == pc = "rowdone" =>
    \A fam \in Fams :
       LET p == RowProb(inst, fam, Cur, RowIds(rows[cur])) IN
       /\ QLess(Zero, p) /\ QLeq(p, One)
       /\ IsComplete(inst) => p = FullProb(inst, fam, Cur)

\* the names of the nests are not part of the model: labelling a nest structure and reading the structure back gives
\* the structure, whatever the labelling (clashing names included: nothing is merged, nothing is lost), so the labelled
\* models have the value of the unlabelled ones (written out for the first individual)
NamesNotInModel == (Mode = "full" /\ pc = "done") =>
    LET specs == NestSpecs(inst)
        cn == CnlSpec(inst) IN
    /\ \A k \in 1..Len(NamingKinds) :
        /\ \A q \in 1..Len(specs) :
              LET ln == Label(specs[q], Naming(NamingKinds[k], Len(specs[q]))) IN
              /\ Structure(ln) = specs[q]
              /\ \A fam \in Fams : NestedProbL(inst, fam, inds[1], ln) = NestedProb(inst, fam, inds[1], specs[q])
        /\ LET ln == Label(cn, Naming(NamingKinds[k], Len(cn))) IN
           /\ Structure(ln) = cn
           /\ \A fam \in Fams : CnlProbL(inst, fam, inds[1], ln) = CnlProb(inst, fam, inds[1], cn)
    \* which labellings clash, for 1..4 nests (what the emitted flags say)
    /\ \A m \in 1..4 :
        /\ ~UserClash(Naming("default", m)) /\ ~DefaultClash(Naming("default", m))
        /\ ~UserClash(Naming("distinct", m)) /\ ~DefaultClash(Naming("distinct", m))
        /\ m >= 2 => /\ UserClash(Naming("same", m))
                     /\ DefaultClash(Naming("default-clash", m)) /\ ~UserClash(Naming("default-clash", m))
                     /\ DefaultClash(Naming("default-clash-reverse", m)) /\ ~UserClash(Naming("default-clash-reverse", m))

\* acceptance = membership: a candidate row (any sequence of entries carrying some stratum's
\* correction) passes the main clauses iff SampleStratum/Assemble can produce it.  Evaluated on the
\* initial states of mode "lemma" (tiny tables).
CandEntries(in, x) ==
    {[Entry(in, x, id) EXCEPT !.corr = Corr(in.strata[s])] : id \in DOMAIN in.alts, s \in 1..Len(in.strata)}
CandRows(in, x) == UNION {[1..l -> CandEntries(in, x)] : l \in 0..(TotalSize(in.strata) + 1)}
AcceptanceIsMembership ==
    (Mode = "lemma" /\ pc = "sample" /\ picked = << >> /\ cur = 1) =>
        LET ind == Cur
            beh == AllRows(inst, ind) IN
        \A r \in CandRows(inst, ind.x) : (MainFails(inst, ind, Obs(ind, r, << >>)) = {}) <=> (r \in beh)

---------------------------------------------------------------------------
(* spec -> code: complete sampling, with the exact likelihoods *)
StrataJson(strata) == [s \in 1..Len(strata) |-> [sub |-> SortedSeq(strata[s].sub), k |-> strata[s].k]]
NestJson(nests) == [m \in 1..Len(nests) |-> [sub |-> SortedSeq(nests[m].sub), mu |-> nests[m].mu]]
LogLik(ps) == SSumSeq([i \in 1..Len(ps) |-> App("log", <<ps[i]>>)])
Emitted ==
    LET ids == SortedSeq(Ids) IN
    [alts   |-> [i \in 1..Len(ids) |-> <<ids[i], AltTab[ids[i]].a, AltTab[ids[i]].c>>],
     strata |-> StrataJson(inst.strata),
     hasmev |-> inst.mev # << >>,
     mev    |-> StrataJson(inst.mev),
     inds   |-> [i \in 1..Len(inds) |-> <<inds[i].choice, inds[i].x>>],
     logit  |-> [fam \in Fams |->
                    [p  |-> [i \in 1..Len(inds) |-> FullProb(inst, fam, inds[i])],
                     ll |-> LogLik([i \in 1..Len(inds) |-> FullProb(inst, fam, inds[i])])]],
     nested |-> LET specs == NestSpecs(inst) IN
                [q \in 1..Len(specs) |->
                    [nests |-> NestJson(specs[q]),
                     namings |-> NamingsJson(Len(specs[q])),
                     fams  |-> [fam \in Fams |->
                                  [p  |-> [i \in 1..Len(inds) |-> NestedProb(inst, fam, inds[i], specs[q])],
                                   ll |-> LogLik([i \in 1..Len(inds) |-> NestedProb(inst, fam, inds[i], specs[q])])]]]],
     cnl    |-> LET nests == CnlSpec(inst) IN
                [nests |-> [m \in 1..Len(nests) |->
                              [mu |-> nests[m].mu,
                               alpha |-> [i \in 1..Len(ids) |-> <<ids[i], nests[m].alpha[ids[i]].n, nests[m].alpha[ids[i]].d>>]]],
                 namings |-> NamingsJson(Len(nests)),
                 fams  |-> [fam \in Fams |->
                              [p  |-> [i \in 1..Len(inds) |-> CnlProb(inst, fam, inds[i], nests)],
                               ll |-> LogLik([i \in 1..Len(inds) |-> CnlProb(inst, fam, inds[i], nests)])]]]]
EmitInv == (Mode = "full" /\ pc = "done") => PrintT(ToJson(Emitted))
=============================================================================
