------------------------------ MODULE Aggregation ------------------------------
(***************************************************************************)
(* The sample log likelihood as a weighted sum computed by T threads       *)
(* (property C04).  Rows carry an integer weight W[r] and an integer       *)
(* per-observation value F[r] (the gradient / Hessian / BHHH entries       *)
(* aggregate by the same rule, so one scalar per row stands for any of     *)
(* them).  Dispatch splits the rows into contiguous blocks, one per        *)
(* thread -- either ANY split (the contract) or the concrete rule of the   *)
(* shipped engine source (biogeme.cc:prepareData: block size ceil(N/T),    *)
(* ceil(N/size) blocks, the last one runs to N).  Step(t) lets thread t    *)
(* add its next row to its own partial sum; steps of different threads     *)
(* interleave freely; Join adds the partial sums; Scale divides by N.      *)
(*                                                                         *)
(* Checked: in every terminal state, for every split and interleaving,     *)
(* total = sum_r W[r] * F[r]; every row is processed exactly once; the     *)
(* engine's rule is a partition into <= T contiguous non-empty blocks.     *)
(***************************************************************************)
EXTENDS Integers, Sequences, FiniteSets, TLC

CONSTANTS N,          \* number of rows (individuals on panel data)
          T,          \* number of threads requested (>= 1)
          W, F,       \* weights and per-row values (sequences of length N)
          EngineRule  \* TRUE: only the engine's concrete partition; FALSE: any contiguous split

VARIABLES pc, first, last, next, part, total, seen
vars == <<pc, first, last, next, part, total, seen>>

Threads == 1..T
RowsSet == 1..N

RECURSIVE SumTo(_, _)
SumTo(f, k) == IF k = 0 THEN 0 ELSE f[k] + SumTo(f, k - 1)
Expected == SumTo([r \in RowsSet |-> W[r] * F[r]], N)

CeilDiv(a, b) == (a + b - 1) \div b

\* the engine's partition: size s = ceil(N/T); nb = ceil(N/s) blocks; block t = [(t-1)s+1, ts], last to N
EngineFirst(t) == LET s == CeilDiv(N, T) IN (t - 1) * s + 1
EngineLast(t)  == LET s == CeilDiv(N, T)
                      nb == CeilDiv(N, s)
                  IN  IF t = nb THEN N ELSE IF t > nb THEN 0 ELSE t * s
EngineBlocks   == LET s == CeilDiv(N, T) IN CeilDiv(N, s)

\* any contiguous split: cut points 0 = c0 <= c1 <= ... <= cT = N (empty blocks allowed)
Cuts == {c \in [0..T -> 0..N] : c[0] = 0 /\ c[T] = N /\ \A t \in 1..T : c[t - 1] <= c[t]}

Init == /\ pc = "idle"
        /\ first = [t \in Threads |-> 1] /\ last = [t \in Threads |-> 0]
        /\ next = [t \in Threads |-> 1]
        /\ part = [t \in Threads |-> 0]
        /\ total = 0
        /\ seen = [r \in RowsSet |-> 0]

Dispatch ==
    /\ pc = "idle"
    /\ IF EngineRule
       THEN /\ first' = [t \in Threads |-> IF t <= EngineBlocks THEN EngineFirst(t) ELSE 1]
            /\ last'  = [t \in Threads |-> IF t <= EngineBlocks THEN EngineLast(t) ELSE 0]
       ELSE \E c \in Cuts :
            /\ first' = [t \in Threads |-> c[t - 1] + 1]
            /\ last'  = [t \in Threads |-> c[t]]
    /\ next' = first'
    /\ pc' = "run"
    /\ UNCHANGED <<part, total, seen>>

Step(t) ==
    /\ pc = "run" /\ next[t] <= last[t]
    /\ part' = [part EXCEPT ![t] = @ + W[next[t]] * F[next[t]]]
    /\ seen' = [seen EXCEPT ![next[t]] = @ + 1]
    /\ next' = [next EXCEPT ![t] = @ + 1]
    /\ UNCHANGED <<pc, first, last, total>>

Join ==
    /\ pc = "run" /\ \A t \in Threads : next[t] > last[t]
    /\ total' = SumTo(part, T)
    /\ pc' = "done"
    /\ UNCHANGED <<first, last, next, part, seen>>

Next == Dispatch \/ (\E t \in Threads : Step(t)) \/ Join
Spec == Init /\ [][Next]_vars /\ WF_vars(Next)

TotalOK      == pc = "done" => total = Expected
EachRowOnce  == pc = "done" => \A r \in RowsSet : seen[r] = 1
NeverTwice   == \A r \in RowsSet : seen[r] <= 1
BlocksDisjointCover ==
    pc # "idle" =>
       /\ \A r \in RowsSet : Cardinality({t \in Threads : first[t] <= r /\ r <= last[t]}) = 1
       /\ \A t \in Threads : last[t] <= N /\ first[t] >= 1
Terminates == <>(pc = "done")
=============================================================================
