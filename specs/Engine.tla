-------------------------------- MODULE Engine --------------------------------
(***************************************************************************)
(* The call protocol at the Python <-> engine boundary for one estimation  *)
(* object (class pyBiogeme), validated against recorded boundary logs.     *)
(*                                                                         *)
(* State of the engine object as Python has configured it: number of free  *)
(* parameters, whether panel mode / map / data / missing-data code / draws *)
(* / expressions have been set, the rows currently loaded.  One action per *)
(* boundary call.  What must hold (judged at every step of a trace):       *)
(*  - nothing is evaluated before data and expressions are set;            *)
(*  - the individual map is set iff the data are panel, before any         *)
(*    evaluation, and every [first, last] lies inside the loaded rows,     *)
(*    two blocks are the same individual or disjoint;                      *)
(*  - draws are set iff the formulas need them, before the expressions     *)
(*    are evaluated, with one series per unit (row, or individual);        *)
(*  - the thread count is positive, a weight signature is passed iff a     *)
(*    weight formula exists;                                               *)
(*  - every evaluation passes a vector of exactly nFree values, and the    *)
(*    literal ids for differentiation are 0..nFree-1 in order;             *)
(*  - data loaded later (bootstrap, validation) consist of rows of the     *)
(*    ORIGINAL table only; a map loaded later consists of blocks of the    *)
(*    ORIGINAL map only (samples of existing individuals);                 *)
(*  - simulation passes one signature per formula, the full table and the  *)
(*    number of units;                                                     *)
(*  - when the session ends the engine holds the complete data set again.  *)
(***************************************************************************)
EXTENDS Integers, Sequences, FiniteSets, TLC, Json, IOUtils

Trace == JsonDeserialize(IOEnv.TRACE_FILE)
NT == Len(Trace)

VARIABLES t, l, bad, nfree, panel, mapSet, dataRows, missSet, drawsSet, exprSet, origRows, origMap, curMap, curRows
vars == <<t, l, bad, nfree, panel, mapSet, dataRows, missSet, drawsSet, exprSet, origRows, origMap, curMap, curRows>>

Ev == Trace[t].events[l + 1]
Hdr == Trace[t]          \* header facts known to the driver: panel, needs_draws, weighted, nunits
More == t <= NT /\ l < Len(Trace[t].events)
SeqToSet(s) == {s[i] : i \in 1..Len(s)}

Ready == dataRows > 0 /\ exprSet /\ (Hdr.panel => mapSet) /\ (Hdr.needs_draws => drawsSet)
MapInside(m, n) == \A i \in 1..Len(m) : 0 <= m[i][1] /\ m[i][1] <= m[i][2] /\ m[i][2] < n
\* two blocks are the same individual (a bootstrap sample draws individuals with replacement) or disjoint
MapDisjoint(m) == \A i, j \in 1..Len(m) : m[i] = m[j] \/ m[i][2] < m[j][1] \/ m[j][2] < m[i][1]

Verdict ==
    CASE Ev.call = "__init__" -> IF l # 0 THEN "init-not-first" ELSE "ok"
      [] Ev.call = "setPanel" -> IF ~Hdr.panel THEN "setPanel-on-non-panel-data" ELSE IF ~Ev.flag THEN "setPanel(False)" ELSE "ok"
      [] Ev.call = "setDataMap" ->
           IF ~Hdr.panel THEN "map-on-non-panel-data"
           ELSE IF origMap = << >> THEN "ok"            \* first map: checked against the data when both are known
           ELSE IF ~(SeqToSet(Ev.map) \subseteq SeqToSet(origMap)) THEN "later-map-has-a-block-that-is-no-individual"
           ELSE "ok"
      [] Ev.call = "setData" ->
           IF Ev.nrows = 0 THEN "empty-data"
           ELSE IF origRows # << >> /\ ~(SeqToSet(Ev.rowids) \subseteq SeqToSet(origRows)) THEN "later-data-has-a-row-that-is-not-in-the-table"
           ELSE "ok"
      [] Ev.call = "setMissingData" -> "ok"
      [] Ev.call = "setDraws" ->
           IF ~Hdr.needs_draws THEN "draws-set-but-not-needed"
           ELSE IF Ev.nunits # Hdr.nunits THEN "draw-table-first-dimension-is-not-the-number-of-units"
           ELSE "ok"
      [] Ev.call = "setExpressions" ->
           IF dataRows = 0 THEN "expressions-before-data"
           ELSE IF Hdr.needs_draws /\ ~drawsSet THEN "expressions-before-draws"
           ELSE IF Ev.threads < 1 THEN "thread-count-not-positive"
           ELSE IF Ev.weighted # Hdr.weighted THEN "weight-signature-iff-weight-formula"
           ELSE "ok"
      [] Ev.call \in {"calculateLikelihood", "calculateLikelihoodAndDerivatives"} ->
           IF ~Ready THEN "evaluation-before-the-engine-is-configured"
           ELSE IF Ev.nx # nfree THEN "parameter-vector-length"
           ELSE IF Hdr.panel /\ ~(MapInside(curMap, dataRows) /\ MapDisjoint(curMap)) THEN "map-does-not-fit-the-loaded-rows"
           ELSE IF Ev.call = "calculateLikelihoodAndDerivatives" /\ Ev.literals # [i \in 1..nfree |-> i - 1] THEN "literal-ids-not-0..K-1"
           ELSE "ok"
      [] Ev.call = "simulateSeveralFormulas" ->
           IF dataRows = 0 THEN "simulation-before-data"
           ELSE IF Ev.nformulas # Hdr.nformulas THEN "one-signature-per-formula"
           ELSE IF Ev.nx # nfree THEN "parameter-vector-length"
           ELSE IF Ev.nrows # Len(origRows) THEN "simulation-not-on-the-full-table"
           ELSE IF Ev.nunits # Hdr.nunits THEN "simulation-number-of-units"
           ELSE "ok"
      [] OTHER -> "unknown-call:" \o Ev.call

Step == /\ More /\ bad = "ok"
        /\ bad' = (IF Verdict = "ok" THEN "ok" ELSE Verdict \o "@" \o ToString(l + 1))
        /\ nfree' = IF Ev.call = "__init__" THEN Ev.nfree ELSE nfree
        /\ panel' = (panel \/ Ev.call = "setPanel")
        /\ mapSet' = (mapSet \/ Ev.call = "setDataMap")
        /\ curMap' = IF Ev.call = "setDataMap" THEN Ev.map ELSE curMap
        /\ origMap' = IF Ev.call = "setDataMap" /\ origMap = << >> THEN Ev.map ELSE origMap
        /\ dataRows' = IF Ev.call = "setData" THEN Ev.nrows ELSE dataRows
        /\ origRows' = IF Ev.call = "setData" /\ origRows = << >> THEN Ev.rowids ELSE origRows
        /\ curRows' = IF Ev.call = "setData" THEN Ev.rowids ELSE curRows
        /\ missSet' = (missSet \/ Ev.call = "setMissingData")
        /\ drawsSet' = (drawsSet \/ Ev.call = "setDraws")
        /\ exprSet' = (exprSet \/ Ev.call = "setExpressions")
        /\ l' = l + 1 /\ t' = t

Finish == /\ t <= NT /\ (l = Len(Trace[t].events) \/ bad # "ok")
          /\ PrintT(ToJson([tid |-> Trace[t].tid,
                            verdict |-> IF bad # "ok" THEN bad
                                        ELSE IF Hdr.panel # panel THEN "panel-mode-not-set-iff-panel-data"
                                        ELSE IF ~missSet THEN "missing-data-code-never-set"
                                        \* when the session ends the engine refers to the complete data set again
                                        ELSE IF curRows # origRows \/ curMap # origMap THEN "engine-left-on-a-resample"
                                        ELSE "ok"]))
          /\ t' = t + 1 /\ l' = 0 /\ bad' = "ok" /\ nfree' = 0 /\ panel' = FALSE /\ mapSet' = FALSE /\ dataRows' = 0
          /\ missSet' = FALSE /\ drawsSet' = FALSE /\ exprSet' = FALSE /\ origRows' = << >> /\ origMap' = << >> /\ curMap' = << >> /\ curRows' = << >>

TInit == /\ t = 1 /\ l = 0 /\ bad = "ok" /\ nfree = 0 /\ panel = FALSE /\ mapSet = FALSE /\ dataRows = 0 /\ missSet = FALSE
         /\ drawsSet = FALSE /\ exprSet = FALSE /\ origRows = << >> /\ origMap = << >> /\ curMap = << >> /\ curRows = << >>
TNext == Step \/ Finish
TraceSpec == TInit /\ [][TNext]_vars
Progress == t \in 1..(NT + 1)
=============================================================================
