------------------------------ MODULE Database ------------------------------
(***************************************************************************)
(* The data set of biogeme (class Database) as an abstract table and the   *)
(* operations that transform or read it.  Written from the documentation   *)
(* of the operations, not from their code.                                 *)
(*                                                                         *)
(* A table is a SEQUENCE of rows; a row is [lab |-> index label, c |->     *)
(* cells], the cells aligned with the sequence `cols` of column names.     *)
(* The label is what pandas shows as the index of the row.  It is carried  *)
(* along by every operation but NEVER identifies a row: rows are           *)
(* identified by their position in the sequence (labels may have gaps, be  *)
(* permuted or repeated).  Cells are small integers; Scale multiplies by   *)
(* num/den and is only offered when the result stays integral.             *)
(*                                                                         *)
(* Formulas (conditions of Remove, definitions of new columns) are records *)
(* [f, a, b, v]; their meaning on one row is Ev.                           *)
(*                                                                         *)
(* Three uses of this module (constant Mode):                              *)
(*  "model": TLC explores every history; operations with random outcomes   *)
(*      (Split, Sample, SampleIndividuals) have every allowed outcome as   *)
(*      successor; the property is checked as invariants on <<prev, last,  *)
(*      res, current state>>.                                              *)
(*  "gen":  generator of histories for replay on the real class: every     *)
(*      mutating operation is followed by a batch of reading operations    *)
(*      (the composition of the observer actions, which stutter on the     *)
(*      data); each step carries the state / return value this module      *)
(*      expects.  Random outcomes are left open (det = FALSE) and judged   *)
(*      by DatabaseTrace on what the real code returned.                   *)
(*  DatabaseTrace EXTENDS this module for code -> spec validation.         *)
(***************************************************************************)
EXTENDS Integers, Sequences, FiniteSets, TLC, Json

CONSTANTS
    Tables,        \* sequence of initial tables [rows |-> <<row>>, cols |-> <<name>>]
    Conds,         \* sequence of formulas offered to Remove
    Forms,         \* sequence of formulas offered to AddColumn
    NewNames,      \* sequence of names for new columns (used in this order)
    ScaleArgs,     \* sequence of <<column, num, den>>
    PanelCols,     \* sequence of columns offered to Panel
    SplitArgs,     \* sequence of <<number of folds, group column or "">>
    SampleNs,      \* sequence of sample sizes (0 = default: as many as there are rows / individuals)
    ExtractKinds,  \* sequence of symbolic position lists (see ExtractList)
    CountArgs,     \* sequence of <<column, value>>
    MaxOps,        \* number of mutating operations in a history
    Bound,         \* magnitude bound on cells (TLC integers are 32 bit)
    Mode,          \* "model" | "gen"
    ObsThin,       \* gen: an observer runs after a mutator iff (seq + its index) % ObsThin = 0
    Salt,
    RemoveImpl(_, _, _)   \* RemoveByPosition (the specification) or RemoveByLabel (a mutant, control)

VARIABLES
    tid,        \* index of the initial table
    table, cols,
    excluded,   \* number of rows deleted by the last Remove
    pcol,       \* panel column, "" = not panel
    map,        \* individual map: sequence of [id, first, last] (0-based positions), << >> = none
    prev, last, res,   \* state before the last operation, the operation, its result (model)
    n,          \* number of mutating operations so far
    seq,        \* running hash of the mutators applied (selects the observers in gen mode)
    hist,       \* gen: the history with expectations
    done

vars == <<tid, table, cols, excluded, pcol, map, prev, last, res, n, seq, hist, done>>

-----------------------------------------------------------------------------
(* Elementary definitions *)

Row(lab, c) == [lab |-> lab, c |-> c]
Pos(tb) == 1..Len(tb)
Has(cs, name) == \E j \in 1..Len(cs) : cs[j] = name
Idx(cs, name) == CHOOSE j \in 1..Len(cs) : cs[j] = name
Cell(r, cs, name) == r.c[Idx(cs, name)]
AbsV(x) == IF x < 0 THEN -x ELSE x
MinS(S) == CHOOSE x \in S : \A y \in S : x <= y
MaxS(S) == CHOOSE x \in S : \A y \in S : y <= x
\* the j-th smallest element of a finite set of integers
Nth(S, j) == CHOOSE i \in S : Cardinality({m \in S : m < i}) = j - 1
AscSeq(S) == [j \in 1..Cardinality(S) |-> Nth(S, j)]
\* sub-sequence of the rows at the positions in S, in table order
SubAt(tb, S) == [j \in 1..Cardinality(S) |-> tb[Nth(S, j)]]
RECURSIVE Flat(_)
Flat(ss) == IF ss = << >> THEN << >> ELSE Head(ss) \o Flat(Tail(ss))
Cnt(s, x) == Cardinality({i \in 1..Len(s) : s[i] = x})
\* equality of two sequences as bags (multisets)
BagEq(s, t) == Len(s) = Len(t) /\ \A i \in 1..Len(s) : Cnt(s, s[i]) = Cnt(t, s[i])
Labels(tb) == [i \in Pos(tb) |-> tb[i].lab]
Cells(tb) == [i \in Pos(tb) |-> tb[i].c]
Relabel(tb) == [i \in Pos(tb) |-> Row(i - 1, tb[i].c)]

-----------------------------------------------------------------------------
(* Formulas and their meaning on one row *)

Fm(f, a, b, v) == [f |-> f, a |-> a, b |-> b, v |-> v]
Uses(fm) == CASE fm.f = "const" -> {}
              [] fm.f \in {"col", "eq", "gt", "ne"} -> {fm.a}
              [] OTHER -> {fm.a, fm.b}
WellFormed(fm, cs) == \A a \in Uses(fm) : Has(cs, a)
B2I(b) == IF b THEN 1 ELSE 0
Ev(fm, r, cs) ==
    CASE fm.f = "const" -> fm.v
      [] fm.f = "col"   -> Cell(r, cs, fm.a)
      [] fm.f = "eq"    -> B2I(Cell(r, cs, fm.a) = fm.v)                   \* a == v
      [] fm.f = "ne"    -> B2I(Cell(r, cs, fm.a) # fm.v)                   \* a != v
      [] fm.f = "gt"    -> B2I(Cell(r, cs, fm.a) > fm.v)                   \* a > v
      [] fm.f = "lin"   -> Cell(r, cs, fm.a) + fm.v * Cell(r, cs, fm.b)    \* a + v * b
      [] fm.f = "prod"  -> Cell(r, cs, fm.a) * Cell(r, cs, fm.b)           \* a * b
      [] fm.f = "eqc"   -> B2I(Cell(r, cs, fm.a) = Cell(r, cs, fm.b))      \* a == b
      [] fm.f = "and"   -> B2I(Cell(r, cs, fm.a) > fm.v /\ Cell(r, cs, fm.b) > fm.v) \* (a > v) & (b > v)
InBound(x) == -Bound <= x /\ x <= Bound
FmBounded(fm, tb, cs) == \A i \in Pos(tb) : InBound(Ev(fm, tb[i], cs))

-----------------------------------------------------------------------------
(* The operations as functions of the state *)

\* Remove: the rows on which the condition is not 0 are deleted, the others stay, in order
Hit(tb, cs, fm) == {i \in Pos(tb) : Ev(fm, tb[i], cs) # 0}
RemoveByPosition(tb, cs, fm) == SubAt(tb, Pos(tb) \ Hit(tb, cs, fm))
\* the mutant: every row that carries the LABEL of a hit row goes
RemoveByLabel(tb, cs, fm) ==
    LET labs == {tb[i].lab : i \in Hit(tb, cs, fm)}
    IN  SubAt(tb, {i \in Pos(tb) : tb[i].lab \notin labs})

\* AddColumn / DefineVariable: one more cell per row = value of the formula on that row
NewCol(tb, cs, fm) == [i \in Pos(tb) |-> Ev(fm, tb[i], cs)]
AddRes(tb, cs, fm) == [i \in Pos(tb) |-> Row(tb[i].lab, Append(tb[i].c, Ev(fm, tb[i], cs)))]

\* Scale: exactly one column is multiplied by num/den
ScaleOK(tb, cs, col, num, den) ==
    /\ Has(cs, col)
    /\ \A i \in Pos(tb) : /\ (Cell(tb[i], cs, col) * num) % den = 0
                          /\ InBound((Cell(tb[i], cs, col) * num) \div den)
ScaleRes(tb, cs, col, num, den) ==
    LET x == Idx(cs, col) IN
    [i \in Pos(tb) |-> Row(tb[i].lab, [j \in 1..Len(cs) |->
        IF j = x THEN (tb[i].c[j] * num) \div den ELSE tb[i].c[j]])]

\* Panel: accepted iff the rows of every individual are consecutive; then the rows are sorted by
\* individual (keeping the order of the observations of one individual) and renumbered 0..n-1
ColVals(tb, cs, col) == {Cell(tb[i], cs, col) : i \in Pos(tb)}
Runs(tb, cs, col) ==
    Cardinality({i \in Pos(tb) : i = 1 \/ Cell(tb[i], cs, col) # Cell(tb[i - 1], cs, col)})
Contiguous(tb, cs, col) == Runs(tb, cs, col) = Cardinality(ColVals(tb, cs, col))
Before(tb, cs, col, j, i) ==
    \/ Cell(tb[j], cs, col) < Cell(tb[i], cs, col)
    \/ (Cell(tb[j], cs, col) = Cell(tb[i], cs, col) /\ j < i)
RankOf(tb, cs, col, i) == Cardinality({j \in Pos(tb) : Before(tb, cs, col, j, i)})
SortedPos(tb, cs, col) == [k \in Pos(tb) |-> CHOOSE i \in Pos(tb) : RankOf(tb, cs, col, i) = k - 1]
PanelRes(tb, cs, col) ==
    LET sp == SortedPos(tb, cs, col) IN [k \in Pos(tb) |-> Row(k - 1, tb[sp[k]].c)]
\* the individual map of a table: per individual (ascending) the first and last position (0-based)
MapOf(tb, cs, col) ==
    LET ids == AscSeq(ColVals(tb, cs, col)) IN
    [k \in 1..Len(ids) |->
        LET P == {i \in Pos(tb) : Cell(tb[i], cs, col) = ids[k]}
        IN  [id |-> ids[k], first |-> MinS(P) - 1, last |-> MaxS(P) - 1]]

\* Split: accepted iff k >= 2 (and the groups asked for are those of the panel, if panel)
EffGroup(pc, g) == IF pc # "" THEN pc ELSE g
SplitAccepted(k, g, pc) == k >= 2 /\ (g = "" \/ pc = "" \/ g = pc)
\* folds = sequence of k records [est, val] of rows.  Allowed outcomes: the validation parts are
\* pairwise disjoint and together contain every row once (as bags: labels and equal rows may
\* repeat), each estimation part is the complement, no group is separated.
GroupsIntact(cs, g, folds) ==
    g # "" => \A f1, f2 \in 1..Len(folds) : f1 # f2 =>
            \A i \in 1..Len(folds[f1].val), j \in 1..Len(folds[f2].val) :
                Cell(folds[f1].val[i], cs, g) # Cell(folds[f2].val[j], cs, g)
SplitOK(tb, cs, k, g, folds) ==
    /\ Len(folds) = k
    /\ BagEq(Flat([f \in 1..Len(folds) |-> folds[f].val]), tb)
    /\ \A f \in 1..Len(folds) : BagEq(folds[f].est \o folds[f].val, tb)
    /\ GroupsIntact(cs, g, folds)
\* constructive form used by the model: an assignment of the groups to the folds
GroupKey(tb, cs, g, i) == IF g = "" THEN i ELSE Cell(tb[i], cs, g)
Assignments(tb, cs, k, g) ==
    {a \in [Pos(tb) -> 1..k] :
        \A i, j \in Pos(tb) : GroupKey(tb, cs, g, i) = GroupKey(tb, cs, g, j) => a[i] = a[j]}
FoldsOf(tb, k, a) ==
    [f \in 1..k |-> [val |-> SubAt(tb, {i \in Pos(tb) : a[i] = f}),
                     est |-> SubAt(tb, {i \in Pos(tb) : a[i] # f})]]

\* Samples with replacement: nn rows (default: as many as there are), each an existing row
SizeOf(nn, dflt) == IF nn = 0 THEN dflt ELSE nn
SampleOK(tb, nn, rows) ==
    /\ Len(rows) = SizeOf(nn, Len(tb))
    /\ \A j \in 1..Len(rows) : \E i \in Pos(tb) : tb[i] = rows[j]
IndSampleOK(mp, nn, ents) ==
    /\ Len(ents) = SizeOf(nn, Len(mp))
    /\ \A j \in 1..Len(ents) : \E i \in 1..Len(mp) : mp[i] = ents[j]

\* Extract: the rows at the given POSITIONS (1-based here), in the given order, labels kept
ExtractList(kind, m) ==
    CASE kind = "first" -> <<1>>
      [] kind = "ends"  -> <<m, 1>>
      [] kind = "rev"   -> [j \in 1..m |-> m + 1 - j]
      [] kind = "dup"   -> IF m >= 2 THEN <<2, 2, 1>> ELSE <<1, 1>>
      [] kind = "oob"   -> <<1, m + 1>>
      [] kind = "neg"   -> <<0>>
      [] kind = "mid"   -> IF m >= 3 THEN <<2, 3>> ELSE <<1>>      \* consecutive positions (the caller may write them as a range)
\* The table handed back is a VALUE: later operations on the data set do not change it, and operations on it do not
\* change the data set (the replay re-reads every returned table after each later step, and scales the returned one).
ExtractOK(tb, ps) == ps # << >> /\ \A j \in 1..Len(ps) : ps[j] \in Pos(tb)
ExtractRes(tb, ps) == [j \in 1..Len(ps) |-> tb[ps[j]]]

\* Count: number of rows whose cell in the column equals the value
CountRes(tb, cs, col, v) == Cardinality({i \in Pos(tb) : Cell(tb[i], cs, col) = v})

\* Flatten: one line per individual (ascending id).  A column is "common" when (mode auto) it has
\* one value within every individual; it is then given once.  The other columns are given per
\* observation, the observations of an individual numbered 1, 2, .. in table order.
OtherCols(cs, pc) == SelectSeq(cs, LAMBDA c : c # pc)
ConstWithin(tb, cs, pc, c) ==
    \A i, j \in Pos(tb) : Cell(tb[i], cs, pc) = Cell(tb[j], cs, pc) => Cell(tb[i], cs, c) = Cell(tb[j], cs, c)
FlattenRes(tb, cs, pc, mode) ==
    LET ids  == AscSeq(ColVals(tb, cs, pc))
        oc   == OtherCols(cs, pc)
        com  == IF mode = "auto" THEN SelectSeq(oc, LAMBDA c : ConstWithin(tb, cs, pc, c)) ELSE << >>
        vary == SelectSeq(oc, LAMBDA c : \A q \in 1..Len(com) : com[q] # c)
    IN  [k \in 1..Len(ids) |->
            LET P == AscSeq({i \in Pos(tb) : Cell(tb[i], cs, pc) = ids[k]}) IN
            [id |-> ids[k],
             common |-> [q \in 1..Len(com) |-> <<com[q], Cell(tb[P[1]], cs, com[q])>>],
             obs |-> IF vary = << >> THEN << >>
                     ELSE [o \in 1..Len(P) |-> [q \in 1..Len(vary) |-> <<vary[q], Cell(tb[P[o]], cs, vary[q])>>]]]]

Sizes(tb, pc, mp) == [nobs |-> Len(tb), ssize |-> IF pc # "" THEN Len(mp) ELSE Len(tb)]

-----------------------------------------------------------------------------
(* Compact (JSON friendly) forms *)
CRows(tb) == [i \in Pos(tb) |-> <<tb[i].lab>> \o tb[i].c]
CMap(mp)  == [i \in 1..Len(mp) |-> <<mp[i].id, mp[i].first, mp[i].last>>]
CState(tb, cs, ex, pc, mp) == [rows |-> CRows(tb), cols |-> cs, excl |-> ex, pcol |-> pc, map |-> CMap(mp)]
CFolds(fs) == [f \in 1..Len(fs) |-> [est |-> CRows(fs[f].est), val |-> CRows(fs[f].val)]]

A0 == [fm |-> Fm("const", "", "", 0), col |-> "", num |-> 0, den |-> 1, k |-> 0, g |-> "", nn |-> 0,
       kind |-> "", name |-> "", v |-> 0, ps |-> << >>]
Op(op, a) == [op |-> op, a |-> a]

\* expectation attached to a step of a generated history
\*   err = "" (accepted) or the class of the refusal; det = the return value is determined;
\*   ret = the return value; same = the data state must not change; post = the state afterwards
Expect(err, det, ret, same, post) == [err |-> err, det |-> det, ret |-> ret, same |-> same, post |-> post]
\* only the arguments that matter for the operation are printed
CArgs(o) == CASE o.op = "remove"  -> [fm |-> o.a.fm]
              [] o.op = "add"     -> [fm |-> o.a.fm, name |-> o.a.name]
              [] o.op = "scale"   -> [col |-> o.a.col, num |-> o.a.num, den |-> o.a.den]
              [] o.op = "panel"   -> [col |-> o.a.col]
              [] o.op = "split"   -> [k |-> o.a.k, g |-> o.a.g]
              [] o.op \in {"sample", "sampleind"} -> [nn |-> o.a.nn]
              [] o.op = "extract" -> [kind |-> o.a.kind, ps |-> o.a.ps]
              [] o.op = "flatten" -> [kind |-> o.a.kind]
              [] o.op = "count"   -> [col |-> o.a.col, v |-> o.a.v]
              [] OTHER            -> [x |-> 0]
StepRec(o, e) == [op |-> o.op, a |-> CArgs(o), e |-> e]

-----------------------------------------------------------------------------
(* Initial state *)
NoRes == [kind |-> "none"]
Snapshot == [table |-> table, cols |-> cols, excluded |-> excluded, pcol |-> pcol, map |-> map]

\* hash of the mutators applied so far; selects which observers accompany a state (gen)
NextSeq(s, x) == (s * 31 + x + 7) % 1009

-----------------------------------------------------------------------------
(* Observers as pure expectations (gen) *)
ObsSplit(tb, cs, pc, mp, k, g) ==
    StepRec(Op("split", [A0 EXCEPT !.k = k, !.g = g]),
            IF SplitAccepted(k, g, pc) THEN Expect("", FALSE, 0, TRUE, 0)
            ELSE Expect("BiogemeError", TRUE, 0, TRUE, 0))
ObsSample(tb, nn) ==
    StepRec(Op("sample", [A0 EXCEPT !.nn = nn]), Expect("", FALSE, 0, TRUE, 0))
ObsIndSample(pc, mp, nn) ==
    StepRec(Op("sampleind", [A0 EXCEPT !.nn = nn]),
            IF pc # "" THEN Expect("", FALSE, 0, TRUE, 0) ELSE Expect("BiogemeError", TRUE, 0, TRUE, 0))
ObsExtract(tb, kind) ==
    LET ps == ExtractList(kind, Len(tb)) IN
    StepRec(Op("extract", [A0 EXCEPT !.kind = kind, !.ps = ps]),
            IF ExtractOK(tb, ps) THEN Expect("", TRUE, CRows(ExtractRes(tb, ps)), TRUE, 0)
            ELSE Expect("IndexError", TRUE, 0, TRUE, 0))
ObsFlatten(tb, cs, pc, mode) ==
    StepRec(Op("flatten", [A0 EXCEPT !.kind = mode]),
            IF pc # "" THEN Expect("", TRUE, FlattenRes(tb, cs, pc, mode), TRUE, 0)
            ELSE Expect("BiogemeError", TRUE, 0, TRUE, 0))
ObsCount(tb, cs, col, v) ==
    StepRec(Op("count", [A0 EXCEPT !.col = col, !.v = v]), Expect("", TRUE, CountRes(tb, cs, col, v), TRUE, 0))
ObsSizes(tb, pc, mp) ==
    StepRec(Op("sizes", A0), Expect("", TRUE, Sizes(tb, pc, mp), TRUE, 0))

\* all observers applicable to a state, in a fixed order
AllObs(tb, cs, pc, mp) ==
    [j \in 1..Len(SplitArgs) |-> ObsSplit(tb, cs, pc, mp, SplitArgs[j][1], SplitArgs[j][2])]
    \o [j \in 1..Len(SampleNs) |-> ObsSample(tb, SampleNs[j])]
    \o [j \in 1..Len(SampleNs) |-> ObsIndSample(pc, mp, SampleNs[j])]
    \o [j \in 1..Len(ExtractKinds) |-> ObsExtract(tb, ExtractKinds[j])]
    \o <<ObsFlatten(tb, cs, pc, "auto"), ObsFlatten(tb, cs, pc, "none")>>
    \o [j \in 1..Len(CountArgs) |-> ObsCount(tb, cs, CountArgs[j][1], CountArgs[j][2])]
    \o <<ObsSizes(tb, pc, mp)>>
ObsAdmissible(o, tb, cs) ==
    /\ o.op = "split" => (o.a.g = "" \/ Has(cs, o.a.g))
    /\ o.op = "count" => Has(cs, o.a.col)
    /\ tb # << >>
ObsBatch(tb, cs, pc, mp, s) ==
    LET all == AllObs(tb, cs, pc, mp)
        pick == {j \in 1..Len(all) : (s + j + Salt) % ObsThin = 0 /\ ObsAdmissible(all[j], tb, cs)}
    IN  IF tb = << >> THEN << >> ELSE [q \in 1..Cardinality(pick) |-> all[Nth(pick, q)]]

-----------------------------------------------------------------------------
Init ==
    /\ tid \in 1..Len(Tables)
    /\ table = Tables[tid].rows
    /\ cols = Tables[tid].cols
    /\ excluded = 0
    /\ pcol = ""
    /\ map = << >>
    /\ prev = [table |-> Tables[tid].rows, cols |-> Tables[tid].cols, excluded |-> 0, pcol |-> "", map |-> << >>]
    /\ last = Op("init", A0)
    /\ res = NoRes
    /\ n = 0
    /\ seq = tid
    /\ hist = IF Mode = "gen" THEN ObsBatch(Tables[tid].rows, Tables[tid].cols, "", << >>, tid) ELSE << >>
    /\ done = (MaxOps = 0)

\* bookkeeping common to every mutating step: x = index of the mutator (for seq), e = expectation
Book(o, x, e, stop) ==
    /\ prev' = Snapshot
    /\ last' = o
    /\ n' = n + 1
    /\ seq' = IF Mode = "gen" THEN NextSeq(seq, x) ELSE seq
    /\ hist' = IF Mode = "gen"
               THEN Append(hist, StepRec(o, e))
                    \o (IF stop THEN << >> ELSE ObsBatch(table', cols', pcol', map', NextSeq(seq, x)))
               ELSE << >>
    /\ done' = (stop \/ n + 1 >= MaxOps)
    /\ UNCHANGED tid
PostNow == CState(table', cols', excluded', pcol', map')

-----------------------------------------------------------------------------
(* Mutating actions *)
Remove(x) ==
    LET fm == Conds[x] IN
    /\ table # << >> /\ WellFormed(fm, cols) /\ FmBounded(fm, table, cols)
    /\ table' = RemoveImpl(table, cols, fm)
    /\ excluded' = Cardinality(Hit(table, cols, fm))
    /\ UNCHANGED <<cols, pcol, map>>
    /\ res' = NoRes
    /\ Book(Op("remove", [A0 EXCEPT !.fm = fm]), x, Expect("", TRUE, 0, FALSE, PostNow), FALSE)

NextName == NewNames[CHOOSE j \in 1..Len(NewNames) : ~Has(cols, NewNames[j]) /\ \A q \in 1..(j - 1) : Has(cols, NewNames[q])]
AddColumn(x) ==
    LET fm == Forms[x] IN
    /\ table # << >> /\ WellFormed(fm, cols) /\ FmBounded(fm, table, cols)
    /\ \E j \in 1..Len(NewNames) : ~Has(cols, NewNames[j])
    /\ table' = AddRes(table, cols, fm)
    /\ cols' = Append(cols, NextName)
    /\ UNCHANGED <<excluded, pcol, map>>
    /\ res' = [kind |-> "column", val |-> NewCol(table, cols, fm)]
    /\ Book(Op("add", [A0 EXCEPT !.fm = fm, !.name = NextName]), 20 + x,
            Expect("", TRUE, [i \in Pos(table) |-> <<table[i].lab, Ev(fm, table[i], cols)>>], FALSE, PostNow), FALSE)

\* a column name that exists already is refused; nothing changes
AddExisting ==
    /\ table # << >> /\ Len(cols) >= 2
    /\ UNCHANGED <<table, cols, excluded, pcol, map>>
    /\ res' = NoRes
    /\ Book(Op("add", [A0 EXCEPT !.fm = Fm("col", cols[1], "", 0), !.name = cols[Len(cols)]]), 40,
            Expect("ValueError", TRUE, 0, TRUE, PostNow), FALSE)

\* an empty table accepts no formula
AddOnEmpty ==
    /\ table = << >> /\ ~done
    /\ UNCHANGED <<table, cols, excluded, pcol, map>>
    /\ res' = NoRes
    /\ Book(Op("add", [A0 EXCEPT !.fm = Fm("const", "", "", 1), !.name = "zz"]), 41,
            Expect("BiogemeError", TRUE, 0, TRUE, PostNow), TRUE)

Scale(x) ==
    LET col == ScaleArgs[x][1]  num == ScaleArgs[x][2]  den == ScaleArgs[x][3] IN
    /\ table # << >> /\ ScaleOK(table, cols, col, num, den)
    /\ table' = ScaleRes(table, cols, col, num, den)
    /\ UNCHANGED <<cols, excluded, pcol, map>>
    /\ res' = NoRes
    /\ Book(Op("scale", [A0 EXCEPT !.col = col, !.num = num, !.den = den]), 50 + x,
            Expect("", TRUE, 0, FALSE, PostNow), FALSE)

Panel(x) ==
    LET col == PanelCols[x] IN
    /\ table # << >> /\ Has(cols, col)
    /\ IF Contiguous(table, cols, col)
       THEN /\ table' = PanelRes(table, cols, col)
            /\ pcol' = col
            /\ map' = MapOf(PanelRes(table, cols, col), cols, col)
            /\ UNCHANGED <<cols, excluded>>
            /\ res' = NoRes
            /\ Book(Op("panel", [A0 EXCEPT !.col = col]), 70 + x, Expect("", TRUE, 0, FALSE, PostNow), FALSE)
       ELSE \* refused: the data stay as they are; a generated history stops here
            /\ UNCHANGED <<table, cols, excluded, pcol, map>>
            /\ res' = NoRes
            /\ Book(Op("panel", [A0 EXCEPT !.col = col]), 70 + x, Expect("BiogemeError", TRUE, 0, TRUE, PostNow), TRUE)

\* rebuilds the map of a panel table (sorts and renumbers); no effect when not panel
BuildMap ==
    /\ table # << >>
    /\ IF pcol # ""
       THEN /\ table' = PanelRes(table, cols, pcol)
            /\ map' = MapOf(PanelRes(table, cols, pcol), cols, pcol)
       ELSE UNCHANGED <<table, map>>
    /\ UNCHANGED <<cols, excluded, pcol>>
    /\ res' = NoRes
    /\ Book(Op("buildmap", A0), 80, Expect("", TRUE, 0, FALSE, PostNow), FALSE)

Mutate ==
    \/ \E x \in 1..Len(Conds) : Remove(x)
    \/ \E x \in 1..Len(Forms) : AddColumn(x)
    \/ AddExisting
    \/ AddOnEmpty
    \/ \E x \in 1..Len(ScaleArgs) : Scale(x)
    \/ \E x \in 1..Len(PanelCols) : Panel(x)
    \/ BuildMap

-----------------------------------------------------------------------------
(* Observer actions (model): the data state stutters, res takes every allowed outcome *)
Observe(o, r) ==
    /\ UNCHANGED <<tid, table, cols, excluded, pcol, map, seq, hist>>
    /\ prev' = Snapshot
    /\ last' = o
    /\ res' = r
    /\ n' = n + 1
    /\ done' = (n + 1 >= MaxOps)

Split(k, g) ==
    /\ table # << >> /\ (g = "" \/ Has(cols, g))
    /\ IF SplitAccepted(k, g, pcol)
       THEN \E a \in Assignments(table, cols, k, EffGroup(pcol, g)) :
                Observe(Op("split", [A0 EXCEPT !.k = k, !.g = g]), [kind |-> "folds", val |-> FoldsOf(table, k, a)])
       ELSE Observe(Op("split", [A0 EXCEPT !.k = k, !.g = g]), [kind |-> "refused"])
Sample(nn) ==
    /\ table # << >>
    /\ \E s \in [1..SizeOf(nn, Len(table)) -> Pos(table)] :
          Observe(Op("sample", [A0 EXCEPT !.nn = nn]),
                  [kind |-> "rows", val |-> [j \in 1..SizeOf(nn, Len(table)) |-> table[s[j]]]])
SampleIndividuals(nn) ==
    /\ table # << >>
    /\ IF pcol # ""
       THEN \E s \in [1..SizeOf(nn, Len(map)) -> 1..Len(map)] :
               Observe(Op("sampleind", [A0 EXCEPT !.nn = nn]),
                       [kind |-> "ents", val |-> [j \in 1..SizeOf(nn, Len(map)) |-> map[s[j]]]])
       ELSE Observe(Op("sampleind", [A0 EXCEPT !.nn = nn]), [kind |-> "refused"])
Extract(kind) ==
    LET ps == ExtractList(kind, Len(table)) IN
    /\ table # << >>
    /\ Observe(Op("extract", [A0 EXCEPT !.kind = kind, !.ps = ps]),
               IF ExtractOK(table, ps) THEN [kind |-> "rows", val |-> ExtractRes(table, ps)] ELSE [kind |-> "refused"])
Flatten(mode) ==
    /\ table # << >>
    /\ Observe(Op("flatten", [A0 EXCEPT !.kind = mode]),
               IF pcol # "" THEN [kind |-> "flat", val |-> FlattenRes(table, cols, pcol, mode)] ELSE [kind |-> "refused"])
Count(col, v) ==
    /\ table # << >> /\ Has(cols, col)
    /\ Observe(Op("count", [A0 EXCEPT !.col = col, !.v = v]), [kind |-> "int", val |-> CountRes(table, cols, col, v)])

Observers ==
    \/ \E j \in 1..Len(SplitArgs) : Split(SplitArgs[j][1], SplitArgs[j][2])
    \/ \E j \in 1..Len(SampleNs) : Sample(SampleNs[j])
    \/ \E j \in 1..Len(SampleNs) : SampleIndividuals(SampleNs[j])
    \/ \E j \in 1..Len(ExtractKinds) : Extract(ExtractKinds[j])
    \/ Flatten("auto") \/ Flatten("none")
    \/ \E j \in 1..Len(CountArgs) : Count(CountArgs[j][1], CountArgs[j][2])

Next == /\ ~done
        /\ \/ Mutate
           \/ (Mode = "model" /\ Observers)
Spec == Init /\ [][Next]_vars

-----------------------------------------------------------------------------
(* The property, on the model.  prev = state before the last operation. *)

Bounded == \A i \in Pos(table) : \A j \in 1..Len(table[i].c) : InBound(table[i].c[j])
Shape   == \A i \in Pos(table) : Len(table[i].c) = Len(cols)

\* removed = exactly the rows with a non-zero condition; every other row sits at its old position
\* minus the number of deleted rows before it; excluded = their number
RemoveExact ==
    last.op = "remove" =>
        LET H == Hit(prev.table, prev.cols, last.a.fm) IN
        /\ Len(table) + Cardinality(H) = Len(prev.table)
        /\ \A i \in Pos(prev.table) \ H : table[i - Cardinality({h \in H : h < i})] = prev.table[i]
        /\ excluded = Cardinality(H)
        /\ cols = prev.cols /\ pcol = prev.pcol /\ map = prev.map

AddExact ==
    (last.op = "add" /\ res.kind = "column") =>
        /\ Len(table) = Len(prev.table) /\ Len(cols) = Len(prev.cols) + 1
        /\ \A i \in Pos(table) :
              /\ table[i].lab = prev.table[i].lab
              /\ SubSeq(table[i].c, 1, Len(prev.cols)) = prev.table[i].c
              /\ table[i].c[Len(cols)] = Ev(last.a.fm, prev.table[i], prev.cols)
              /\ res.val[i] = table[i].c[Len(cols)]
        /\ SubSeq(cols, 1, Len(prev.cols)) = prev.cols /\ ~Has(prev.cols, cols[Len(cols)])
        /\ excluded = prev.excluded /\ pcol = prev.pcol /\ map = prev.map

ScaleOne ==
    last.op = "scale" =>
        /\ Len(table) = Len(prev.table) /\ cols = prev.cols
        /\ \A i \in Pos(table) :
              /\ table[i].lab = prev.table[i].lab
              /\ \A j \in 1..Len(cols) :
                    IF cols[j] = last.a.col
                    THEN table[i].c[j] * last.a.den = prev.table[i].c[j] * last.a.num
                    ELSE table[i].c[j] = prev.table[i].c[j]

\* after Panel / BuildMap on a panel table: same rows, individuals in ascending blocks, the
\* observations of one individual in their old order, labels 0..n-1; the map's blocks tile the
\* table and each block is exactly one individual's rows
PanelSound ==
    ((last.op = "panel" /\ pcol = last.a.col /\ Contiguous(prev.table, prev.cols, last.a.col))
       \/ (last.op = "buildmap" /\ pcol # "")) =>
        /\ BagEq(Cells(table), Cells(prev.table))
        /\ Labels(table) = [i \in Pos(table) |-> i - 1]
        /\ \A i \in Pos(table) : i > 1 => Cell(table[i - 1], cols, pcol) <= Cell(table[i], cols, pcol)
        /\ \A v \in ColVals(table, cols, pcol) :
              Cells(SelectSeq(table, LAMBDA r : Cell(r, cols, pcol) = v))
                = Cells(SelectSeq(prev.table, LAMBDA r : Cell(r, prev.cols, pcol) = v))
        /\ map # << >> /\ map[1].first = 0 /\ map[Len(map)].last = Len(table) - 1
        /\ \A k \in 1..Len(map) :
              /\ map[k].first <= map[k].last
              /\ k > 1 => map[k].first = map[k - 1].last + 1
              /\ {i \in Pos(table) : Cell(table[i], cols, pcol) = map[k].id} = (map[k].first + 1)..(map[k].last + 1)
PanelRefusal ==
    (last.op = "panel" /\ ~Contiguous(prev.table, prev.cols, last.a.col)) =>
        (table = prev.table /\ pcol = prev.pcol /\ map = prev.map)

FoldsPartition ==
    (last.op = "split" /\ res.kind = "folds") =>
        LET fs == res.val  g == EffGroup(pcol, last.a.g) IN
        /\ Len(fs) = last.a.k
        /\ SplitOK(table, cols, last.a.k, g, fs)
        \* said once more with positions: every row position is the validation row of exactly one fold
        /\ Len(Flat([f \in 1..Len(fs) |-> fs[f].val])) = Len(table)
        /\ \A f \in 1..Len(fs) : Len(fs[f].est) + Len(fs[f].val) = Len(table)
SplitRefusal == (last.op = "split" /\ res.kind = "refused") => ~SplitAccepted(last.a.k, last.a.g, pcol)

SamplesExist ==
    /\ (last.op = "sample" /\ res.kind = "rows") => SampleOK(table, last.a.nn, res.val)
    /\ (last.op = "sampleind" /\ res.kind = "ents") => (pcol # "" /\ IndSampleOK(map, last.a.nn, res.val))
    /\ (last.op = "sampleind" /\ res.kind = "refused") => pcol = ""

ExtractSound ==
    (last.op = "extract" /\ res.kind = "rows") =>
        /\ Len(res.val) = Len(last.a.ps)
        /\ \A j \in 1..Len(res.val) : res.val[j] = table[last.a.ps[j]]

\* every cell of the table is found in the flat table at (individual, observation number, column)
FlatLookup(line, o, c) ==
    IF \E q \in 1..Len(line.common) : line.common[q][1] = c
    THEN line.common[CHOOSE q \in 1..Len(line.common) : line.common[q][1] = c][2]
    ELSE LET ob == line.obs[o] IN ob[CHOOSE q \in 1..Len(ob) : ob[q][1] = c][2]
FlattenSound ==
    (last.op = "flatten" /\ res.kind = "flat") =>
        LET fl == res.val IN
        /\ {fl[k].id : k \in 1..Len(fl)} = ColVals(table, cols, pcol)
        /\ \A k \in 1..Len(fl) : k > 1 => fl[k - 1].id < fl[k].id
        /\ \A i \in Pos(table) :
              LET id == Cell(table[i], cols, pcol)
                  o  == Cardinality({j \in 1..i : Cell(table[j], cols, pcol) = id})
                  ln == fl[CHOOSE k \in 1..Len(fl) : fl[k].id = id]
              IN  \A q \in 1..Len(cols) : cols[q] # pcol => FlatLookup(ln, o, cols[q]) = table[i].c[q]
        /\ \A k \in 1..Len(fl) : fl[k].obs # << >> =>
              Len(fl[k].obs) = Cardinality({i \in Pos(table) : Cell(table[i], cols, pcol) = fl[k].id})

CountSound ==
    (last.op = "count") =>
        res.val = Len(SelectSeq(table, LAMBDA r : Cell(r, cols, last.a.col) = last.a.v))

\* observers never change the data
ObserversStutter ==
    last.op \in {"split", "sample", "sampleind", "extract", "flatten", "count"} => Snapshot = prev

\* labels are never used as positions: on the same cells with the labels replaced by 0..n-1,
\* every operation gives the same cells (and carries the labels of the rows it keeps)
LabelFree ==
    LET rl == Relabel(table) IN
    /\ \A x \in 1..Len(Conds) : (WellFormed(Conds[x], cols) /\ FmBounded(Conds[x], table, cols)) =>
          /\ Cells(RemoveImpl(table, cols, Conds[x])) = Cells(RemoveImpl(rl, cols, Conds[x]))
          /\ \A i \in Pos(table) \ Hit(table, cols, Conds[x]) :
                \E j \in Pos(RemoveImpl(table, cols, Conds[x])) : RemoveImpl(table, cols, Conds[x])[j] = table[i]
    /\ \A x \in 1..Len(Forms) : (WellFormed(Forms[x], cols) /\ FmBounded(Forms[x], table, cols)) =>
          /\ Cells(AddRes(table, cols, Forms[x])) = Cells(AddRes(rl, cols, Forms[x]))
          /\ Labels(AddRes(table, cols, Forms[x])) = Labels(table)
    /\ \A x \in 1..Len(PanelCols) : Has(cols, PanelCols[x]) =>
          /\ Contiguous(table, cols, PanelCols[x]) = Contiguous(rl, cols, PanelCols[x])
          /\ PanelRes(table, cols, PanelCols[x]) = PanelRes(rl, cols, PanelCols[x])
    /\ \A j \in 1..Len(ExtractKinds) :
          LET ps == ExtractList(ExtractKinds[j], Len(table)) IN
          ExtractOK(table, ps) => Cells(ExtractRes(table, ps)) = Cells(ExtractRes(rl, ps))
    /\ pcol # "" => FlattenRes(table, cols, pcol, "auto") = FlattenRes(rl, cols, pcol, "auto")

ModelInv ==
    /\ Bounded /\ Shape /\ RemoveExact /\ AddExact /\ ScaleOne /\ PanelSound /\ PanelRefusal
    /\ FoldsPartition /\ SplitRefusal /\ SamplesExist /\ ExtractSound /\ FlattenSound /\ CountSound
    /\ ObserversStutter /\ LabelFree

-----------------------------------------------------------------------------
(* Emission of finished histories (gen) *)
Emitted == [tid |-> tid, init |-> CState(Tables[tid].rows, Tables[tid].cols, 0, "", << >>), steps |-> hist]
EmitInv == done => PrintT(ToJson(Emitted))
=============================================================================
