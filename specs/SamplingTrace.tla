--------------------------- MODULE SamplingTrace ---------------------------
(***************************************************************************)
(* Trace validation for the sampling of alternatives (code -> spec).       *)
(*                                                                         *)
(* The trace file is a sequence of events recorded from the real code:     *)
(*   kind = "inst"   the context handed to SamplingContext: table of       *)
(*                   alternatives, main partition with sample sizes,       *)
(*                   MEV partition with sample sizes; becomes the current  *)
(*                   instance (state variable inst of the design module)   *)
(*   kind = "row"    one row of the table returned by                      *)
(*                   ChoiceSetsGeneration.sample_and_merge for one         *)
(*                   individual [choice, x] of the current instance: the   *)
(*                   individual's own columns, and per position of the     *)
(*                   first / second sample the id, the attributes, the     *)
(*                   correction as the recovered reduced pair (k, n) with  *)
(*                   exp(value) = k/n resp. the weight as the pair (n, k), *)
(*                   and the combined variables (exact rationals)          *)
(*   kind = "input"  a raw input (ids, segments, sizes, choices) with the  *)
(*                   reaction of the real code: accepted / rejected (the   *)
(*                   library's error types) / crashed (any other error)    *)
(* A row is accepted iff it is one of the behaviours of Sampling: TLC      *)
(* infers the random draw (Inferred) and applies the protocol clauses      *)
(* (Fails), which AcceptanceIsMembership shows equivalent to membership in *)
(* the set of rows SampleStratum; Assemble can produce.  For an accepted   *)
(* row TLC also returns the exact corrected weights of the logit built on  *)
(* THIS sample (chosen term and total), which the driver compares with the *)
(* value of GenerateModel.get_logit() on that row.                         *)
(* A verdict is printed per event, so verdicts are total.                  *)
(***************************************************************************)
EXTENDS Sampling, IOUtils

Trace == JsonDeserialize(IOEnv.TRACE_FILE)
NT == Len(Trace)

VARIABLES t
tvars == <<t, inst, inds, cur, picked, mpicked, rows, mrows, pc>>

\* [0, 0] = "no number" (not finite / not recoverable): equal to no value of the spec
QOf(p) == IF p[2] = 0 THEN [k |-> "q", n |-> 0, d |-> 0] ELSE Q(p[1], p[2])
Tail1(s) == [i \in 1..(Len(s) - 1) |-> s[i + 1]]      \* lists carry a leading sentinel (never empty in JSON)

TAlts(ev) == [id \in {ev.alts[i][1] : i \in 1..Len(ev.alts)} |->
                 LET i == CHOOSE j \in 1..Len(ev.alts) : ev.alts[j][1] = id IN
                 [a |-> ev.alts[i][2], c |-> ev.alts[i][3]]]
TStrata(ss) == [s \in 1..Len(ss) |-> St(SeqSet(ss[s].sub), ss[s].k)]
TInst(ev) == [alts |-> TAlts(ev), strata |-> TStrata(ev.strata),
              mev |-> IF ev.hasmev THEN TStrata(ev.mev) ELSE << >>]

TComb(e) == [prod |-> QOf(e.prod), diff |-> QOf(e.diff), sum |-> QOf(e.sum)]
TEntry(e)  == [id |-> e.id, a |-> QOf(e.a), c |-> QOf(e.c), corr |-> App("log", <<QOf(e.corr)>>), comb |-> TComb(e)]
TMEntry(e) == [id |-> e.id, a |-> QOf(e.a), c |-> QOf(e.c), w |-> QOf(e.w), comb |-> TComb(e)]
TObs(ev) == [choice |-> QOf(ev.ochoice), x |-> QOf(ev.ox),
             row  |-> [i \in 1..Len(ev.row) |-> TEntry(ev.row[i])],
             mrow |-> IF ev.hasm THEN [i \in 1..Len(ev.mrow) |-> TMEntry(ev.mrow[i])] ELSE << >>]

Pair(q) == <<q.n, q.d>>
Lik(in, ind, ob) ==
    [fam \in Fams |-> [c |-> Pair(ChosenTerm(in, fam, ind)),
                       t |-> Pair(TotalTerm(in, fam, ind.x, RowIds(ob.row)))]]
NoLik == [fam \in Fams |-> [c |-> <<0, 1>>, t |-> <<0, 1>>]]

RowVerdict(ev) ==
    LET ind == Ind(ev.choice, ev.x)
        ob  == TObs(ev)
        fs  == Fails(inst, ind, ob)
        \* the inferred draw is an enabled choice of SampleStratum / SecondSample for every stratum
        drawn == /\ \A s \in 1..Len(inst.strata) :
                       CanSample(inst.strata[s], ind.choice, Inferred(inst.strata, ob.row)[s])
                 /\ \A s \in 1..Len(inst.mev) : CanSampleMev(inst.mev[s], Inferred(inst.mev, ob.mrow)[s])
    IN  [tid |-> ev.tid, verdict |-> FirstOf(fs), fails |-> fs,
         drawn |-> drawn,
         grouped |-> Grouped(inst, ob.row),
         lik |-> IF MainFails(inst, ind, ob) = {} THEN Lik(inst, ind, ob) ELSE NoLik]

InputVerdict(ev) ==
    LET segs == [s \in 1..(Len(ev.segs) - 1) |-> Tail1(ev.segs[s + 1])]
        fs == InputClauses(Tail1(ev.ids), segs, Tail1(ev.ks), Tail1(ev.choices))
        v  == IF ev.outcome = "crashed" THEN "crashed"
              ELSE IF fs = {} THEN (IF ev.outcome = "accepted" THEN "ok" ELSE "rejected-valid")
              ELSE (IF ev.outcome = "rejected" THEN "ok" ELSE "accepted-invalid")
    IN  [tid |-> ev.tid, verdict |-> v, fails |-> fs, clause |-> FirstIn(InputOrder, fs)]

TInit == /\ t = 1
         /\ inst = [alts |-> << >>, strata |-> << >>, mev |-> << >>]
         /\ inds = << >> /\ cur = 0 /\ picked = << >> /\ mpicked = << >> /\ rows = << >> /\ mrows = << >>
         /\ pc = "trace"

InstStep ==
    /\ t <= NT /\ Trace[t].kind = "inst"
    /\ inst' = TInst(Trace[t])
    /\ PrintT(ToJson([tid |-> Trace[t].tid,
                      verdict |-> IF ValidInst(TInst(Trace[t])) THEN "ok" ELSE "invalid-instance"]))
    /\ t' = t + 1
    /\ UNCHANGED <<inds, cur, picked, mpicked, rows, mrows, pc>>

RowStep ==
    /\ t <= NT /\ Trace[t].kind = "row"
    /\ PrintT(ToJson(RowVerdict(Trace[t])))
    /\ t' = t + 1
    /\ UNCHANGED <<inst, inds, cur, picked, mpicked, rows, mrows, pc>>

InputStep ==
    /\ t <= NT /\ Trace[t].kind = "input"
    /\ PrintT(ToJson(InputVerdict(Trace[t])))
    /\ t' = t + 1
    /\ UNCHANGED <<inst, inds, cur, picked, mpicked, rows, mrows, pc>>

TNext == InstStep \/ RowStep \/ InputStep
TraceSpec == TInit /\ [][TNext]_tvars

\* every event is consumed in order (the walk is linear: one successor per state)
Progress == t \in 1..(NT + 1)
=============================================================================
