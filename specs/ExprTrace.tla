------------------------------ MODULE ExprTrace ------------------------------
(***************************************************************************)
(* Trace validation for the expression language (code -> spec).            *)
(*                                                                         *)
(* Each trace is what the real biogeme handed to the engine for ONE        *)
(* evaluation of a formula built from an ExprLang DAG (the "intent"): the  *)
(* signature lines, the free/fixed parameter vectors, the data rows.       *)
(* The trace spec consumes one signature line per step (Define), checking  *)
(* that children are defined before use, that repeated lines agree, that   *)
(* leaf lines carry the indices IdManager's numbering-by-name prescribes;  *)
(* Close then checks that the vectors are the spec's Tables and that the   *)
(* recorded signature DENOTES the intended formula:                        *)
(*        EvalSig(recorded lines, recorded tables) = Val(intent)           *)
(* on every row.  A verdict (first failing clause, or "ok") is printed per *)
(* trace, so verdicts are total; the driver requires "ok" for all.         *)
(***************************************************************************)
EXTENDS ExprLang, IOUtils

Trace == JsonDeserialize(IOEnv.TRACE_FILE)
NT == Len(Trace)

VARIABLES t, l, defd, bad
tvars == <<t, l, defd, bad, nodes, done>>

QOf(x) == Q(x[1], x[2])
Intent(tr) == Leaves \o [i \in 1..Len(tr.ops) |->
                 Node(tr.ops[i].op, tr.ops[i].kids, QOf(tr.ops[i].num), tr.ops[i].name, tr.ops[i].keys)]
RecLine(ln) == [id |-> ln.id, op |-> ln.op, kids |-> ln.kids, num |-> QOf(ln.num), keys |-> ln.keys,
                elem |-> ln.elem, kind |-> ln.kind, free |-> ln.free]
RecSig(tr) == [q \in 1..Len(tr.lines) |-> RecLine(tr.lines[q])]
RecTab(tr, r) == [draws |-> << >>,
                  free  |-> [k \in 1..Len(tr.freev) |-> QOf(tr.freev[k])],
                  fixed |-> [k \in 1..Len(tr.fixedv) |-> QOf(tr.fixedv[k])],
                  row   |-> [x \in 1..Len(tr.rows[r]) |-> QOf(tr.rows[r][x])]]

Arity(op) == CASE op \in {"Numeric", "Beta", "Variable"} -> {0}
               [] op \in UnOps \cup {"UnaryMinus", "PowerConstant", "BelongsTo", "exp", "log", "logzero",
                                    "sin", "cos", "bioNormalCdf"} -> {1}
               [] op \in BinOps \cup Comparisons \cup Logical -> {2}
               [] OTHER -> 1..64

LeafOK(tr, ln) ==
    LET ns == Intent(tr)
        oF == OccFree(ns, {tr.root})
        oX == OccFixed(ns, {tr.root})
    IN
    CASE ln.op = "Beta" ->
           \E b \in oF \cup oX :
              /\ BetaTab[b].name = ln.nm
              /\ ln.free = BetaTab[b].free
              /\ ln.status = (IF BetaTab[b].free THEN 0 ELSE 1)
              /\ ln.kind = (IF BetaTab[b].free THEN RankIn(b, oF) ELSE RankIn(b, oX))
              /\ ln.elem = (IF BetaTab[b].free THEN RankIn(b, oF) ELSE Cardinality(oF) + RankIn(b, oX))
      [] ln.op = "Variable" ->
           /\ ln.kind + 1 \in 1..Len(tr.cols)
           /\ tr.cols[ln.kind + 1] = ln.nm
           /\ ln.elem = Cardinality(oF) + Cardinality(oX) + ln.kind
           /\ \E x \in 1..Len(VarTab) : VarTab[x].name = ln.nm
      [] ln.op = "bioLinearUtility" ->
           \A j \in 1..Len(ln.lt) :
              LET tm == ln.lt[j] IN
              /\ \E q \in 1..Len(tr.lines) : tr.lines[q].id = tm.bid /\ tr.lines[q].op = "Beta"
                                             /\ tr.lines[q].elem = tm.belem /\ tr.lines[q].nm = tm.bname
              /\ \E q \in 1..Len(tr.lines) : tr.lines[q].id = tm.vid /\ tr.lines[q].op = "Variable"
                                             /\ tr.lines[q].elem = tm.velem /\ tr.lines[q].nm = tm.vname
      [] OTHER -> TRUE

LineVerdict(tr, q, seen) ==
    LET ln == tr.lines[q] IN
    IF ~(SeqToSet(ln.kids) \subseteq seen) THEN "postorder"
    ELSE IF ln.id \in seen /\ ~\E q0 \in 1..(q - 1) : tr.lines[q0] = ln THEN "duplicate-differs"
    ELSE IF Len(ln.kids) \notin Arity(ln.op) THEN "arity"
    ELSE IF ~LeafOK(tr, ln) THEN "leaf-index"
    ELSE "ok"

VectorsOK(tr) ==
    LET ns == Intent(tr)
        tab == Tables(ns, {tr.root}, tr.p, 1)
    IN  /\ [k \in 1..Len(tr.freev) |-> QOf(tr.freev[k])] = tab.free
        /\ [k \in 1..Len(tr.fixedv) |-> QOf(tr.fixedv[k])] = tab.fixed

DataOK(tr) ==
    /\ Len(tr.rows) = NRows
    /\ \A r \in Rows : \A x \in 1..Len(VarTab) :
          \E c \in 1..Len(tr.cols) : tr.cols[c] = VarTab[x].name /\ QOf(tr.rows[r][c]) = VarTab[x].vals[r]

Denotes(tr) ==
    LET ns == Intent(tr) IN
    \A r \in Rows : EvalSig(RecSig(tr), RecTab(tr, r)) = Val(ns, tr.root, r, tr.p)

TInit == t = 1 /\ l = 0 /\ defd = {} /\ bad = "ok" /\ nodes = Leaves /\ done = FALSE

Define == /\ t <= NT /\ l < Len(Trace[t].lines)
          /\ l' = l + 1
          /\ defd' = defd \cup {Trace[t].lines[l + 1].id}
          /\ bad' = IF bad # "ok" THEN bad ELSE LineVerdict(Trace[t], l + 1, defd)
          /\ UNCHANGED <<t, nodes, done>>

CloseVerdict(tr) ==
    IF bad # "ok" THEN bad
    ELSE IF Len(tr.lines) = 0 THEN "empty"
    ELSE IF ~DataOK(tr) THEN "data"
    ELSE IF ~VectorsOK(tr) THEN "vectors"
    ELSE IF ~Denotes(tr) THEN "denotes"
    ELSE "ok"

Close == /\ t <= NT /\ l = Len(Trace[t].lines)
         /\ PrintT(ToJson([tid |-> Trace[t].tid, verdict |-> CloseVerdict(Trace[t])]))
         /\ t' = t + 1 /\ l' = 0 /\ defd' = {} /\ bad' = "ok"
         /\ UNCHANGED <<nodes, done>>

TNext == Define \/ Close
TraceSpec == TInit /\ [][TNext]_tvars

\* every line consumed in order; the walk is linear (one successor per state)
Progress == t \in 1..(NT + 1) /\ (t <= NT => l \in 0..Len(Trace[t].lines))
=============================================================================
