------------------------------ MODULE Parameters ------------------------------
(***************************************************************************)
(* The parameter set of biogeme and its configuration file.                *)
(*                                                                         *)
(* Written from the documentation (docstrings of biogeme.parameters, the   *)
(* descriptions in default_parameters.py, the comments of the generated    *)
(* file):                                                                  *)
(*  - a parameter is identified by (section, name); it has a type (bool,   *)
(*    int, float, str), a default value and validity conditions;           *)
(*  - set_value stores an admissible value and refuses (BiogemeError) a    *)
(*    value that violates a condition, leaving the set unchanged;          *)
(*  - dump_file writes every parameter to the file; a boolean is written   *)
(*    as the string "True" / "False";                                      *)
(*  - read_file: the values found in the file replace the current ones,    *)
(*    entries the library does not know are ignored, parameters the file   *)
(*    does not mention keep their value; a boolean may be spelled          *)
(*    "True", "true", "Yes", "yes" / "False", "false", "No", "no"          *)
(*    (parse_boolean); a value that violates a condition is refused;       *)
(*    when the file does not exist it is created from the current values.  *)
(*                                                                         *)
(* Values are opaque tokens ("b:True", "i:100", "f:1e-05", "s:automatic")  *)
(* that only the driver interprets: the specification needs equality only, *)
(* plus the coding of booleans in the file.  The table of parameters (key, *)
(* kind, default, admissible values, values to refuse, admissible and      *)
(* inadmissible file contents) is extracted by the driver from             *)
(* default_parameters.py and handed over as the constant Table.            *)
(* A token carries the class of the value (b / i / f / s): "i:7" and       *)
(* "f:7.0" are different values, so is "f:99999.5" and "i:99999".  The     *)
(* admissible values of a parameter are those its CONDITIONS accept,       *)
(* whatever the class of its default: a parameter declared int whose only  *)
(* condition is "a number" (missing_data) admits "f:99999.5" and "f:7.0",  *)
(* a parameter declared float admits "i:7"; where the conditions demand an *)
(* integer, "f:7.0" is among the values to refuse.  RoundTrip therefore    *)
(* says in particular that nothing is converted to the class of the        *)
(* default on the way through the file.                                    *)
(*                                                                         *)
(* Properties checked on the model:                                        *)
(*   RoundTrip     for every reachable parameter set p:                    *)
(*                 Read(fresh object, Dump(p)) = p, on every parameter     *)
(*   ReadOwnDump   a Read that follows a Dump of the same object changes   *)
(*                 nothing                                                 *)
(*   Spellings     every admissible spelling of a boolean denotes one      *)
(*                 boolean, and the dumped spelling denotes the same       *)
(*   RefusedKeeps  a refused Set leaves the set as it was                  *)
(***************************************************************************)
EXTENDS Integers, Sequences, FiniteSets, TLC, Json

CONSTANTS
    Table,     \* sequence of [key, kind, def, adm, ref, fok, fbad]
    FocusChoices, \* set of sets of keys: a behaviour plays with ONE of these sets of parameters,
               \* the other parameters stay at their default
    MaxOps,
    Mutant     \* "none" | "native_bool": booleans dumped as TOML booleans (seeded defect)

VARIABLES obj, file, failed, log, focus
vars == <<obj, file, failed, log, focus>>

Params == {Table[i].key : i \in DOMAIN Table}
Row == [p \in Params |-> Table[CHOOSE i \in DOMAIN Table : Table[i].key = p]]
Kind(p) == Row[p].kind
Defaults == [p \in Params |-> Row[p].def]

TrueSpellings  == {"s:True", "s:true", "s:Yes", "s:yes"}
FalseSpellings == {"s:False", "s:false", "s:No", "s:no"}

\* what a file entry denotes / how a value is written
Decode(p, ft) == IF Kind(p) = "bool" THEN (IF ft \in TrueSpellings THEN "b:True" ELSE "b:False") ELSE ft
Encode(p, v)  == IF Kind(p) = "bool"
                 THEN (IF Mutant = "native_bool" THEN v
                       ELSE IF v = "b:True" THEN "s:True" ELSE "s:False")
                 ELSE v
Readable(p, ft) == ft \in Row[p].fok

Absent == [ex |-> FALSE, m |-> << >>, alien |-> FALSE]
DumpImage(o) == [ex |-> TRUE, m |-> [p \in Params |-> Encode(p, o[p])], alien |-> FALSE]
FileReadable(f) == \A p \in DOMAIN f.m : Readable(p, f.m[p])
ReadImage(o, f) == [p \in Params |-> IF p \in DOMAIN f.m THEN Decode(p, f.m[p]) ELSE o[p]]

Init == obj = Defaults /\ file = Absent /\ failed = FALSE /\ log = << >> /\ focus \in FocusChoices

Step(k, p, v, outcome) == log' = Append(log, [k |-> k, p |-> p, v |-> v, outcome |-> outcome])

CanStep == Len(log) < MaxOps /\ ~failed

Set(p, v) ==
    /\ CanStep
    /\ \/ /\ v \in Row[p].adm
          /\ obj' = [obj EXCEPT ![p] = v]
          /\ Step("set", p, v, "ok")
       \/ /\ v \in Row[p].ref
          /\ obj' = obj
          /\ Step("set", p, v, "refused")
    /\ UNCHANGED <<file, failed>>

Dump ==
    /\ CanStep
    /\ file' = DumpImage(obj)
    /\ Step("dump", "", "", "ok")
    /\ UNCHANGED <<obj, failed>>

Read ==
    /\ CanStep
    /\ IF ~file.ex
       THEN /\ file' = DumpImage(obj) /\ obj' = obj /\ failed' = FALSE
            /\ Step("read", "", "", "created")
       ELSE IF FileReadable(file)
       THEN /\ obj' = ReadImage(obj, file) /\ file' = file /\ failed' = FALSE
            /\ Step("read", "", "", "ok")
       ELSE \* refused: what the object holds afterwards is not specified
            /\ obj' = obj /\ file' = file /\ failed' = TRUE
            /\ Step("read", "", "", "refused")

\* the user edits the file
Edit(p, ft) ==
    /\ CanStep /\ file.ex /\ p \in DOMAIN file.m /\ file.m[p] # ft
    /\ file' = [file EXCEPT !.m[p] = ft]
    /\ Step("edit", p, ft, "ok")
    /\ UNCHANGED <<obj, failed>>
Drop(p) ==
    /\ CanStep /\ file.ex /\ p \in DOMAIN file.m
    /\ file' = [file EXCEPT !.m = [q \in DOMAIN file.m \ {p} |-> file.m[q]]]
    /\ Step("drop", p, "", "ok")
    /\ UNCHANGED <<obj, failed>>
Alien ==
    /\ CanStep /\ file.ex /\ ~file.alien
    /\ file' = [file EXCEPT !.alien = TRUE]
    /\ Step("alien", "", "", "ok")
    /\ UNCHANGED <<obj, failed>>
Delete ==
    /\ CanStep /\ file.ex
    /\ file' = Absent
    /\ Step("delete", "", "", "ok")
    /\ UNCHANGED <<obj, failed>>
\* a new Parameters object (the file stays)
New ==
    /\ Len(log) < MaxOps /\ (failed \/ obj # Defaults)
    /\ obj' = Defaults /\ failed' = FALSE
    /\ Step("new", "", "", "ok")
    /\ UNCHANGED file

Next == /\ \/ \E p \in focus : \E v \in Row[p].adm \cup Row[p].ref : Set(p, v)
           \/ \E p \in focus : \E ft \in Row[p].fok \cup Row[p].fbad : Edit(p, ft)
           \/ \E p \in focus : Drop(p)
           \/ Dump \/ Read \/ Alien \/ Delete \/ New
        /\ UNCHANGED focus
Spec == Init /\ [][Next]_vars

(***************************************************************************)
(* Properties                                                              *)
(***************************************************************************)
TypeOK == /\ \A p \in Params : obj[p] \in Row[p].adm \cup {Row[p].def}
          /\ \A p \in Params \ focus : obj[p] = Row[p].def

RoundTrip == LET f == DumpImage(obj) IN FileReadable(f) /\ ReadImage(Defaults, f) = obj

ReadOwnDump == [][(/\ log # << >> /\ log[Len(log)].k = "dump"
                   /\ Len(log') = Len(log) + 1 /\ log'[Len(log')].k = "read")
                  => (obj' = obj /\ log'[Len(log')].outcome = "ok")]_vars

Spellings == failed \in BOOLEAN /\ \A p \in Params : Kind(p) = "bool" =>
    /\ \A ft \in Row[p].fok : ft \in TrueSpellings \cup FalseSpellings
    /\ \A ft \in Row[p].fok \cap TrueSpellings : Decode(p, ft) = "b:True" /\ Decode(p, Encode(p, "b:True")) = "b:True"
    /\ \A ft \in Row[p].fok \cap FalseSpellings : Decode(p, ft) = "b:False" /\ Decode(p, Encode(p, "b:False")) = "b:False"

RefusedKeeps == [][(Len(log') = Len(log) + 1 /\ log'[Len(log')].outcome = "refused") => obj' = obj]_vars

(***************************************************************************)
(* Emission: one line per explored EDGE of the abstract state graph (the   *)
(* cfg's VIEW makes TLC keep one shortest history per (state, last step)); *)
(* the driver replays the history and compares the real object and the     *)
(* real file with obj / file after the last step and along the way.        *)
(***************************************************************************)
RECURSIVE SeqOf(_)
SeqOf(X) == IF X = {} THEN << >> ELSE LET x == CHOOSE x \in X : TRUE IN <<x>> \o SeqOf(X \ {x})
FocusSeq == SeqOf(focus)
EdgeView == <<focus, obj, file, failed, IF log = << >> THEN << >> ELSE <<log[Len(log)]>> >>
Emitted == [steps |-> log,
            obj |-> [i \in DOMAIN FocusSeq |-> <<FocusSeq[i], obj[FocusSeq[i]]>>],
            file |-> [ex |-> file.ex, alien |-> file.alien,
                      focus |-> [i \in DOMAIN FocusSeq |->
                                   <<FocusSeq[i], IF file.ex /\ FocusSeq[i] \in DOMAIN file.m
                                                  THEN file.m[FocusSeq[i]] ELSE "-">>]],
            failed |-> failed]
EmitInv == log # << >> => PrintT(ToJson(Emitted))
=============================================================================
