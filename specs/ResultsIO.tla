------------------------------ MODULE ResultsIO ------------------------------
(***************************************************************************)
(* Saving estimation results and reading them back; what the reports list. *)
(*                                                                         *)
(* Re-uses the definitions of module Results (what every figure of an      *)
(* estimation report IS, given the raw outcome) and of FileNames (the      *)
(* documented fresh-name rule).  Written from the documentation:           *)
(*   write_pickle: "Dump the data in a file in pickle format.  Returns the *)
(*     name of the file."  The name is get_new_file_name(model, "pickle"). *)
(*   bioResults(pickle_file=...): the results object of the saved          *)
(*     estimation; every statistic is a function of the saved raw outcome. *)
(*   reports: the HTML and LaTeX reports hold the table of                 *)
(*     get_estimated_parameters() (robust statistics only, by default),    *)
(*     the F12 (ALOGIT) file one line per coefficient with its label       *)
(*     (first 10 characters), value and robust standard error, the printed *)
(*     form one line per parameter: value[se t p] per available family.    *)
(*                                                                         *)
(* State added to Results: disk (pickle file name -> saved raw outcome),   *)
(* the name write_pickle returned, and the object obtained by loading it.  *)
(* The directory may already hold pickles of an EARLIER estimation of a    *)
(* model with the same name (Stale: candidate indices present), including  *)
(* a hole in the numbering.                                                *)
(***************************************************************************)
EXTENDS MCResults, FileNames

CONSTANTS StaleChoices,   \* set of sets of candidate indices (0 = name.pickle, k = name~(k-1).pickle)
          IOMutant        \* "none" | "load_first" (reads name.pickle whatever was written)

VARIABLES disk, wrote, lraw, lstats, ltables, stale
iovars == <<phase, raw, stats, tables, compiled, disk, wrote, lraw, lstats, ltables, stale>>

StaleOutcome == MC_C1      \* what the earlier estimation had saved

\* families of raw outcomes (besides those of MCResults): every estimate/bound configuration and both
\* bootstrap settings on two scalar configurations and the default matrices, K = 1, 2, 3
IOK(K) == Product(K, MC_ScalarsTwo, DefaultH(K), DefaultB(K), MC_BootTwo(K), MC_Theta(K))
IO_Small == IOK(1) \cup IOK(2) \cup IOK(3)
IO_Full  == MC_Quick \cup IO_Small
IO_Stale4 == {{}, {0}, {1}, {0, 1}}
IO_Stale2 == {{}, {0, 2}}

IOInit == /\ Init
          /\ stale \in StaleChoices
          /\ disk = << >> /\ wrote = "" /\ lraw = Nothing /\ lstats = Nothing /\ ltables = Nothing

IOChoose(o) == /\ Choose(o)
               /\ disk' = [n \in {Cand(o.id, "pickle", k) : k \in stale} |-> StaleOutcome]
               /\ UNCHANGED <<wrote, lraw, lstats, ltables, stale>>
IOCompute == Compute /\ UNCHANGED <<disk, wrote, lraw, lstats, ltables, stale>>
IOReport  == Report /\ UNCHANGED <<disk, wrote, lraw, lstats, ltables, stale>>

WritePickle ==
    /\ phase = "reported"
    /\ LET n == NewName(DOMAIN disk, raw.id, "pickle") IN
       /\ wrote' = n
       \* saving REPLACES what has that name: only the fresh name keeps the earlier results
       /\ disk' = [x \in DOMAIN disk \cup {n} |-> IF x = n THEN raw ELSE disk[x]]
    /\ phase' = "written"
    /\ UNCHANGED <<raw, stats, tables, compiled, lraw, lstats, ltables, stale>>

Load ==
    /\ phase = "written"
    /\ LET n == IF IOMutant = "load_first" THEN Plain(raw.id, "pickle") ELSE wrote
           o == disk[n]
       IN  /\ lraw' = o
           /\ lstats' = Stat(o)
           /\ ltables' = TablesOf(o)
    /\ phase' = "loaded"
    /\ UNCHANGED <<raw, stats, tables, compiled, disk, wrote, stale>>

IONext == (\E o \in Outcomes : IOChoose(o)) \/ IOCompute \/ IOReport \/ WritePickle \/ Load
IOSpec == IOInit /\ [][IONext]_iovars

(***************************************************************************)
(* Properties                                                              *)
(***************************************************************************)
\* THE property: what is loaded is what was saved -- raw outcome, every statistic, every table
RoundTrip == phase = "loaded" => lraw = raw /\ lstats = stats /\ ltables = tables

\* the earlier results are still there, under their names, and the new file has a new name
KeepsEarlier == phase \in {"written", "loaded"} =>
    /\ \A k \in stale : disk[Cand(raw.id, "pickle", k)] = StaleOutcome
    /\ wrote \notin {Cand(raw.id, "pickle", k) : k \in stale}
    /\ IsDocumentedNewName({Cand(raw.id, "pickle", k) : k \in stale}, raw.id, "pickle", wrote)

(***************************************************************************)
(* What the reports list: one row per estimated parameter, labelled by its *)
(* name, first figure = the estimate.  A figure is <<family, kind, i>>, to *)
(* be resolved in the statistics of the outcome (module Results).          *)
(***************************************************************************)
RowOfTable(T, i) ==
    LET cs == SelectSeq(T.cells, LAMBDA c : c[5] = i) IN [q \in 1..Len(cs) |-> <<cs[q][3], cs[q][4], cs[q][5]>>]

FamilyFigures(o, F, i) == IF FamExists(o, F) THEN << <<F, "se", i>>, <<F, "t", i>>, <<F, "p", i>> >> ELSE << >>

ReportsOf(o) ==
    LET T == TablesOf(o) IN
    [html  |-> [cols |-> T.est_robust.cols,
                rows |-> [i \in 1..o.K |-> [label |-> o.names[i], figs |-> RowOfTable(T.est_robust, i)]]],
     latex |-> [cols |-> T.est_robust.cols,
                rows |-> [i \in 1..o.K |-> [label |-> o.names[i], figs |-> RowOfTable(T.est_robust, i)]]],
     f12   |-> [labelmax |-> 10,
                rows |-> [i \in 1..o.K |-> [label |-> o.names[i], active |-> IsActive(o, i),
                                            figs |-> << <<"-", "value", i>>, <<"rob", "se", i>> >>]]],
     str   |-> [rows |-> [i \in 1..o.K |-> [label |-> o.names[i],
                                            figs |-> << <<"-", "value", i>> >> \o FamilyFigures(o, "cls", i)
                                                     \o FamilyFigures(o, "rob", i) \o FamilyFigures(o, "boot", i)]]]]

ReportKinds == {"html", "latex", "f12", "str"}
\* every report lists every estimated parameter, once, with its value first
ReportsComplete == phase \in {"reported", "written", "loaded"} =>
    LET R == ReportsOf(raw) IN
    \A kind \in ReportKinds :
        /\ Len(R[kind].rows) = raw.K
        /\ \A i \in 1..raw.K : /\ R[kind].rows[i].label = raw.names[i]
                               /\ R[kind].rows[i].figs[1] = <<"-", "value", i>>
        /\ \A i, j \in 1..raw.K : i # j => R[kind].rows[i].label # R[kind].rows[j].label
\* the reports of the loaded object are those of the saved one
ReportsRoundTrip == phase = "loaded" => ReportsOf(lraw) = ReportsOf(raw)

(***************************************************************************)
(* Emission                                                                *)
(***************************************************************************)
RECURSIVE SeqOfSet(_)
SeqOfSet(S) == IF S = {} THEN << >> ELSE LET x == CHOOSE x \in S : TRUE IN <<x>> \o SeqOfSet(S \ {x})

IOEmitted ==
    [raw |-> CompactRaw(raw),
     stats |-> [gen |-> CompactGeneral(lstats.gen),
                cls |-> CompactFamily(lstats.cls, lraw.K), rob |-> CompactFamily(lstats.rob, lraw.K),
                boot |-> CompactFamily(lstats.boot, lraw.K)],
     tables |-> ltables,
     reports |-> ReportsOf(lraw),
     io |-> [stale |-> SeqOfSet({Cand(raw.id, "pickle", k) : k \in stale}),
             staleraw |-> CompactRaw(StaleOutcome),
             wrote |-> wrote, files |-> SeqOfSet(DOMAIN disk)]]
IOEmitInv == phase = "loaded" => PrintT(ToJson(IOEmitted))
=============================================================================
