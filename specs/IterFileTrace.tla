---------------------------- MODULE IterFileTrace ----------------------------
(***************************************************************************)
(* Trace validation for the saved-iteration file (code -> spec).           *)
(* A trace is the sequence of events of one real process, recorded at the  *)
(* system-call level (strace) for the iteration file and its temporary     *)
(* file, interleaved with the evaluations the driver issued:               *)
(*   eval(ll, fin) | open(file) | write(lines, partial) | close | rename   *)
(*   | crash | observe(iter, tmp) | restart(ok, fromfile)                  *)
(* Each event must be a step of the IterFile action of the same name with  *)
(* the logged parameters (otherwise the trace is rejected at that event),  *)
(* and after every step the invariants of IterFile are evaluated; `observe`*)
(* compares what is really on disk after a crash with the model's files;   *)
(* `restart` requires the next estimation to succeed and to start from the *)
(* file.  One verdict per trace is printed.                                *)
(***************************************************************************)
EXTENDS IterFile, Json, IOUtils

Trace == JsonDeserialize(IOEnv.TRACE_FILE)
NT == Len(Trace)

VARIABLES t, l, bad
tvars == <<t, l, bad, alive, evals, best, pc, pending, iter, tmp, carried, run, failed>>

Ev == Trace[t].events[l + 1]
More == t <= NT /\ l < Len(Trace[t].events)

FileOf(o) == IF o.ex THEN File(run * 100 + o.pos, o.lines, o.partial) ELSE Absent

Match ==
    \/ Ev.ev = "eval"   /\ Evaluate(Ev.ll, Ev.fin)
    \/ Ev.ev = "open"   /\ OpenTarget /\ (Ev.file = "tmp") = Atomic
    \/ Ev.ev = "write"  /\ Write /\ (IF Atomic THEN tmp' ELSE iter').lines = Ev.lines
                                 /\ (IF Atomic THEN tmp' ELSE iter').partial = Ev.partial
    \/ Ev.ev = "close"  /\ Close
    \/ Ev.ev = "rename" /\ Rename
    \/ Ev.ev = "crash"  /\ Crash
    \/ Ev.ev = "observe" /\ ~alive /\ iter = FileOf(Ev.iter) /\ tmp.ex = Ev.tmp.ex
                         /\ (tmp.ex => tmp.lines = Ev.tmp.lines /\ tmp.partial = Ev.tmp.partial)
                         /\ UNCHANGED vars
    \/ Ev.ev = "restart" /\ Restart /\ Ev.ok /\ (iter.ex => Ev.fromfile)
    \/ Ev.ev = "end"     /\ alive /\ pc = "idle" /\ UNCHANGED vars

Judge == IF ~TypeOK' THEN "TypeOK"
         ELSE IF ~FileComplete' THEN "FileComplete"
         ELSE IF ~FileBest' THEN "FileBest"
         ELSE IF ~RestartSucceeds' THEN "RestartSucceeds"
         ELSE IF ~NeverBelowStart' THEN "NeverBelowStart"
         ELSE IF ~UpToDate' THEN "UpToDate"
         ELSE "ok"

Step == /\ More /\ bad = "ok" /\ Match
        /\ l' = l + 1 /\ t' = t
        /\ bad' = (IF Judge = "ok" THEN "ok" ELSE Judge \o "@" \o ToString(l + 1))

Stuck == /\ More /\ bad = "ok" /\ ~ENABLED Match
         /\ bad' = "rejected:" \o Ev.ev \o "@" \o ToString(l + 1)
         /\ UNCHANGED <<t, l, alive, evals, best, pc, pending, iter, tmp, carried, run, failed>>

Finish == /\ t <= NT /\ (l = Len(Trace[t].events) \/ bad # "ok")
          /\ PrintT(ToJson([tid |-> Trace[t].tid, verdict |-> bad]))
          /\ t' = t + 1 /\ l' = 0 /\ bad' = "ok"
          /\ alive' = TRUE /\ evals' = << >> /\ best' = [set |-> FALSE, ll |-> 0]
          /\ pc' = "idle" /\ pending' = 0 /\ iter' = Absent /\ tmp' = Absent
          /\ carried' = FALSE /\ run' = 1 /\ failed' = FALSE

TInit == Init /\ t = 1 /\ l = 0 /\ bad = "ok"
TNext == Step \/ Stuck \/ Finish
TraceSpec == TInit /\ [][TNext]_tvars
Progress == t \in 1..(NT + 1)
=============================================================================
