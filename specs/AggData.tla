------------------------------- MODULE AggData -------------------------------
(***************************************************************************)
(* Data sets for property C04 with their expected aggregates.              *)
(* A behaviour appends rows (x, z, w2) taken from a pool, in ANY order     *)
(* (so every permutation of every subset is a behaviour), then Emit.       *)
(* Model:  f_r = b1*x_r + b2*z_r + b1*b2,  weight w_r = w2_r / 2.          *)
(*   g_r = (x_r + b2, z_r + b1),  H_r = [[0,1],[1,0]],  BHHH_r = g_r g_r^T *)
(* The sample log likelihood is  sum_r w_r f_r  (w_r = 1 without a weight  *)
(* formula), the scaled one that sum over N; g, H, BHHH aggregate alike.   *)
(* Every prefix / suffix split is emitted with its own totals: the totals  *)
(* of the parts must add up to the total of the whole.                     *)
(* All numbers are doubled (x2) so that half-integer weights stay integer. *)
(***************************************************************************)
EXTENDS Integers, Sequences, FiniteSets, TLC, Json

CONSTANTS RowPool,   \* sequence of [x, z, w2]
          MaxRows,
          Points     \* sequence of <<b1, b2>>

VARIABLES rows, done
vars == <<rows, done>>

Fv(r, b)  == b[1] * r.x + b[2] * r.z + b[1] * b[2]
Gv(r, b)  == <<r.x + b[2], r.z + b[1]>>
Hv(r, b)  == <<<<0, 1>>, <<1, 0>>>>
Wt(r, weighted) == IF weighted THEN r.w2 ELSE 2
\* a second, concave model (it can be estimated): f2_r = -(b1 - x_r)^2 - (b2 - z_r)^2
F2v(r, b) == 0 - (b[1] - r.x) * (b[1] - r.x) - (b[2] - r.z) * (b[2] - r.z)

RECURSIVE SumSeq(_)
SumSeq(s) == IF s = << >> THEN 0 ELSE Head(s) + SumSeq(Tail(s))
Over(sq, f(_)) == SumSeq([k \in 1..Len(sq) |-> f(sq[k])])

Totals2(sq, b, weighted) ==     \* all entries are TWICE the aggregate
    [f  |-> Over(sq, LAMBDA r : Wt(r, weighted) * Fv(r, b)),
     g  |-> [k \in 1..2 |-> Over(sq, LAMBDA r : Wt(r, weighted) * Gv(r, b)[k])],
     h  |-> [k \in 1..2 |-> [l \in 1..2 |-> Over(sq, LAMBDA r : Wt(r, weighted) * Hv(r, b)[k][l])]],
     bh |-> [k \in 1..2 |-> [l \in 1..2 |-> Over(sq, LAMBDA r : Wt(r, weighted) * Gv(r, b)[k] * Gv(r, b)[l])]],
     n  |-> Len(sq)]

Init == rows = << >> /\ done = FALSE
Add == ~done /\ Len(rows) < MaxRows /\ \E i \in 1..Len(RowPool) :
          /\ \A k \in 1..Len(rows) : rows[k] # RowPool[i]
          /\ rows' = Append(rows, RowPool[i]) /\ UNCHANGED done
Emit == ~done /\ Len(rows) >= 1 /\ done' = TRUE /\ UNCHANGED rows
Next == Add \/ Emit
Spec == Init /\ [][Next]_vars

\* parts add up: for every split point the totals of prefix and suffix sum to the whole
PartsAddUp == done => \A p \in 1..Len(Points), wt \in BOOLEAN, k \in 0..Len(rows) :
    LET whole == Totals2(rows, Points[p], wt)
        a == Totals2(SubSeq(rows, 1, k), Points[p], wt)
        b == Totals2(SubSeq(rows, k + 1, Len(rows)), Points[p], wt)
    IN  whole.f = a.f + b.f /\ \A i \in 1..2 : whole.g[i] = a.g[i] + b.g[i]
\* order irrelevant: reversing the rows changes nothing
OrderIrrelevant == done => \A p \in 1..Len(Points), wt \in BOOLEAN :
    LET rev == [k \in 1..Len(rows) |-> rows[Len(rows) + 1 - k]]
    IN  Totals2(rev, Points[p], wt) = Totals2(rows, Points[p], wt)

Emitted == [rows |-> rows,
            per_row |-> [p \in 1..Len(Points) |-> [k \in 1..Len(rows) |-> Fv(rows[k], Points[p])]],
            totals |-> [p \in 1..Len(Points) |->
                          [weighted |-> Totals2(rows, Points[p], TRUE), plain |-> Totals2(rows, Points[p], FALSE)]],
            \* twice the weighted / plain sum of the concave model at each point: whatever the object did
            \* before (estimation, bootstrap on re-samples), the likelihood of THE DATA SET is this sum
            concave |-> [p \in 1..Len(Points) |->
                          [weighted |-> Over(rows, LAMBDA r : Wt(r, TRUE) * F2v(r, Points[p])),
                           plain |-> Over(rows, LAMBDA r : Wt(r, FALSE) * F2v(r, Points[p]))]],
            prefix |-> [p \in 1..Len(Points) |-> [k \in 1..Len(rows) |->
                          [weighted |-> Totals2(SubSeq(rows, 1, k), Points[p], TRUE),
                           plain |-> Totals2(SubSeq(rows, 1, k), Points[p], FALSE)]]]]
EmitInv == done => PrintT(ToJson(Emitted))
=============================================================================
