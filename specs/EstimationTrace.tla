--------------------------- MODULE EstimationTrace ---------------------------
(***************************************************************************)
(* Trace validation of the estimation dialogue (code -> spec), property    *)
(* C07.  The driver wraps the likelihood entry points of the estimation    *)
(* object and the three methods of the minimised function, and records one *)
(* event per call.  Floating-point vectors are interned by bit-for-bit     *)
(* equality (x ids, value ids ...); `neg` fields say whether the answer of *)
(* the minimised function is the bit-for-bit negation of the likelihood    *)
(* output OF THE SAME POINT, `inb` whether the point respects the bounds.  *)
(*                                                                         *)
(* Events:  init(x, f) | like(x, f) | liked(x, f, g, h)                    *)
(*          | req(kind, x, negf, negg, negh, inb) | return(x, conv)        *)
(*          | final(x, f, g, h, b) | package(xm, fm, gm, hm, bm, im)       *)
(*          | writeback(ok)                                                *)
(* Phases: new -> init -> optimizing -> returned -> final -> packaged ->   *)
(* writtenback.  Checked at every step: phase order; the same point always *)
(* gets the same value (and gradient); every answer to the optimiser is    *)
(* the negated output of the point it was asked for; with a bound-aware    *)
(* algorithm every request respects the bounds; the final evaluation is at *)
(* the returned point and the results hold exactly that evaluation; the    *)
(* final likelihood is not lower than the initial one.                     *)
(***************************************************************************)
EXTENDS Integers, Sequences, FiniteSets, TLC, Json, IOUtils

Trace == JsonDeserialize(IOEnv.TRACE_FILE)
NT == Len(Trace)

VARIABLES t, l, bad, phase, fOf, gOf, initx, retx, finalOK
vars == <<t, l, bad, phase, fOf, gOf, initx, retx, finalOK>>

Ev == Trace[t].events[l + 1]
More == t <= NT /\ l < Len(Trace[t].events)

\* fOf / gOf: what has been answered so far for each point id (0 = not yet)
Known(m, x) == x \in DOMAIN m
Consistent(m, x, v) == ~Known(m, x) \/ m[x] = v
Put(m, x, v) == IF Known(m, x) THEN m ELSE m @@ (x :> v)

Verdict ==
    CASE Ev.ev = "init" ->
           IF phase # "new" THEN "phase:init" ELSE "ok"
      [] Ev.ev \in {"like", "liked"} ->
           IF phase \notin {"new", "init", "optimizing", "returned", "final"} THEN "phase:like"
           ELSE IF ~Consistent(fOf, Ev.x, Ev.f) THEN "same-point-different-value"
           ELSE IF Ev.ev = "liked" /\ ~Consistent(gOf, Ev.x, Ev.g) THEN "same-point-different-gradient"
           ELSE "ok"
      [] Ev.ev = "req" ->
           IF phase \notin {"init", "optimizing"} THEN "phase:req"
           ELSE IF ~Ev.negf THEN "sign:function"
           ELSE IF Ev.kind \in {"fg", "fgh"} /\ ~Ev.negg THEN "sign:gradient"
           ELSE IF Ev.kind = "fgh" /\ ~Ev.negh THEN "sign:hessian"
           ELSE IF Trace[t].bounds /\ ~Ev.inb THEN "request-outside-bounds"
           ELSE "ok"
      [] Ev.ev = "return" ->
           IF phase \notin {"init", "optimizing"} THEN "phase:return"
           ELSE IF Trace[t].bounds /\ ~Ev.inb THEN "returned-point-outside-bounds"
           ELSE "ok"
      [] Ev.ev = "final" ->
           IF phase # "returned" THEN "phase:final"
           ELSE IF Ev.x # retx THEN "final-evaluation-not-at-returned-point"
           ELSE IF ~Consistent(fOf, Ev.x, Ev.f) THEN "same-point-different-value"
           ELSE IF ~Ev.notlower THEN "final-likelihood-below-initial"
           ELSE "ok"
      [] Ev.ev = "package" ->
           IF phase # "final" THEN "phase:package"
           ELSE IF ~Ev.xm THEN "results:estimates-not-returned-point"
           ELSE IF ~Ev.fm THEN "results:loglike-not-final-evaluation"
           ELSE IF ~Ev.gm THEN "results:gradient-not-final-evaluation"
           ELSE IF ~Ev.hm THEN "results:hessian-not-final-evaluation"
           ELSE IF ~Ev.bm THEN "results:bhhh-not-final-evaluation"
           ELSE IF ~Ev.im THEN "results:init-loglike"
           ELSE "ok"
      [] Ev.ev = "writeback" ->
           IF phase # "packaged" THEN "phase:writeback"
           ELSE IF ~Ev.ok THEN "writeback"
           ELSE "ok"
      [] OTHER -> "unknown-event"

NextPhase ==
    CASE Ev.ev = "init" -> "init"
      [] Ev.ev = "req" -> "optimizing"
      [] Ev.ev = "return" -> "returned"
      [] Ev.ev = "final" -> "final"
      [] Ev.ev = "package" -> "packaged"
      [] Ev.ev = "writeback" -> "writtenback"
      [] OTHER -> phase

Step == /\ More /\ bad = "ok"
        /\ bad' = (IF Verdict = "ok" THEN "ok" ELSE Verdict \o "@" \o ToString(l + 1))
        /\ phase' = NextPhase
        /\ fOf' = IF Ev.ev \in {"like", "liked", "final"} THEN Put(fOf, Ev.x, Ev.f) ELSE fOf
        /\ gOf' = IF Ev.ev \in {"liked", "final"} THEN Put(gOf, Ev.x, Ev.g) ELSE gOf
        /\ initx' = IF Ev.ev = "init" THEN Ev.x ELSE initx
        /\ retx' = IF Ev.ev = "return" THEN Ev.x ELSE retx
        /\ finalOK' = finalOK
        /\ l' = l + 1 /\ t' = t

Finish == /\ t <= NT /\ (l = Len(Trace[t].events) \/ bad # "ok")
          /\ PrintT(ToJson([tid |-> Trace[t].tid,
                            verdict |-> IF bad # "ok" THEN bad
                                        ELSE IF phase # "writtenback" THEN "incomplete:" \o phase ELSE "ok"]))
          /\ t' = t + 1 /\ l' = 0 /\ bad' = "ok" /\ phase' = "new"
          /\ fOf' = <<>> /\ gOf' = <<>> /\ initx' = 0 /\ retx' = 0 /\ finalOK' = FALSE

TInit == t = 1 /\ l = 0 /\ bad = "ok" /\ phase = "new" /\ fOf = <<>> /\ gOf = <<>> /\ initx = 0 /\ retx = 0 /\ finalOK = FALSE
TNext == Step \/ Finish
TraceSpec == TInit /\ [][TNext]_vars
Progress == t \in 1..(NT + 1)
=============================================================================
