----------------------------- MODULE AggPartition -----------------------------
(***************************************************************************)
(* The concrete partition rule of the shipped engine source                *)
(* (biogeme.cc:prepareData) for n rows and t requested threads:            *)
(*   size s = ceil(n/t); nb = ceil(n/s) blocks; block k = [(k-1)s+1, ks],  *)
(*   the last block runs to n.                                             *)
(* Checked for all n <= MaxN, t <= MaxT: the blocks are non-empty,         *)
(* contiguous, pairwise disjoint, cover 1..n, and nb <= t.  This is the    *)
(* instance of Aggregation!Dispatch the engine implements.                 *)
(***************************************************************************)
EXTENDS Integers, FiniteSets, TLC
CONSTANTS MaxN, MaxT
CeilDiv(a, b) == (a + b - 1) \div b
Size(n, t)   == CeilDiv(n, t)
Blocks(n, t) == CeilDiv(n, Size(n, t))
First(n, t, k) == (k - 1) * Size(n, t) + 1
Last(n, t, k)  == IF k = Blocks(n, t) THEN n ELSE k * Size(n, t)
PartitionOK(n, t) ==
    /\ Blocks(n, t) \in 1..t
    /\ \A k \in 1..Blocks(n, t) : First(n, t, k) <= Last(n, t, k)
    /\ First(n, t, 1) = 1 /\ Last(n, t, Blocks(n, t)) = n
    /\ \A k \in 1..(Blocks(n, t) - 1) : First(n, t, k + 1) = Last(n, t, k) + 1
    /\ \A r \in 1..n : Cardinality({k \in 1..Blocks(n, t) : First(n, t, k) <= r /\ r <= Last(n, t, k)}) = 1
AllOK == \A n \in 1..MaxN, t \in 1..MaxT : PartitionOK(n, t)
ASSUME AllOK
VARIABLE x
Init == x = 0
Next == x' = x
Spec == Init /\ [][Next]_x
Inv == AllOK
=============================================================================
