------------------------------- MODULE IterFile -------------------------------
(***************************************************************************)
(* The saved-iteration file as a restart point (property C15).             *)
(*                                                                         *)
(* State: the evaluations issued so far in this estimation (each a point   *)
(* id with its log likelihood LEVEL and whether its derivatives are        *)
(* finite), the best value so far, the two files on disk (the iteration    *)
(* file and the temporary one) each described by (exists, point, number of *)
(* complete lines, partial tail), the program counter of the saver, and    *)
(* whether the process is alive.                                           *)
(*                                                                         *)
(* One action per critical step of the code: Evaluate (decides whether to  *)
(* save), OpenTarget, Write (any chunking: some complete lines and maybe a *)
(* partial one reach the disk), Close, Rename; Crash is enabled in EVERY   *)
(* state (this is the crash-point quantifier); Restart is the next         *)
(* estimation reading the file.                                            *)
(*                                                                         *)
(* Constants select the variant of the saver: Atomic (temporary file +     *)
(* rename, versus rewriting in place) and UpdateBest (best value updated   *)
(* at each improvement, versus frozen at the first evaluation).  The       *)
(* implementation must follow Atomic = UpdateBest = TRUE; the other        *)
(* variants are kept because TLC shows that each of them breaks FileSound. *)
(***************************************************************************)
EXTENDS Integers, Sequences, FiniteSets, TLC

CONSTANTS K,          \* number of free parameters = lines of a complete file
          Levels,     \* set of log-likelihood levels (integers, larger is better)
          MaxEvals,   \* evaluations per estimation
          MaxRuns,    \* number of estimations (Restart starts the next one)
          Atomic, UpdateBest

VARIABLES alive, evals, best, pc, pending, iter, tmp, carried, run, failed
vars == <<alive, evals, best, pc, pending, iter, tmp, carried, run, failed>>

Absent == [ex |-> FALSE, pt |-> 0, lines |-> 0, partial |-> FALSE]
File(pt, lines, partial) == [ex |-> TRUE, pt |-> pt, lines |-> lines, partial |-> partial]
Complete(f) == f.ex /\ f.lines = K /\ ~f.partial

\* point ids are unique over the whole history: run * 100 + position
PointId == run * 100 + Len(evals) + 1
EvalOf(id) == CHOOSE e \in {evals[i] : i \in 1..Len(evals)} : e.id = id
Finite == {evals[i] : i \in 1..Len(evals)} \cap {e \in {evals[i] : i \in 1..Len(evals)} : e.fin}
IsBestSoFar(id) ==
    /\ \E e \in Finite : e.id = id
    /\ \A e \in Finite : e.ll <= EvalOf(id).ll

Init == /\ alive = TRUE /\ evals = << >> /\ best = [set |-> FALSE, ll |-> 0]
        /\ pc = "idle" /\ pending = 0
        /\ iter = Absent /\ tmp = Absent /\ carried = FALSE /\ run = 1 /\ failed = FALSE

Evaluate(l, fin) ==
    /\ alive /\ pc = "idle" /\ Len(evals) < MaxEvals
    /\ evals' = Append(evals, [id |-> PointId, ll |-> l, fin |-> fin])
    /\ IF fin /\ (~best.set \/ l >= best.ll)
       THEN /\ best' = IF UpdateBest \/ ~best.set THEN [set |-> TRUE, ll |-> l] ELSE best
            /\ pc' = "open" /\ pending' = PointId
       ELSE UNCHANGED <<best, pc, pending>>
    /\ UNCHANGED <<alive, iter, tmp, carried, run, failed>>

OpenTarget ==
    /\ alive /\ pc = "open"
    /\ IF Atomic THEN tmp' = File(pending, 0, FALSE) /\ UNCHANGED <<iter, carried>>
                 ELSE iter' = File(pending, 0, FALSE) /\ carried' = FALSE /\ UNCHANGED tmp
    /\ pc' = "write"
    /\ UNCHANGED <<alive, evals, best, pending, run, failed>>

\* some more bytes reach the disk: n complete lines in total, possibly followed by a partial one
Write ==
    /\ alive /\ pc = "write"
    /\ LET f == IF Atomic THEN tmp ELSE iter IN
       \E n \in f.lines..K, p \in BOOLEAN :
          /\ (n = K => ~p)
          /\ (n > f.lines \/ (p /\ ~f.partial))          \* progress
          /\ IF Atomic THEN tmp' = File(f.pt, n, p) /\ UNCHANGED iter
                       ELSE iter' = File(f.pt, n, p) /\ UNCHANGED tmp
    /\ UNCHANGED <<alive, evals, best, pc, pending, carried, run, failed>>

Close ==
    /\ alive /\ pc = "write" /\ Complete(IF Atomic THEN tmp ELSE iter)
    /\ pc' = IF Atomic THEN "rename" ELSE "idle"
    /\ UNCHANGED <<alive, evals, best, pending, iter, tmp, carried, run, failed>>

Rename ==
    /\ alive /\ pc = "rename"
    /\ iter' = tmp /\ tmp' = Absent /\ carried' = FALSE /\ pc' = "idle"
    /\ UNCHANGED <<alive, evals, best, pending, run, failed>>

Crash == alive /\ alive' = FALSE
         /\ UNCHANGED <<evals, best, pc, pending, iter, tmp, carried, run, failed>>

\* the next estimation: reads the file if it exists (it must parse), restarts from its point
Restart ==
    /\ ~alive /\ run < MaxRuns
    /\ alive' = TRUE /\ run' = run + 1
    /\ failed' = (failed \/ (iter.ex /\ ~Complete(iter)))
    /\ evals' = << >> /\ best' = [set |-> FALSE, ll |-> 0] /\ pc' = "idle" /\ pending' = 0
    /\ carried' = iter.ex
    /\ UNCHANGED <<iter, tmp>>

Next == \/ \E l \in Levels, fin \in BOOLEAN : Evaluate(l, fin)
        \/ OpenTarget \/ Write \/ Close \/ Rename \/ Crash \/ Restart
Spec == Init /\ [][Next]_vars

(***************************************************************************)
(* The property.                                                           *)
(***************************************************************************)
\* whenever the file exists it is complete ...
FileComplete == iter.ex => Complete(iter)
\* ... and holds the best finite point evaluated so far in this estimation (or, right after a
\* restart and before it is replaced, the point the previous estimation left: `carried`)
\* While a save is in progress (pc # "idle") the evaluation being saved is not yet accounted for:
\* the file holds either the best of the earlier ones or already the new one.
BestAmong(id, S) == (\E e \in S : e.id = id) /\ \A e \in S : e.ll <= EvalOf(id).ll
Settled == IF pc = "idle" THEN Finite ELSE {e \in Finite : e.id # pending}
FileBest == (iter.ex /\ ~carried) => (IsBestSoFar(iter.pt) \/ BestAmong(iter.pt, Settled))
FileSound == FileComplete /\ FileBest
\* a restart always succeeds
RestartSucceeds == ~failed
\* once this estimation has saved, the file is never below the first finite evaluation
NeverBelowStart ==
    (iter.ex /\ ~carried /\ Finite # {}) =>
        \A i \in 1..Len(evals) : (evals[i].fin /\ \A j \in 1..(i - 1) : ~evals[j].fin) => evals[i].ll <= EvalOf(iter.pt).ll
\* when the saver is idle every finite evaluation is accounted for: the file holds the best one
UpToDate == (alive /\ pc = "idle" /\ Finite # {} /\ ~carried) => (iter.ex /\ IsBestSoFar(iter.pt))
TypeOK == pc \in {"idle", "open", "write", "rename"} /\ iter.lines \in 0..K /\ tmp.lines \in 0..K
=============================================================================
