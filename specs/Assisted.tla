------------------------------ MODULE Assisted ------------------------------
(***************************************************************************)
(* Assisted specification (beyond the listed properties).                  *)
(*                                                                         *)
(* ONE log likelihood expression with two catalogs (controllers A and B)   *)
(* is handed to the classes that estimate "all or some" configurations of  *)
(* it: Specification (class-level cache of results), BIOGEME               *)
(* .estimate_catalog, ParetoPostProcessing.reestimate and                  *)
(* AssistedSpecification.run, together with the Pareto set of              *)
(* biogeme_optimization and the name generators of biogeme.tools           *)
(* .unique_ids.  The state a user can observe is spread over               *)
(*                                                                         *)
(*   cur        the configuration currently selected in the expression     *)
(*              (shared by everybody who holds the expression)             *)
(*   cache      Specification.all_results: per configuration id nothing,   *)
(*              estimation results ("full") or an EMPTY bioResults         *)
(*   insts      the Specification objects created so far (configuration,   *)
(*              validity = (status, reason))                               *)
(*   par        the Pareto object of the AssistedSpecification: the sets   *)
(*              pareto / considered / removed / invalid of elements        *)
(*              (id, objectives = (- log likelihood, number of parameters))*)
(*   file       the Pareto file                                            *)
(*   post       a ParetoPostProcessing object (its own copy of the file's  *)
(*              Pareto set, its own ModelNames)                            *)
(*   cnames     the ModelNames of the BIOGEME object (estimate_catalog)    *)
(*   mn         a free-standing ModelNames object                          *)
(*   iterf, nrep, pick   the files in the directory BY MODEL NAME: saved   *)
(*              iterations, number of reports, and whose results the most  *)
(*              recent pickle file of that name holds                      *)
(*   nq, nf     how many quick / full estimations each configuration has   *)
(*              cost so far                                                *)
(*                                                                         *)
(* Actions = public calls, each ONE step with its return value:            *)
(* Construct (Specification(configuration[, parameters]) / from_string_id),*)
(* DefaultSpec, GetElement, ParetoAdd, Dump, NewSession (what re-running   *)
(* the user's script amounts to: everything in memory is rebuilt, the      *)
(* files stay), EstCatAll / EstCatSel (estimate_catalog), Post, Reestimate,*)
(* MN (ModelNames call), GenIds (generate_unique_ids), Run.                *)
(*                                                                         *)
(* Python iterates over SETS of configurations / of Pareto elements in     *)
(* several places; the order is arbitrary.  The specification fixes, per   *)
(* history, one total order `perm` of the configurations, every such       *)
(* iteration follows it, and the driver imposes the same order on the      *)
(* real sets: "for every order, this is what happens".                     *)
(*                                                                         *)
(* What the code actually does is modelled; deviations from the naive      *)
(* reading of the documentation are named:                                 *)
(*   D1  Specification gives EVERY model it estimates the same name        *)
(*       "<prefix>_000000": the ModelNames object is created per           *)
(*       Specification instance, not once (so all of them share one        *)
(*       saved-iterations file);                                           *)
(*   D2  default_specification() is the specification of the CURRENT       *)
(*       selection of the expression, not of "the first expression of      *)
(*       each group": reset_expression_selection() changes nothing;        *)
(*   D3  a configuration with too many parameters is cached as an EMPTY    *)
(*       bioResults; a second Specification of it finds the cache entry    *)
(*       and reports "Optimization algorithm has not converged": the       *)
(*       REASON of the validity depends on the history, the status does    *)
(*       not (within one cache);                                           *)
(*   D4  the limit on the number of parameters is only looked at when the  *)
(*       configuration is NOT yet cached: validity is that of the first    *)
(*       Specification of the configuration, whatever the limit of the     *)
(*       later ones;                                                       *)
(*   D5  from_string_id(), default_specification() and everything          *)
(*       AssistedSpecification builds use the DEFAULT limit (50), never    *)
(*       the maximum_number_parameters of the user's parameter file;       *)
(*   D6  construction moves the expression's current selection only when   *)
(*       it estimates (cache miss), not on a cache hit;                    *)
(*   D7  estimate_catalog and reestimate never use the cache: every call   *)
(*       estimates every selected configuration again;                     *)
(*   D8  estimate_catalog(quick_estimate=True, recycle=True) ignores       *)
(*       recycle;                                                          *)
(*   D9  estimate_catalog, reestimate and Specification all build their    *)
(*       model names from the same prefix (the model name of the BIOGEME   *)
(*       object) with independent counters: different configurations end   *)
(*       up under ONE name, and recycle=True returns the results of the    *)
(*       configuration that wrote the most recent pickle file of the name; *)
(*   D10 run(), when it enumerates all configurations, never looks at      *)
(*       validity: invalid specifications enter the Pareto set and are     *)
(*       returned; in both branches the default specification is inserted  *)
(*       before its validity is checked;                                   *)
(*   D11 generate_unique_ids does not check that the names it makes up     *)
(*       are new: ['a','a','a_0'] gives {'a_0': 'a_0', 'a_1': 'a'}.        *)
(*                                                                         *)
(* Model: LL = - sum_rows (y - mA)^2 + (z - mB)^2 with                     *)
(*   mA = b_1 p_1 + .. + b_i p_i  (alternative i of A),                    *)
(*   mB = c_1 p_1 + .. + c_j p_j  (alternative j of B),                    *)
(* the columns p_m pairwise orthogonal on the data, so that the estimate   *)
(* of each coefficient is <y,p_m>/<p_m,p_m> whatever the configuration and *)
(* -max LL = RSS_y(i) + RSS_z(j), exact rationals (Term).                  *)
(***************************************************************************)
EXTENDS Integers, Sequences, FiniteSets, TLC, Json, Term

CONSTANTS
    NA, NB,        \* number of alternatives of the two controllers
    Y, Z,          \* data columns (sequences of rationals)
    P,             \* the regressors p_1 .. p_max(NA,NB) (each a sequence of rationals)
    DefaultMax,    \* default of maximum_number_parameters
    Limits,        \* other limits a Specification can be given
    UserInvalid,   \* configurations the user's validity function refuses
    Perms,         \* total orders (sequences) of the configurations a history can run under
    Selections,    \* sets of configurations estimate_catalog can be asked for
    MaxCats,       \* values of maximum_number_catalog_expressions
    MNIds,         \* identifiers the free-standing ModelNames object is asked about
    IdLists,       \* argument lists of generate_unique_ids (names = sequences of code points)
    MaxSteps,
    Hows,          \* ways of building a Specification a history may use: "plain", "params", "from_string_id"
    Script,        \* << >>: any call at any step; otherwise the sequence of calls (names) the histories follow
    LastIsRun,     \* TRUE: the last call of every history is run() above the limit
    Record         \* TRUE: hist is the whole history with the projected state after every call (for replay);
                   \* FALSE: hist holds the last call only (model checking: histories reaching the same state merge)

VARIABLES w, perm, hist, nsteps, done
vars == <<w, perm, hist, nsteps, done>>

Configs == (1..NA) \X (1..NB)
NConf == NA * NB
Names == 0..(NConf - 1)
NPar(c) == c[1] + c[2]
None == [set |-> FALSE]
Some(v) == [set |-> TRUE, v |-> v]

(***************************************************************************)
(* Least squares on orthogonal columns.                                    *)
(***************************************************************************)
Rows == 1..Len(Y)
RECURSIVE DotUpTo(_, _, _)
DotUpTo(U, V, k) == IF k = 0 THEN Zero ELSE QAdd(QMul(U[k], V[k]), DotUpTo(U, V, k - 1))
Dot(U, V) == DotUpTo(U, V, Len(U))
PP == [m \in 1..Len(P) |-> Dot(P[m], P[m])]
CoefY == [m \in 1..NA |-> QDiv(Dot(Y, P[m]), PP[m])]
CoefZ == [m \in 1..NB |-> QDiv(Dot(Z, P[m]), PP[m])]
RECURSIVE Rss(_, _)
Rss(V, n) == IF n = 0 THEN Dot(V, V)
             ELSE QSub(Rss(V, n - 1), QDiv(QMul(Dot(V, P[n]), Dot(V, P[n])), PP[n]))
NLL == [c \in Configs |-> QAdd(Rss(Y, c[1]), Rss(Z, c[2]))]     \* minus the maximum log likelihood

ASSUME Orthogonal == \A m, n \in 1..Len(P) : m # n => Dot(P[m], P[n]) = Zero
ASSUME Distinct == \A c, d \in Configs : c # d => NLL[c] # NLL[d]          \* no dominance decided by rounding
ASSUME Roomy == \A c \in Configs : NPar(c) <= DefaultMax
ASSUME Orders == \A p \in Perms : Len(p) = NConf /\ {p[i] : i \in 1..NConf} = Configs

(***************************************************************************)
(* Pareto elements and dominance (every objective is minimised).           *)
(***************************************************************************)
InfObj == [inf |-> TRUE, nll |-> Zero, np |-> 0]          \* (float32 max, float32 max)
Obj(kind, c) == IF kind = "full" THEN [inf |-> FALSE, nll |-> NLL[c], np |-> NPar(c)] ELSE InfObj
LeqAll(o, q) == IF q.inf THEN TRUE ELSE IF o.inf THEN FALSE ELSE QLeq(o.nll, q.nll) /\ o.np <= q.np
Dom(o, q) == LeqAll(o, q) /\ o # q
NonDom(S) == {e \in S : ~ \E f \in S : Dom(f.obj, e.obj)}
EmptyPar == [p |-> {}, c |-> {}, r |-> {}, i |-> {}]
\* Pareto.add, from its docstring: D = members dominated by e, S = members dominating e; if S is empty e enters and D leaves
PAdd(G, e) ==
    IF e \in G.c THEN [ret |-> FALSE, G |-> G]
    ELSE LET s == {k \in G.p : Dom(k.obj, e.obj)}
             d == {k \in G.p : Dom(e.obj, k.obj)}
         IN  IF s # {} THEN [ret |-> FALSE, G |-> [G EXCEPT !.c = @ \cup {e}]]
             ELSE [ret |-> TRUE, G |-> [p |-> (G.p \cup {e}) \ d, c |-> G.c \cup {e}, r |-> G.r \cup d, i |-> G.i]]
Ids(S) == {e.id : e \in S}

(***************************************************************************)
(* ModelNames: numbering by first appearance.                              *)
(***************************************************************************)
Has(s, x) == \E i \in 1..Len(s) : s[i] = x
NameIn(s, x) == IF Has(s, x) THEN (CHOOSE i \in 1..Len(s) : s[i] = x) - 1 ELSE Len(s)
Named(s, x) == IF Has(s, x) THEN s ELSE Append(s, x)
NoDup(s) == \A i, j \in 1..Len(s) : s[i] = s[j] => i = j
IsPrefix(s, t) == Len(s) <= Len(t) /\ \A i \in 1..Len(s) : s[i] = t[i]

(***************************************************************************)
(* generate_unique_ids (D11): the dictionary is filled name by name, in    *)
(* the order of first appearance, a later entry replaces an earlier one.   *)
(***************************************************************************)
RECURSIVE Firsts(_)
Firsts(L) == IF L = << >> THEN << >>
             ELSE LET r == Firsts(SubSeq(L, 1, Len(L) - 1))
                  IN  IF Has(r, L[Len(L)]) THEN r ELSE Append(r, L[Len(L)])
Count(L, n) == Cardinality({i \in 1..Len(L) : L[i] = n})
Suffixed(n, i) == n \o <<95, 48 + i>>                         \* n + '_' + str(i), i < 10
Entries(L, n) == IF Count(L, n) = 1 THEN <<<<n, n>>>> ELSE [i \in 1..Count(L, n) |-> <<Suffixed(n, i - 1), n>>]
RECURSIVE AllEntries(_, _)
AllEntries(L, f) == IF f = << >> THEN << >> ELSE Entries(L, Head(f)) \o AllEntries(L, Tail(f))
\* the dictionary as the set of its items: for each key the LAST entry written
DictOf(es) == {es[i] : i \in {j \in 1..Len(es) : \A k \in (j + 1)..Len(es) : es[k][1] # es[j][1]}}
GenIdsOf(L) == DictOf(AllEntries(L, Firsts(L)))
NoCollision(L) == NoDup([i \in 1..Len(AllEntries(L, Firsts(L))) |-> AllEntries(L, Firsts(L))[i][1]])
ValuesReproduceInput(L) == \A n \in {L[i] : i \in 1..Len(L)} : Cardinality({e \in GenIdsOf(L) : e[2] = n}) = Count(L, n)

(***************************************************************************)
(* Effects on the world w.                                                 *)
(***************************************************************************)
Order(S) == SelectSeq(perm, LAMBDA c : c \in S)           \* the iteration order of a set of configurations
Elem(ww, c) == [id |-> c, obj |-> Obj(ww.cache[c], c)]
\* quick_estimate under model name nm: saved iterations only
Quick(ww, c, nm) == [ww EXCEPT !.cur = c, !.nq[c] = @ + 1, !.iterf = @ \cup {nm}]
\* estimate(recycle) under model name nm: D9
Full(ww, c, nm, recycle) ==
    IF recycle /\ ww.nrep[nm] > 0 THEN [w |-> [ww EXCEPT !.cur = c], of |-> ww.pick[nm]]
    ELSE [w |-> [ww EXCEPT !.cur = c, !.nf[c] = @ + 1, !.iterf = @ \cup {nm}, !.nrep[nm] = @ + 1, !.pick[nm] = c], of |-> c]
\* one pass over a sequence of configurations with a ModelNames object `names`
RECURSIVE Pass(_, _, _, _, _, _)
Pass(ww, names, seq, quick, recycle, out) ==
    IF seq = << >> THEN [w |-> ww, names |-> names, out |-> out]
    ELSE LET c == Head(seq)
             nm == NameIn(names, c)
             r == IF quick THEN [w |-> Quick(ww, c, nm), of |-> c] ELSE Full(ww, c, nm, recycle)     \* D8
         IN  Pass(r.w, Named(names, c), Tail(seq), quick, recycle, Append(out, [key |-> c, of |-> r.of, name |-> nm]))

UserValidity(c) == IF c \in UserInvalid THEN [status |-> FALSE, reason |-> "user", n |-> 0, max |-> 0]
                   ELSE [status |-> TRUE, reason |-> "", n |-> 0, max |-> 0]
\* Specification(configuration) with limit lim: D1, D3, D4, D6
Cons(ww, c, lim) ==
    LET fresh == ww.cache[c] = "none"
        too == fresh /\ NPar(c) > lim
        w1 == IF ~fresh THEN ww
              ELSE IF too THEN [ww EXCEPT !.cur = c, !.cache[c] = "empty"]
              ELSE [Quick(ww, c, 0) EXCEPT !.cache[c] = "full", !.nest[c] = @ + 1]
        val == IF too THEN [status |-> FALSE, reason |-> "too_many", n |-> NPar(c), max |-> lim]
               ELSE IF w1.cache[c] = "empty" THEN [status |-> FALSE, reason |-> "not_converged", n |-> 0, max |-> 0]
               ELSE UserValidity(c)
    IN  [w |-> w1, val |-> val]
ConsInst(ww, c, lim) ==
    LET r == Cons(ww, c, lim)
    IN  [w |-> [r.w EXCEPT !.insts = Append(@, [c |-> c, val |-> r.val, lim |-> lim])], val |-> r.val]

\* an element of configuration c that is not the one the Pareto object already knows under that id: whether the
\* real set then finds it "already inserted" depends on hashing -- such insertions are left out
Clash(G, e) == \E f \in G.c \cup G.i : f.id = e.id /\ f # e
KindAfter(ww, c) == IF ww.cache[c] = "none" THEN "full" ELSE ww.cache[c]       \* under the default limit (Roomy)

(***************************************************************************)
(* Observable projection and history.                                      *)
(***************************************************************************)
Proj(ww) ==
    [cur    |-> ww.cur,
     cache  |-> {[c |-> c, kind |-> ww.cache[c]] : c \in {x \in Configs : ww.cache[x] # "none"}},
     cost   |-> {[c |-> c, q |-> ww.nq[c], f |-> ww.nf[c]] : c \in Configs},
     insts  |-> ww.insts,
     par    |-> ww.par,
     file   |-> ww.file,
     post   |-> ww.post,
     cnames |-> ww.cnames,
     mn     |-> ww.mn,
     iters  |-> ww.iterf,
     reps   |-> {[name |-> n, n |-> ww.nrep[n]] : n \in {x \in Names : ww.nrep[x] > 0}}]
Step(act, arg, ret, ww) == [act |-> act, arg |-> arg, ret |-> ret, st |-> IF Record THEN Proj(ww) ELSE [cur |-> ww.cur]]
Push(s) == /\ hist' = IF Record THEN Append(hist, s) ELSE <<s>>
           /\ nsteps' = nsteps + 1
Log(act, arg, ret) == Push(Step(act, arg, ret, w'))

World0 == [cur |-> <<1, 1>>,
           cache |-> [c \in Configs |-> "none"],
           nest |-> [c \in Configs |-> 0],
           nq |-> [c \in Configs |-> 0],
           nf |-> [c \in Configs |-> 0],
           insts |-> << >>,
           par |-> EmptyPar,
           file |-> None,
           post |-> None,
           cnames |-> << >>,
           mn |-> << >>,
           iterf |-> {},
           nrep |-> [n \in Names |-> 0],
           pick |-> [n \in Names |-> <<1, 1>>],
           epoch |-> 0]

Init == /\ w = World0
        /\ perm \in Perms
        /\ hist = << >>
        /\ nsteps = 0
        /\ done = FALSE

Going == ~done /\ nsteps < MaxSteps - (IF LastIsRun THEN 1 ELSE 0)
Allowed(act) == Script = << >> \/ (nsteps < Len(Script) /\ Script[nsteps + 1] = act)
Keep == UNCHANGED <<perm, done>>

(***************************************************************************)
(* Actions.                                                                *)
(***************************************************************************)
\* how = "plain": Specification(conf); "params": Specification(conf, parameters with limit lim);
\* "from_string_id": Specification.from_string_id(id)                                                (D5)
Construct(c, lim, how) ==
    /\ Going /\ Keep /\ Allowed("construct") /\ how \in Hows
    /\ (how = "params" /\ lim \in Limits) \/ (how \in {"plain", "from_string_id"} /\ lim = DefaultMax)
    /\ LET r == ConsInst(w, c, lim)
       IN  /\ w' = r.w
           /\ Log("construct", [c |-> c, lim |-> lim, how |-> how], r.val)

DefaultSpec ==                                                                                       \* D2
    /\ Going /\ Keep /\ Allowed("default_specification")
    /\ LET r == ConsInst(w, w.cur, DefaultMax)
       IN  /\ w' = r.w
           /\ Log("default_specification", "none", [c |-> w.cur, val |-> r.val])

GetElement(k) ==
    /\ Going /\ Keep /\ Allowed("get_element") /\ k \in 1..Len(w.insts)
    /\ w' = w
    /\ Log("get_element", k, Elem(w, w.insts[k].c))

ParetoAdd(k) ==
    /\ Going /\ Keep /\ Allowed("pareto_add") /\ k \in 1..Len(w.insts)
    /\ LET e == Elem(w, w.insts[k].c)
           r == PAdd(w.par, e)
       IN  /\ ~Clash(w.par, e)
           /\ w' = [w EXCEPT !.par = r.G]
           /\ Log("pareto_add", k, r.ret)

Dump == /\ Going /\ Keep /\ Allowed("dump")
        /\ w' = [w EXCEPT !.file = Some(w.par)]
        /\ Log("dump", "none", "none")

\* the script is run again: expression, BIOGEME object, AssistedSpecification are rebuilt, the class-level cache is
\* empty, the Pareto object is read from the file; the directory is what it was
NewSession ==
    /\ Going /\ Keep /\ Allowed("new_session")
    /\ w' = [w EXCEPT !.cur = <<1, 1>>, !.cache = [c \in Configs |-> "none"], !.nest = [c \in Configs |-> 0],
                      !.insts = << >>, !.par = IF w.file.set THEN w.file.v ELSE EmptyPar, !.post = None,
                      !.cnames = << >>, !.mn = << >>, !.epoch = @ + 1]
    /\ Log("new_session", "none", "none")

CatRet(out) == [raised |-> FALSE, entries |-> out]
\* estimate_catalog(): all configurations, refused above maximum_number_catalog_expressions                  (D7)
EstCatAll(quick, recycle, maxcat) ==
    /\ Going /\ Keep /\ Allowed("estimate_catalog")
    /\ IF NConf > maxcat
       THEN /\ w' = w
            /\ Log("estimate_catalog", [all |-> TRUE, sel |-> {}, quick |-> quick, recycle |-> recycle, maxcat |-> maxcat],
                   [raised |-> TRUE, entries |-> << >>])
       ELSE LET r == Pass(w, w.cnames, perm, quick, recycle, << >>)
            IN  /\ w' = [r.w EXCEPT !.cnames = r.names]
                /\ Log("estimate_catalog", [all |-> TRUE, sel |-> {}, quick |-> quick, recycle |-> recycle, maxcat |-> maxcat],
                       CatRet(r.out))
\* estimate_catalog(selected_configurations=S): no limit on their number
EstCatSel(S, quick, recycle) ==
    /\ Going /\ Keep /\ Allowed("estimate_catalog") /\ S # {}
    /\ LET r == Pass(w, w.cnames, Order(S), quick, recycle, << >>)
       IN  /\ w' = [r.w EXCEPT !.cnames = r.names]
           /\ Log("estimate_catalog", [all |-> FALSE, sel |-> S, quick |-> quick, recycle |-> recycle, maxcat |-> 0], CatRet(r.out))

\* ParetoPostProcessing(biogeme_object, pareto_file): reads the file (no file: empty set)
Post == /\ Going /\ Keep /\ Allowed("post_processing")
        /\ w' = [w EXCEPT !.post = Some([pareto |-> IF w.file.set THEN w.file.v.p ELSE {}, names |-> << >>])]
        /\ Log("post_processing", "none", "none")

Reestimate(recycle) ==
    /\ Going /\ Keep /\ Allowed("reestimate") /\ w.post.set
    /\ LET r == Pass(w, w.post.v.names, Order(Ids(w.post.v.pareto)), FALSE, recycle, << >>)
       IN  /\ w' = [r.w EXCEPT !.post = Some([pareto |-> w.post.v.pareto, names |-> r.names])]
           /\ Log("reestimate", recycle, r.out)

MN(id) == /\ Going /\ Keep /\ Allowed("model_names")
          /\ w' = [w EXCEPT !.mn = Named(w.mn, id)]
          /\ Log("model_names", id, NameIn(w.mn, id))

GenIds(L) == /\ Going /\ Keep /\ Allowed("generate_unique_ids")
             /\ w' = w
             /\ Log("generate_unique_ids", L, GenIdsOf(L))

\* AssistedSpecification.run(), all configurations enumerated (D10): default specification, then every configuration
\* in iteration order, each inserted and the file written; then a NEW post-processing object re-estimates the Pareto set
RECURSIVE Enumerate(_, _)
Enumerate(ww, seq) ==
    IF seq = << >> THEN ww
    ELSE LET r == Cons(ww, Head(seq), DefaultMax)
             a == PAdd(r.w.par, Elem(r.w, Head(seq)))
         IN  Enumerate([r.w EXCEPT !.par = a.G, !.file = Some(a.G)], Tail(seq))
NoClashAtAll(ww) == \A c \in Configs : ~Clash(ww.par, [id |-> c, obj |-> Obj(KindAfter(ww, c), c)])
RunAll(maxcat) ==
    /\ Going /\ Keep /\ Allowed("run") /\ NConf <= maxcat /\ NoClashAtAll(w)
    /\ LET r0 == Cons(w, w.cur, DefaultMax)
           w0 == [r0.w EXCEPT !.par = PAdd(r0.w.par, Elem(r0.w, w.cur)).G]
           w1 == Enumerate(w0, perm)
           w2 == [w1 EXCEPT !.file = Some(w1.par)]
           r == Pass(w2, << >>, Order(Ids(w2.par.p)), FALSE, FALSE, << >>)
       IN  /\ w' = r.w
           /\ Log("run", [maxcat |-> maxcat], [heuristic |-> FALSE, entries |-> r.out, table |-> {}])

\* run() above the limit: the neighbourhood search decides for which configurations T a Specification is built (the
\* default one and the neighbours); whatever T is, the outcome is determined.  The history ends here (the
\* specification does not know T).
ValidNow(ww, c) == IF ww.cache[c] = "empty" THEN FALSE ELSE c \notin UserInvalid
HeurOutcome(ww, T) ==
    LET d == ww.cur
        r0 == Cons(ww, d, DefaultMax)
        Q0 == PAdd(r0.w.par, Elem(r0.w, d)).G                                       \* inserted before any check (D10)
        kind(c) == KindAfter(ww, c)
        el(c) == [id |-> c, obj |-> Obj(kind(c), c)]
        cons == Q0.c \cup {el(c) : c \in {x \in T : ValidNow(ww, x)}}
        inv == Q0.i \cup {el(c) : c \in {x \in T : ~ValidNow(ww, x) /\ (x = d \/ el(x) \notin Q0.c)}}
    IN  [tried |-> T, pareto |-> NonDom(cons), considered |-> cons, invalid |-> inv]
RunHeuristic(maxcat) ==
    /\ ~done /\ nsteps < MaxSteps /\ Allowed("run") /\ perm' = perm /\ NConf > maxcat /\ NoClashAtAll(w)
    /\ LET known == {w.cur}
       IN  /\ w' = w
           /\ done' = TRUE
           /\ Push(Step("run", [maxcat |-> maxcat],
                       [heuristic |-> TRUE, entries |-> << >>,
                        table |-> IF Record THEN {HeurOutcome(w, T) : T \in {X \in SUBSET Configs : known \subseteq X}} ELSE {}], w))

Finish == ~done /\ nsteps = MaxSteps /\ done' = TRUE /\ UNCHANGED <<w, perm, hist, nsteps>>

Next == \/ \E c \in Configs, lim \in Limits \cup {DefaultMax}, how \in {"plain", "params", "from_string_id"} : Construct(c, lim, how)
        \/ DefaultSpec
        \/ \E k \in 1..MaxSteps : GetElement(k) \/ ParetoAdd(k)
        \/ Dump \/ NewSession \/ Post
        \/ \E q, r \in BOOLEAN, m \in MaxCats : EstCatAll(q, r, m)
        \/ \E S \in Selections, q, r \in BOOLEAN : EstCatSel(S, q, r)
        \/ \E r \in BOOLEAN : Reestimate(r)
        \/ \E id \in MNIds : MN(id)
        \/ \E L \in IdLists : GenIds(L)
        \/ \E m \in MaxCats : RunAll(m) \/ RunHeuristic(m)
        \/ Finish
Spec == Init /\ [][Next]_vars

(***************************************************************************)
(* Properties of the model.                                                *)
(***************************************************************************)
\* a Specification estimates a configuration at most once per cache, and exactly the estimated ones hold results
EstimatedAtMostOncePerCache == \A c \in Configs : w.nest[c] <= 1 /\ (w.nest[c] = 1 <=> w.cache[c] = "full")
\* once a configuration id is cached, its entry (hence the results object, the objectives, the element) never changes
CacheIsStable == [][w'.epoch = w.epoch => \A c \in Configs : w.cache[c] # "none" =>
                        w'.cache[c] = w.cache[c] /\ Elem(w', c) = Elem(w, c)]_vars
\* within one cache, the status of a configuration is the same for every Specification of it (D3: not the reason)
StatusIsAFunctionOfTheConfiguration ==
    \A i, j \in 1..Len(w.insts) : w.insts[i].c = w.insts[j].c => w.insts[i].val.status = w.insts[j].val.status
\* the naive readings, REFUTED by TLC (used as controls of the model, see D3 and D4)
ReasonIsAFunctionOfTheConfiguration ==
    \A i, j \in 1..Len(w.insts) : w.insts[i].c = w.insts[j].c => w.insts[i].val.reason = w.insts[j].val.reason
ValidRespectsOwnLimit == \A i \in 1..Len(w.insts) : w.insts[i].val.status => NPar(w.insts[i].c) <= w.insts[i].lim
\* ModelNames: same id => same name, different ids => different names, numbered by first appearance
NamesAreInjective == NoDup(w.mn) /\ NoDup(w.cnames) /\ (w.post.set => NoDup(w.post.v.names))
NamesOnlyGrow == [][w'.epoch = w.epoch => /\ IsPrefix(w.mn, w'.mn) /\ IsPrefix(w.cnames, w'.cnames)
                                          /\ (w.post.set /\ w'.post.set /\ w'.post.v.pareto = w.post.v.pareto
                                                 => IsPrefix(w.post.v.names, w'.post.v.names) \/ w'.post.v.names = << >>)]_vars
\* generate_unique_ids: unless a made-up name collides (D11), the values of the dictionary reproduce the input
ASSUME UniqueIdsFaithfulWithoutCollision == \A L \in IdLists : NoCollision(L) => ValuesReproduceInput(L)
UniqueIdsAlwaysFaithful == nsteps >= 0 => \A L \in IdLists : ValuesReproduceInput(L)   \* REFUTED (D11)
\* the Pareto set is exactly the set of non-dominated elements inserted so far -- in memory, in the file, in the copy
Consistent(G) == G.p = NonDom(G.c) /\ G.r \subseteq G.c \ G.p
ParetoIsTheNonDominatedSet == Consistent(w.par) /\ (w.file.set => Consistent(w.file.v))
                              /\ (w.post.set => w.post.v.pareto = NonDom(w.post.v.pareto))
\* estimate_catalog returns exactly one entry per selected configuration; unless results are recycled (D9) they are
\* the estimates of THAT configuration
LastStep == hist[Len(hist)]
CatalogReturnsTheSelection ==
    (Len(hist) > 0 /\ LastStep.act = "estimate_catalog" /\ ~LastStep.ret.raised) =>
        LET es == LastStep.ret.entries
            sel == IF LastStep.arg.all THEN Configs ELSE LastStep.arg.sel
        IN  /\ Len(es) = Cardinality(sel) /\ {es[i].key : i \in 1..Len(es)} = sel
            /\ (LastStep.arg.quick \/ ~LastStep.arg.recycle => \A i \in 1..Len(es) : es[i].of = es[i].key)
            /\ \A i, j \in 1..Len(es) : es[i].name = es[j].name => i = j
\* run() returns the Pareto set
RunReturnsThePareto ==
    (Len(hist) > 0 /\ LastStep.act = "run" /\ ~LastStep.ret.heuristic) =>
        LET es == LastStep.ret.entries
        IN  /\ {es[i].key : i \in 1..Len(es)} = Ids(w.par.p)
            /\ \A i \in 1..Len(es) : es[i].of = es[i].key /\ es[i].name = i - 1
            /\ Ids(w.par.c) = Configs
\* files are only ever added; what a pickle of a name holds was estimated under that name
FilesOnlyGrow == [][/\ w.iterf \subseteq w'.iterf /\ \A n \in Names : w'.nrep[n] >= w.nrep[n]
                    /\ (w.file.set => w'.file.set)]_vars
CostOnlyGrows == [][\A c \in Configs : w'.nq[c] >= w.nq[c] /\ w'.nf[c] >= w.nf[c]]_vars

C(t) == <<t.n, t.d>>
Table == {[c |-> c, b |-> [m \in 1..c[1] |-> C(CoefY[m])], k |-> [m \in 1..c[2] |-> C(CoefZ[m])],
           nll |-> C(NLL[c]), np |-> NPar(c)] : c \in Configs}
Emitted == [perm |-> perm, table |-> Table, steps |-> hist]
EmitInv == done => PrintT(ToJson(Emitted))
=============================================================================
