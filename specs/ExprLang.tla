------------------------------ MODULE ExprLang ------------------------------
(***************************************************************************)
(* The expression language of biogeme: formulas as DAGs, their meaning     *)
(* (Val), their derivatives (Jet) and what biogeme-Python must tell the    *)
(* engine about them (Sig / Tables / EvalSig).                             *)
(*                                                                         *)
(* A DAG is a sequence of node records; children are indices of EARLIER    *)
(* nodes, so sharing of sub-formulas is native.  The first Len(Leaves)     *)
(* nodes are the leaf pool (literals, parameters, variables); operators    *)
(* are appended one at a time by the Add* actions, each operand slot       *)
(* ranging over ALL earlier nodes.  Emit closes a DAG whose last node is   *)
(* the root and prints the DAG with its expected observables.              *)
(*                                                                         *)
(* Node record: [op, kids, num, name, keys]                                *)
(*   Numeric        num = value                                            *)
(*   Beta           name = index in BetaTab                                *)
(*   Variable       name = index in VarTab                                 *)
(*   PowerConstant  kids = <<a>>, num = exponent                           *)
(*   BelongsTo      kids = <<a>>, keys = the set as a sequence of integers *)
(*                  (divided by num when num is not zero: halves)          *)
(*   Elem           kids = <<key, e1..en>>, keys = <<k1..kn>>              *)
(*   ConditionalSum kids = <<c1, t1, .., cn, tn>>                          *)
(*   bioMultSum     kids = operands                                        *)
(*   bioLinearUtility kids = <<beta1, var1, .., betan, varn>> (leaves)     *)
(*   _bioLogLogit   kids = <<choice, u1, av1, .., un, avn>>, keys = ids    *)
(*   _bioLogLogitFullChoiceSet  kids = <<choice, u1, .., un>>, keys = ids  *)
(*   unary / binary operators: kids = operands in order                    *)
(***************************************************************************)
EXTENDS Integers, Sequences, FiniteSets, TLC, Json, Term

NM == INSTANCE Names

CONSTANTS
    Leaves,     \* sequence of leaf node records
    BetaTab,    \* sequence of [name |-> code points, free |-> BOOLEAN, vals |-> <<value per parameter point>>]
    VarTab,     \* sequence of [name |-> code points, vals |-> <<value per row>>]
    DrawTab,    \* sequence of [name |-> code points, type |-> string, vals |-> <<per observation: <<value per draw>> >>]
    NRows, NPoints,
    NDraws,     \* number of draws (1 when the formulas have no draw variable)
    Panel,      \* << >>, or for panel data the individual 1..NU of every observation (contiguous blocks)
    Start,      \* set of starting node lists: {Leaves} for enumeration; or finished formulas proposed from outside
                \* (deep "flagship" shapes the enumeration cannot reach), which the specification only accepts if every
                \* node is inside its domain, and for which it computes the expected observables like for any other
    UnOps, BinOps, NaryOps,   \* operator alphabets (sets of class names)
    Exponents,  \* exponents offered to PowerConstant (rationals)
    KeySets,    \* sequences of integers offered as Elem keys / alternative ids / BelongsTo sets
    MaxOps,     \* maximal number of operator nodes
    Thin,       \* Thin[l] >= 1: at operator level l only candidates in one residue class mod Thin[l]
    Salt,       \*   (selected by Salt) are explored: "exhaustive modulo a residue class"; 1 = all
    Bound       \* magnitude bound on rational node values (keeps TLC inside 32 bits)

VARIABLES nodes, done
vars == <<nodes, done>>

Comparisons == {"Equal", "NotEqual", "LessOrEqual", "GreaterOrEqual", "Less", "Greater"}
Logical     == {"And", "Or"}
Discrete    == Comparisons \cup Logical \cup {"BelongsTo"}
Primitive1  == {"exp", "log", "sin", "cos", "bioNormalCdf", "logzero"}

Node(op, kids, num, name, keys) ==
    [op |-> op, kids |-> kids, num |-> num, name |-> name, keys |-> keys]
Un(op, a)      == Node(op, <<a>>, Zero, 0, << >>)
Bin(op, a, b)  == Node(op, <<a, b>>, Zero, 0, << >>)

\* A "row" is a pair (observation, draw), flattened: formulas with draw variables are evaluated for every
\* draw of every observation; the Monte-Carlo operator at the root averages over the draws of an observation.
Rows   == 1..(NRows * NDraws)
Obs    == 1..NRows
ObsOf(r)  == ((r - 1) \div NDraws) + 1
DrawOf(r) == ((r - 1) % NDraws) + 1
RowOf(o, d) == (o - 1) * NDraws + d
Points == 1..NPoints
NL     == Len(Leaves)
\* the unit of an observation: itself, or on panel data the individual it belongs to; draws are made per unit
IsPanel == Panel # << >>
UnitOf(o) == IF IsPanel THEN Panel[o] ELSE o
Units == {UnitOf(o) : o \in Obs}
ObsOfUnit(u) == {o \in Obs : UnitOf(o) = u}
FirstObs(u) == CHOOSE o \in ObsOfUnit(u) : \A o2 \in ObsOfUnit(u) : o <= o2
RECURSIVE SortedSeq(_)
SortedSeq(S) == IF S = {} THEN << >>
                ELSE LET m == CHOOSE x \in S : \A y \in S : x <= y IN <<m>> \o SortedSeq(S \ {m})
NOps(ns) == Len(ns) - NL

(***************************************************************************)
(* Identification: free parameters are numbered by the rank of their NAME. *)
(***************************************************************************)
FreeIdx   == {b \in 1..Len(BetaTab) : BetaTab[b].free}
FixedIdx  == {b \in 1..Len(BetaTab) : ~BetaTab[b].free}
FreeNames == {BetaTab[b].name : b \in FreeIdx}
FixedNames == {BetaTab[b].name : b \in FixedIdx}
K         == Cardinality(FreeIdx)
FreeRank(b)  == NM!Rank(BetaTab[b].name, FreeNames)    \* 0-based
FixedRank(b) == NM!Rank(BetaTab[b].name, FixedNames)
BetaAtRank(k) == CHOOSE b \in FreeIdx : FreeRank(b) = k

(***************************************************************************)
(* Meaning.                                                                *)
(***************************************************************************)
SeqToSet(s) == {s[i] : i \in 1..Len(s)}
IndexOf(s, x) == CHOOSE i \in 1..Len(s) : s[i] = x
\* positivity that can be read off the structure of a term: exponentials, and sums, products and quotients of
\* positive terms (sound, not complete: what it does not recognise is left out of the domain)
RECURSIVE Pos(_)
Pos(t) == IF IsQ(t) THEN t.n > 0
          ELSE CASE t.f = "exp" -> TRUE
                 [] t.f \in {"add", "mul", "div"} -> Pos(t.a[1]) /\ Pos(t.a[2])
                 [] OTHER -> FALSE
NonZero(t) == (IsQ(t) /\ t.n # 0) \/ (~IsQ(t) /\ Pos(t))
AsInt(t) == t.n     \* for integer-valued rationals

Cmp(op, a, b) ==
    CASE op = "Equal"          -> QEq(a, b)
      [] op = "NotEqual"       -> ~QEq(a, b)
      [] op = "LessOrEqual"    -> QLeq(a, b)
      [] op = "GreaterOrEqual" -> QLeq(b, a)
      [] op = "Less"           -> QLess(a, b)
      [] op = "Greater"        -> QLess(b, a)

PowVal(a, e) ==    \* a^e, e rational
    IF IsQ(a) /\ QIsInt(e) /\ Abs(e.n) <= 3 /\ (e.n >= 0 \/ a.n # 0)
    THEN QPowInt(a, e.n)
    ELSE App("pow", <<a, e>>)

\* value of an operator node n given the values V(j) of its operands
OpVal(n, V(_)) ==
  LET NK == Len(n.kids)
      hasAv == Len(n.kids) = 1 + 2 * Len(n.keys)     \* logit: availabilities among the operands
  IN
  CASE n.op = "Plus"     -> Add(V(1), V(2))
    [] n.op = "Minus"    -> Sub(V(1), V(2))
    [] n.op = "Times"    -> Mul(V(1), V(2))
    [] n.op = "Divide"   -> Div(V(1), V(2))
    [] n.op = "Power"    -> IF IsQ(V(2)) THEN PowVal(V(1), V(2)) ELSE App("pow", <<V(1), V(2)>>)
    [] n.op = "PowerConstant" -> PowVal(V(1), n.num)
    [] n.op = "UnaryMinus" -> Neg(V(1))
    [] n.op = "bioMin"   -> IF QLeq(V(1), V(2)) THEN V(1) ELSE V(2)
    [] n.op = "bioMax"   -> IF QLeq(V(1), V(2)) THEN V(2) ELSE V(1)
    [] n.op = "And"      -> Bool(V(1).n # 0 /\ V(2).n # 0)
    [] n.op = "Or"       -> Bool(V(1).n # 0 \/ V(2).n # 0)
    [] n.op \in Comparisons -> Bool(Cmp(n.op, V(1), V(2)))
    \* the set holds the numbers keys[j] / D, D = num (integers when num is left at zero): a set may hold non-integers
    [] n.op = "BelongsTo" -> LET D == IF IsZero(n.num) THEN One ELSE n.num
                             IN  Bool(\E k \in SeqToSet(n.keys) : QEq(V(1), QDiv(I(k), D)))
    [] n.op = "exp"      -> App("exp", <<V(1)>>)
    [] n.op = "log"      -> IF IsOne(V(1)) THEN Zero ELSE App("log", <<V(1)>>)
    [] n.op = "logzero"  -> IF IsZero(V(1)) \/ IsOne(V(1)) THEN Zero ELSE App("log", <<V(1)>>)
    [] n.op = "sin"      -> IF IsZero(V(1)) THEN Zero ELSE App("sin", <<V(1)>>)
    [] n.op = "cos"      -> IF IsZero(V(1)) THEN One ELSE App("cos", <<V(1)>>)
    [] n.op = "bioNormalCdf" -> IF IsZero(V(1)) THEN Q(1, 2) ELSE App("phi", <<V(1)>>)
    [] n.op = "bioMultSum" -> SumSeq([j \in 1..NK |-> V(j)])
    [] n.op = "Elem"     -> V(1 + IndexOf(n.keys, AsInt(V(1))))
    [] n.op = "ConditionalSum" ->
          SumSeq([j \in 1..(NK \div 2) |-> IF V(2 * j - 1).n # 0 THEN V(2 * j) ELSE Zero])
    [] n.op = "bioLinearUtility" ->
          SumSeq([j \in 1..(NK \div 2) |-> Mul(V(2 * j - 1), V(2 * j))])
    [] n.op \in {"_bioLogLogit", "_bioLogLogitFullChoiceSet"} ->
          LET c == IndexOf(n.keys, AsInt(V(1)))
              full == n.op = "_bioLogLogitFullChoiceSet"
              U(j) == IF hasAv THEN V(2 * j) ELSE V(1 + j)
              terms == [j \in 1..Len(n.keys) |->
                          IF full \/ V(2 * j + 1).n # 0 THEN App("exp", <<U(j)>>) ELSE Zero]
          IN  Sub(U(c), App("log", <<SumSeq(terms)>>))

RECURSIVE MulSeq(_)
MulSeq(sq) == IF sq = << >> THEN One ELSE Mul(Head(sq), MulSeq(Tail(sq)))

\* The meaning of node i on row r at point p, given the value V(j) of its j-th operand on the same row and
\* VR(k, r2), the value of node k on another row r2 (the binders Monte-Carlo and trajectory look across rows).
ValRule(ns, i, r, p, V(_), VR(_, _)) ==
  LET n == ns[i] IN
  CASE n.op = "Numeric"  -> n.num
    [] n.op = "Beta"     -> BetaTab[n.name].vals[p]
    [] n.op = "Variable" -> VarTab[n.name].vals[ObsOf(r)]
    [] n.op = "bioDraws" -> DrawTab[n.name].vals[UnitOf(ObsOf(r))][DrawOf(r)]   \* the r-th draw of ITS OWN series
    \* panel data: the product over the observations of the individual, draw by draw -- the same on
    \* every observation of the individual
    [] n.op = "PanelLikelihoodTrajectory" ->
          LET os == SortedSeq(ObsOfUnit(UnitOf(ObsOf(r)))) IN
          MulSeq([k \in 1..Len(os) |-> VR(n.kids[1], RowOf(os[k], DrawOf(r)))])
    \* Monte-Carlo inside a formula: the mean over the draws of the observation -- the same on every draw
    \* of that observation, so that whatever is built above it is a quantity of the observation
    [] n.op = "MonteCarlo" ->
          Div(SumSeq([d \in 1..NDraws |-> VR(n.kids[1], RowOf(ObsOf(r), d))]), I(NDraws))
    [] OTHER             -> OpVal(n, V)

RECURSIVE Val(_, _, _, _)
Val(ns, i, r, p) ==
  LET V(j) == Val(ns, ns[i].kids[j], r, p)
      VR(k, r2) == Val(ns, k, r2, p)
  IN  ValRule(ns, i, r, p, V, VR)

\* a draw variable that is not (on some path) below a Monte-Carlo operator
RECURSIVE Open(_, _)
Open(ns, i) == \/ ns[i].op = "bioDraws"
               \/ (ns[i].op # "MonteCarlo" /\ \E j \in 1..Len(ns[i].kids) : Open(ns, ns[i].kids[j]))
RECURSIVE HasOp(_, _, _)
HasOp(ns, i, op) == ns[i].op = op \/ \E j \in 1..Len(ns[i].kids) : HasOp(ns, ns[i].kids[j], op)
\* a data variable that is not (on some path) below the trajectory operator
RECURSIVE VarOpen(_, _)
VarOpen(ns, i) == \/ ns[i].op = "Variable"
                  \/ (ns[i].op # "PanelLikelihoodTrajectory" /\ \E j \in 1..Len(ns[i].kids) : VarOpen(ns, ns[i].kids[j]))

(***************************************************************************)
(* Domain of a node given its children (the property's "regular domain"),  *)
(* plus the magnitude bound that keeps TLC's arithmetic exact.             *)
(***************************************************************************)
\* V(j): the value of the j-th operand on the row under consideration
NodeOKV(ns, i, V(_)) ==
  LET n == ns[i]
      NK == Len(n.kids)
  IN
     CASE n.op = "Divide" -> NonZero(V(2))
       [] n.op = "Power"  -> Pos(V(1)) /\ (IsQ(V(2)) => (QIsInt(V(2)) /\ Abs(V(2).n) <= 3) \/ V(2).d <= 4)
       [] n.op = "PowerConstant" ->
             IF QIsInt(n.num) THEN (n.num.n >= 0 \/ NonZero(V(1))) ELSE Pos(V(1))
       [] n.op = "log" -> Pos(V(1))
       \* the library's rule: a Monte-Carlo operator has a draw to integrate and no other one below it
       [] n.op = "MonteCarlo" -> /\ Open(ns, n.kids[1]) /\ ~HasOp(ns, n.kids[1], "MonteCarlo")
                                 /\ (IsPanel => HasOp(ns, n.kids[1], "PanelLikelihoodTrajectory"))
       \* on panel data only; one trajectory operator, below the Monte-Carlo operator if there is one
       [] n.op = "PanelLikelihoodTrajectory" ->
             /\ IsPanel /\ ~HasOp(ns, n.kids[1], "PanelLikelihoodTrajectory") /\ ~HasOp(ns, n.kids[1], "MonteCarlo")
             /\ VarOpen(ns, n.kids[1])
             \* the operator is meant for probabilities: the library multiplies through exp(sum(log(.)))
             /\ Pos(V(1))
       [] n.op = "logzero" -> Pos(V(1)) \/ IsZero(V(1))
       [] n.op \in {"bioMin", "bioMax"} \cup Discrete -> \A j \in 1..NK : IsQ(V(j))
       [] n.op = "Elem" -> /\ IsQ(V(1)) /\ QIsInt(V(1)) /\ AsInt(V(1)) \in SeqToSet(n.keys)
       [] n.op = "ConditionalSum" -> \A j \in 1..(NK \div 2) : IsQ(V(2 * j - 1))
       [] n.op = "_bioLogLogitFullChoiceSet" ->
             IsQ(V(1)) /\ QIsInt(V(1)) /\ AsInt(V(1)) \in SeqToSet(n.keys)
       [] n.op = "_bioLogLogit" ->
             /\ IsQ(V(1)) /\ QIsInt(V(1)) /\ AsInt(V(1)) \in SeqToSet(n.keys)
             /\ \A j \in 1..Len(n.keys) : IsQ(V(2 * j + 1)) /\ V(2 * j + 1) \in {Zero, One}
             /\ V(2 * IndexOf(n.keys, AsInt(V(1))) + 1) = One
             \* degenerate sharing left out: a utility that is the very same node as an availability
             \* (the engine re-evaluates the node as an availability while it still holds a pointer
             \* to its derivatives as a utility: history-dependent Hessians were observed)
             /\ \A j, k \in 1..Len(n.keys) : n.kids[2 * j] # n.kids[2 * k + 1]
       [] OTHER -> TRUE

NodeOK(ns, i, r, p) ==
  LET V(j) == Val(ns, ns[i].kids[j], r, p) IN
  /\ NodeOKV(ns, i, V)
  /\ LET v == Val(ns, i, r, p) IN IsQ(v) => ~QBig(v, Bound)

\* the new last node is inside the domain on every row and parameter point
Admissible(ns) == \A r \in Rows, p \in Points : NodeOK(ns, Len(ns), r, p)

(***************************************************************************)
(* Dependence on free parameters, differentiability.                       *)
(***************************************************************************)
RECURSIVE FreeBelow(_, _)
FreeBelow(ns, i) ==
    IF ns[i].op = "Beta" THEN BetaTab[ns[i].name].free
    ELSE \E j \in 1..Len(ns[i].kids) : FreeBelow(ns, ns[i].kids[j])

RECURSIVE Reach(_, _)
Reach(ns, i) == {i} \cup UNION {Reach(ns, ns[i].kids[j]) : j \in 1..Len(ns[i].kids)}

\* The engine differentiates min/max, Elem, ConditionalSum, LogLogit, powers, phi, logzero;
\* it refuses comparisons, And/Or, BelongsTo when a free parameter occurs below them.
\* Selection positions (keys, conditions, choice, availabilities) are piecewise constant.
DiffNode(ns, i) ==
  LET n == ns[i]
      NK == Len(n.kids)
      F(j) == FreeBelow(ns, n.kids[j])
      V(j, r, p) == Val(ns, n.kids[j], r, p)
  IN
  CASE n.op = "BelongsTo" -> FALSE      \* refused by the engine whenever derivatives are requested
    [] n.op \in Discrete -> ~FreeBelow(ns, i)
    [] n.op = "Elem" -> ~F(1)
    [] n.op = "ConditionalSum" -> \A j \in 1..(NK \div 2) : ~F(2 * j - 1)
    [] n.op = "_bioLogLogitFullChoiceSet" -> ~F(1)
    [] n.op = "_bioLogLogit" -> ~F(1) /\ \A j \in 1..Len(n.keys) : ~F(2 * j + 1)
    [] n.op \in {"bioMin", "bioMax"} ->
          (F(1) \/ F(2)) => \A r \in Rows, p \in Points : ~QEq(V(1, r, p), V(2, r, p))
    [] n.op \in {"logzero", "PowerConstant"} ->
          F(1) => \A r \in Rows, p \in Points : NonZero(V(1, r, p))
    [] n.op = "Power" -> TRUE
    [] OTHER -> TRUE

Differentiable(ns, root) == \A i \in Reach(ns, root) : DiffNode(ns, i)

(***************************************************************************)
(* Derivatives: second-order forward mode ("jets") over terms.             *)
(* A jet is [v, g, h]: value, gradient (indexed 1..K by rank of the name   *)
(* of the free parameter + 1) and Hessian.  Built with the structural      *)
(* S-operators: TLC decides the calculus rule, the driver the arithmetic.  *)
(***************************************************************************)
KK == 1..K
ZeroG == [k \in KK |-> Zero]
ZeroH == [kl \in KK \X KK |-> Zero]
JConst(v) == [v |-> v, g |-> ZeroG, h |-> ZeroH]
JParam(v, k) == [v |-> v, g |-> [j \in KK |-> IF j = k THEN One ELSE Zero], h |-> ZeroH]
JAdd(x, y) == [v |-> SAdd(x.v, y.v),
               g |-> [k \in KK |-> SAdd(x.g[k], y.g[k])],
               h |-> [kl \in KK \X KK |-> SAdd(x.h[kl], y.h[kl])]]
JNeg(x) == [v |-> SNeg(x.v), g |-> [k \in KK |-> SNeg(x.g[k])], h |-> [kl \in KK \X KK |-> SNeg(x.h[kl])]]
JSub(x, y) == JAdd(x, JNeg(y))
JMul(x, y) ==
    [v |-> SMul(x.v, y.v),
     g |-> [k \in KK |-> SAdd(SMul(x.g[k], y.v), SMul(x.v, y.g[k]))],
     h |-> [kl \in KK \X KK |->
              SAdd(SAdd(SMul(x.h[kl], y.v), SMul(x.v, y.h[kl])),
                   SAdd(SMul(x.g[kl[1]], y.g[kl[2]]), SMul(x.g[kl[2]], y.g[kl[1]])))]]
\* chain rule through a scalar function with value f, first derivative f1, second derivative f2
JChain(f, f1, f2, x) ==
    [v |-> f,
     g |-> [k \in KK |-> SMul(f1, x.g[k])],
     h |-> [kl \in KK \X KK |->
              SAdd(SMul(f2, SMul(x.g[kl[1]], x.g[kl[2]])), SMul(f1, x.h[kl]))]]
JExp(x) == LET e == App("exp", <<x.v>>) IN JChain(e, e, e, x)
JLog(x) == JChain(App("log", <<x.v>>), SDiv(One, x.v), SNeg(SDiv(One, SMul(x.v, x.v))), x)
JSin(x) == JChain(App("sin", <<x.v>>), App("cos", <<x.v>>), SNeg(App("sin", <<x.v>>)), x)
JCos(x) == JChain(App("cos", <<x.v>>), SNeg(App("sin", <<x.v>>)), SNeg(App("cos", <<x.v>>)), x)
JPhi(x) == LET d == App("npdf", <<x.v>>) IN JChain(App("phi", <<x.v>>), d, SNeg(SMul(x.v, d)), x)
JInv(x) == JChain(SDiv(One, x.v), SNeg(SDiv(One, SMul(x.v, x.v))),
                  SDiv(I(2), SMul(x.v, SMul(x.v, x.v))), x)
JPowC(x, e) ==   \* x^e, e a rational constant
    JChain(App("pow", <<x.v, e>>),
           SMul(e, App("pow", <<x.v, QSub(e, One)>>)),
           SMul(QMul(e, QSub(e, One)), App("pow", <<x.v, QSub(e, I(2))>>)), x)
RECURSIVE JSumSeq(_)
JSumSeq(s) == IF s = << >> THEN JConst(Zero) ELSE JAdd(Head(s), JSumSeq(Tail(s)))

\* The jet of node i on row r: v its value, J(j) / V(j) the jet / value of its j-th operand on the same row,
\* JR(k, r2) the jet of node k on another row.
JetRule(ns, i, r, v, J(_), V(_), JR(_, _)) ==
  LET n == ns[i]
      NK == Len(n.kids)
      raw ==
        CASE n.op = "Beta" ->
               IF BetaTab[n.name].free THEN JParam(v, FreeRank(n.name) + 1) ELSE JConst(v)
          [] n.op \in {"Numeric", "Variable", "bioDraws"} \cup Discrete -> JConst(v)
          [] n.op = "Plus"  -> JAdd(J(1), J(2))
          [] n.op = "Minus" -> JSub(J(1), J(2))
          [] n.op = "Times" -> JMul(J(1), J(2))
          [] n.op = "Divide" -> JMul(J(1), JInv(J(2)))
          [] n.op = "Power" -> JExp(JMul(J(2), JLog(J(1))))
          [] n.op = "PowerConstant" -> JPowC(J(1), n.num)
          [] n.op = "UnaryMinus" -> JNeg(J(1))
          [] n.op = "bioMin" -> IF QLeq(V(1), V(2)) THEN J(1) ELSE J(2)
          [] n.op = "bioMax" -> IF QLeq(V(1), V(2)) THEN J(2) ELSE J(1)
          [] n.op = "exp" -> JExp(J(1))
          [] n.op = "log" -> JLog(J(1))
          [] n.op = "logzero" -> IF IsZero(V(1)) THEN JConst(Zero) ELSE JLog(J(1))
          [] n.op = "sin" -> JSin(J(1))
          [] n.op = "cos" -> JCos(J(1))
          [] n.op = "bioNormalCdf" -> JPhi(J(1))
          [] n.op = "bioMultSum" -> JSumSeq([j \in 1..NK |-> J(j)])
          [] n.op = "PanelLikelihoodTrajectory" ->
               LET os == SortedSeq(ObsOfUnit(UnitOf(ObsOf(r))))
                   RECURSIVE JP(_)
                   JP(k) == IF k > Len(os) THEN JConst(One)
                            ELSE IF k = Len(os) THEN JR(n.kids[1], RowOf(os[k], DrawOf(r)))
                            ELSE JMul(JR(n.kids[1], RowOf(os[k], DrawOf(r))), JP(k + 1))
               IN  JP(1)
          \* the derivative of a mean is the mean of the derivatives
          [] n.op = "MonteCarlo" ->
               LET JD(d) == JR(n.kids[1], RowOf(ObsOf(r), d)) IN
               [v |-> v,
                g |-> [k \in KK |-> SDiv(SSumSeq([d \in 1..NDraws |-> JD(d).g[k]]), I(NDraws))],
                h |-> [kl \in KK \X KK |-> SDiv(SSumSeq([d \in 1..NDraws |-> JD(d).h[kl]]), I(NDraws))]]
          [] n.op = "Elem" -> J(1 + IndexOf(n.keys, AsInt(V(1))))
          [] n.op = "ConditionalSum" ->
               JSumSeq([j \in 1..(NK \div 2) |-> IF V(2 * j - 1).n # 0 THEN J(2 * j) ELSE JConst(Zero)])
          [] n.op = "bioLinearUtility" ->
               JSumSeq([j \in 1..(NK \div 2) |-> JMul(J(2 * j - 1), J(2 * j))])
          [] n.op \in {"_bioLogLogit", "_bioLogLogitFullChoiceSet"} ->
               LET c == IndexOf(n.keys, AsInt(V(1)))
                   full == n.op = "_bioLogLogitFullChoiceSet"
                   JU(j) == IF full THEN J(1 + j) ELSE J(2 * j)
                   terms == [j \in 1..Len(n.keys) |->
                               IF full \/ V(2 * j + 1).n # 0 THEN JExp(JU(j)) ELSE JConst(Zero)]
               IN  JSub(JU(c), JLog(JSumSeq(terms)))
  IN [raw EXCEPT !.v = v]

RECURSIVE Jet(_, _, _, _)
Jet(ns, i, r, p) ==
  LET J(j) == Jet(ns, ns[i].kids[j], r, p)
      V(j) == Val(ns, ns[i].kids[j], r, p)
      JR(k, r2) == Jet(ns, k, r2, p)
  IN  JetRule(ns, i, r, Val(ns, i, r, p), J, V, JR)

(***************************************************************************)
(* The same meaning computed bottom-up, node after node on all rows at     *)
(* once (linear in the size of the formula; the recursive definitions      *)
(* above re-evaluate shared operands and are exponential in the depth).    *)
(* Used for the deep formulas proposed from outside; TabAgrees states that *)
(* both computations coincide and is checked on the enumerated formulas.   *)
(***************************************************************************)
\* TLC re-evaluates a LET definition at every use; binding through a one-element set evaluates it once.
Once(S) == CHOOSE x \in S : TRUE

\* [ok, t]: t[r] = the values of nodes 1..k on row r; ok = every node so far inside its domain
ValStep(ns, k, p, prev) ==
  IF ~prev.ok THEN prev
  ELSE IF ~\A r \in Rows : NodeOKV(ns, k, LAMBDA j : prev.t[r][ns[k].kids[j]]) THEN [prev EXCEPT !.ok = FALSE]
  ELSE Once({[ok |-> \A r \in Rows : IsQ(t[r][k]) => ~QBig(t[r][k], Bound), t |-> t] :
               t \in {[r \in Rows |->
                        Append(prev.t[r], ValRule(ns, k, r, p, LAMBDA j : prev.t[r][ns[k].kids[j]],
                                                  LAMBDA kid, r2 : prev.t[r2][kid]))]}})
RECURSIVE ValTab(_, _, _)
ValTab(ns, k, p) ==
  IF k = 0 THEN [ok |-> TRUE, t |-> [r \in Rows |-> << >>]]
  ELSE Once({ValStep(ns, k, p, prev) : prev \in {ValTab(ns, k - 1, p)}})
\* t[r] = the jets of nodes 1..k on row r, given the table of values vt
JetStep(ns, k, vt, prev) ==
  [r \in Rows |->
      Append(prev[r], JetRule(ns, k, r, vt[r][k], LAMBDA j : prev[r][ns[k].kids[j]],
                              LAMBDA j : vt[r][ns[k].kids[j]], LAMBDA kid, r2 : prev[r2][kid]))]
RECURSIVE JetTab(_, _, _)
JetTab(ns, k, vt) ==
  IF k = 0 THEN [r \in Rows |-> << >>]
  ELSE Once({JetStep(ns, k, vt, prev) : prev \in {JetTab(ns, k - 1, vt)}})

(***************************************************************************)
(* What crosses the engine boundary: the signature (post-order lines, by   *)
(* INDEX) and the tables; EvalSig is what the engine is told to compute.   *)
(***************************************************************************)
\* post-order list of the nodes reachable from root, each once (first visit)
RECURSIVE PostOrderFrom(_, _, _)
PostOrderFrom(ns, i, seen) ==   \* returns the sequence of new nodes, given the sequence `seen`
    IF \E q \in 1..Len(seen) : seen[q] = i THEN seen
    ELSE LET RECURSIVE Kids(_, _)
             Kids(j, acc) == IF j > Len(ns[i].kids) THEN acc
                             ELSE Kids(j + 1, PostOrderFrom(ns, ns[i].kids[j], acc))
         IN  Append(Kids(1, seen), i)
PostOrder(ns, root) == PostOrderFrom(ns, root, << >>)

\* The tables are built from the parameters that OCCUR in the formulas handed over together.
OccFree(ns, roots)  == {b \in FreeIdx  : \E rt \in roots : \E i \in Reach(ns, rt) : ns[i].op = "Beta" /\ ns[i].name = b}
OccFixed(ns, roots) == {b \in FixedIdx : \E rt \in roots : \E i \in Reach(ns, rt) : ns[i].op = "Beta" /\ ns[i].name = b}
NamesOf(S) == {BetaTab[b].name : b \in S}
OccDraws(ns, roots) == {dv \in 1..Len(DrawTab) : \E rt \in roots : \E i \in Reach(ns, rt) : ns[i].op = "bioDraws" /\ ns[i].name = dv}
DrawRankIn(dv, S) == NM!Rank(DrawTab[dv].name, {DrawTab[w].name : w \in S})
DrawAtRank(k, S) == CHOOSE dv \in S : DrawRankIn(dv, S) = k
RankIn(b, S) == NM!Rank(BetaTab[b].name, NamesOf(S))       \* 0-based rank of b's name inside S
AtRankIn(k, S) == CHOOSE b \in S : RankIn(b, S) = k

\* elementary index: position in the concatenation free betas, fixed betas, (random variables,
\* draws: none here), database columns -- each group in name order except columns (table order)
SigLine(ns, i, oF, oX, oD) ==
    LET n == ns[i] IN
    [id |-> i, op |-> n.op, kids |-> n.kids, num |-> n.num, keys |-> n.keys,
     elem |-> IF n.op = "Beta"
              THEN (IF BetaTab[n.name].free THEN RankIn(n.name, oF) ELSE Cardinality(oF) + RankIn(n.name, oX))
              ELSE IF n.op = "bioDraws" THEN Cardinality(oF) + Cardinality(oX) + DrawRankIn(n.name, oD)
              ELSE IF n.op = "Variable" THEN Cardinality(oF) + Cardinality(oX) + Cardinality(oD) + (n.name - 1) ELSE -1,
     kind |-> IF n.op = "Beta" THEN (IF BetaTab[n.name].free THEN RankIn(n.name, oF) ELSE RankIn(n.name, oX))
              ELSE IF n.op = "bioDraws" THEN DrawRankIn(n.name, oD)
              ELSE IF n.op = "Variable" THEN n.name - 1 ELSE -1,
     free |-> n.op = "Beta" /\ BetaTab[n.name].free]
Sig(ns, root) ==
    LET po == PostOrder(ns, root)
        oF == OccFree(ns, {root})
        oX == OccFixed(ns, {root})
        oD == OccDraws(ns, {root})
    IN  [q \in 1..Len(po) |-> SigLine(ns, po[q], oF, oX, oD)]

Tables(ns, roots, p, r) ==
    LET oF == OccFree(ns, roots)
        oX == OccFixed(ns, roots)
    IN  [free  |-> [k \in 1..Cardinality(oF) |-> BetaTab[AtRankIn(k - 1, oF)].vals[p]],
         fixed |-> [k \in 1..Cardinality(oX) |-> BetaTab[AtRankIn(k - 1, oX)].vals[p]],
         draws |-> LET oD == OccDraws(ns, roots) IN
                   [k \in 1..Cardinality(oD) |-> DrawTab[DrawAtRank(k - 1, oD)].vals[UnitOf(ObsOf(r))][DrawOf(r)]],
         row   |-> [x \in 1..Len(VarTab) |-> VarTab[x].vals[ObsOf(r)]]]

\* Evaluate signature lines, keeping an id -> line table; leaves are read BY INDEX from the tables.
LineNode(l, pos) ==   \* pos: id -> position among the lines
    [op |-> l.op, kids |-> [j \in 1..Len(l.kids) |-> pos[l.kids[j]]], num |-> l.num,
     name |-> 0, keys |-> l.keys, elem |-> l.elem, kind |-> l.kind, free |-> l.free]

\* tabs[o][d]: one table per observation and draw (a single one for a row-wise formula); (o, d): the current row
RECURSIVE EvalLine(_, _, _, _, _)
EvalLine(ls, q, tabs, o, d) ==
  LET n == ls[q]
      tab == tabs[o][d]
      V(j) == EvalLine(ls, n.kids[j], tabs, o, d)
  IN
  CASE n.op = "Numeric"  -> n.num
    [] n.op = "Beta"     -> IF n.free THEN tab.free[n.kind + 1] ELSE tab.fixed[n.kind + 1]
    [] n.op = "Variable" -> tab.row[n.kind + 1]
    [] n.op = "bioDraws" -> tab.draws[n.kind + 1]
    [] n.op = "MonteCarlo" ->
          Div(SumSeq([e \in 1..Len(tabs[o]) |-> EvalLine(ls, n.kids[1], tabs, o, e)]), I(Len(tabs[o])))
    [] n.op = "PanelLikelihoodTrajectory" ->
          LET os == SortedSeq(ObsOfUnit(UnitOf(o))) IN
          MulSeq([k \in 1..Len(os) |-> EvalLine(ls, n.kids[1], tabs, os[k], d)])
    [] OTHER             -> OpVal(n, V)

\* well-formedness of a signature: one line per id, children defined before use
SigWellFormed(sig) ==     \* a shared node may be listed again, with the same line
    /\ \A q1, q2 \in 1..Len(sig) : sig[q1].id = sig[q2].id => sig[q1] = sig[q2]
    /\ \A q \in 1..Len(sig) : \A j \in 1..Len(sig[q].kids) :
          \E q0 \in 1..(q - 1) : sig[q0].id = sig[q].kids[j]

EvalSigD(sig, tabs, o, d) ==
    LET ids == {sig[q].id : q \in 1..Len(sig)}
        pos == [x \in ids |-> CHOOSE q \in 1..Len(sig) : sig[q].id = x /\ \A q2 \in 1..(q - 1) : sig[q2].id # x]
        ls  == [q \in 1..Len(sig) |-> LineNode(sig[q], pos)]
    IN  EvalLine(ls, Len(ls), tabs, o, d)
EvalSig(sig, tab) == EvalSigD(sig, <<<<tab>>>>, 1, 1)

(***************************************************************************)
(* Generator.                                                              *)
(***************************************************************************)
Init == nodes \in Start /\ done = FALSE

CanAdd == ~done /\ NOps(nodes) < MaxOps
Idx == 1..Len(nodes)
AllOpNames == <<"Plus", "Minus", "Times", "Divide", "Power", "bioMin", "bioMax", "And", "Or",
                "Equal", "NotEqual", "LessOrEqual", "GreaterOrEqual", "Less", "Greater",
                "UnaryMinus", "exp", "log", "logzero", "sin", "cos", "bioNormalCdf", "PowerConstant",
                "bioMultSum", "BelongsTo", "Elem", "ConditionalSum", "bioLinearUtility",
                "_bioLogLogit", "_bioLogLogitFullChoiceSet", "MonteCarlo", "PanelLikelihoodTrajectory">>
RECURSIVE HashSeq(_, _)
HashSeq(sq, acc) == IF sq = << >> THEN acc ELSE HashSeq(Tail(sq), (acc * 31 + Head(sq) + 7) % 1000003)
Hash(n) == HashSeq(n.keys, HashSeq(n.kids, (IndexOf(AllOpNames, n.op) * 131 + Abs(n.num.n) * 17 + n.num.d) % 1000003))
\* the modulus grows with the number of operand slots, so that operators with many slots do not
\* swamp the sample: about the same number of candidates survives per operator kind
Accept(n, lvl) == LET b == Thin[IF lvl <= Len(Thin) THEN lvl ELSE Len(Thin)]
                      m == IPow(b, IF Len(n.kids) <= 5 THEN Len(n.kids) - 1 ELSE 4)
                  IN  b = 1 \/ (Hash(n) + Salt) % m = 0
\* at the last level the new node must consume every operator node that is still unused
Unused(ns) == {i \in (NL + 1)..Len(ns) :
                 ~\E j \in (i + 1)..Len(ns) : \E q \in 1..Len(ns[j].kids) : ns[j].kids[q] = i}
Useful(n) == (NOps(nodes) + 1 = MaxOps) => Unused(nodes) \subseteq SeqToSet(n.kids)
\* The guards are evaluated as ONE boolean (IF condition): written as conjuncts of the action, TLC would
\* split on every disjunction inside them (2^(rows x points) evaluations of the same successor).
Try(n) == LET ns == Append(nodes, n) IN
          IF Useful(n) /\ Accept(n, NOps(nodes) + 1) /\ Admissible(ns)
          THEN nodes' = ns /\ UNCHANGED done
          ELSE FALSE

AddUnary == CanAdd /\ \E o \in UnOps, a \in Idx :
               IF o = "PowerConstant"
               THEN \E e \in Exponents : Try(Node(o, <<a>>, e, 0, << >>))
               ELSE Try(Un(o, a))
AddBinary == CanAdd /\ \E o \in BinOps, a, b \in Idx : Try(Bin(o, a, b))

IsBetaLeaf(i) == nodes[i].op = "Beta"
IsVarLeaf(i)  == nodes[i].op = "Variable"

\* cheap slot filters, applied before the full admissibility test (they are implied by it)
AllQ(i)   == \A r \in Rows, p \in Points : IsQ(Val(nodes, i, r, p))
Is01(i)   == \A r \in Rows, p \in Points : Val(nodes, i, r, p) \in {Zero, One}
IsKey(i, ks) == \A r \in Rows, p \in Points :
                   LET v == Val(nodes, i, r, p) IN IsQ(v) /\ QIsInt(v) /\ v.n \in SeqToSet(ks)

AddNary == CanAdd /\
    \/ "bioMultSum" \in NaryOps /\ \E a, b \in Idx : Try(Node("bioMultSum", <<a, b>>, Zero, 0, << >>))
    \/ "bioMultSum3" \in NaryOps /\ \E a, b, c \in Idx : Try(Node("bioMultSum", <<a, b, c>>, Zero, 0, << >>))
    \/ "BelongsTo" \in NaryOps /\ \E a \in Idx : AllQ(a) /\ \E ks \in KeySets : Try(Node("BelongsTo", <<a>>, Zero, 0, ks))
    \/ "BelongsToHalf" \in NaryOps /\ \E a \in Idx : AllQ(a) /\ \E ks \in KeySets : Try(Node("BelongsTo", <<a>>, I(2), 0, ks))
    \/ "Elem" \in NaryOps /\ \E ks \in KeySets : Len(ks) = 2 /\ \E key \in Idx : IsKey(key, ks) /\
          \E a, b \in Idx : Try(Node("Elem", <<key, a, b>>, Zero, 0, ks))
    \/ "ConditionalSum" \in NaryOps /\ \E c1 \in Idx : AllQ(c1) /\ \E c2 \in Idx : AllQ(c2) /\
          \E t1, t2 \in Idx : Try(Node("ConditionalSum", <<c1, t1, c2, t2>>, Zero, 0, << >>))
    \/ "bioLinearUtility" \in NaryOps /\ \E b1, b2 \in {i \in 1..NL : IsBetaLeaf(i)} :
          \E v1, v2 \in {i \in 1..NL : IsVarLeaf(i)} :
             Try(Node("bioLinearUtility", <<b1, v1, b2, v2>>, Zero, 0, << >>))
    \/ "_bioLogLogit" \in NaryOps /\ \E ks \in KeySets : Len(ks) = 2 /\ \E ch \in Idx : IsKey(ch, ks) /\
          \E a1 \in Idx : Is01(a1) /\ \E a2 \in Idx : Is01(a2) /\
             \E u1, u2 \in Idx : Try(Node("_bioLogLogit", <<ch, u1, a1, u2, a2>>, Zero, 0, ks))
    \/ "_bioLogLogitFullChoiceSet" \in NaryOps /\ \E ks \in KeySets : Len(ks) = 2 /\
          \E ch \in Idx : IsKey(ch, ks) /\
             \E u1, u2 \in Idx : Try(Node("_bioLogLogitFullChoiceSet", <<ch, u1, u2>>, Zero, 0, ks))

\* every operator node but the root is used by a later node
AllUsed(ns) == \A i \in (NL + 1)..(Len(ns) - 1) :
                  \E j \in (i + 1)..Len(ns) : \E q \in 1..Len(ns[j].kids) : ns[j].kids[q] = i

\* when the Monte-Carlo operator is among the operators, a finished formula has no draw left open
\* (otherwise the driver puts the operator at the root: Emitted.closed tells which)
\* a formula proposed from outside is accepted only if every node is admissible given the nodes before it
Proposed == NOps(nodes) >= 1 /\ nodes \in Start
ProposalOK == \A p \in Points : ValTab(nodes, Len(nodes), p).ok
Emit == ~done /\ NOps(nodes) >= 1 /\ AllUsed(nodes) /\ (Proposed => ProposalOK)
        /\ ("MonteCarlo" \in UnOps => ~Open(nodes, Len(nodes)) /\ (Proposed \/ HasOp(nodes, Len(nodes), "MonteCarlo")))
        \* on panel data a finished formula has its data variables below its one trajectory operator
        /\ (IsPanel => /\ ~VarOpen(nodes, Len(nodes)) /\ ~Open(nodes, Len(nodes))
                        /\ Cardinality({i \in Reach(nodes, Len(nodes)) : nodes[i].op = "PanelLikelihoodTrajectory"}) = 1)
        /\ done' = TRUE /\ UNCHANGED nodes

Next == AddUnary \/ AddBinary \/ AddNary \/ Emit
Spec == Init /\ [][Next]_vars

(***************************************************************************)
(* Properties checked by TLC on the model itself.                          *)
(***************************************************************************)
Root == Len(nodes)

\* C01, design level: the signature and the tables are sufficient and correctly indexed
SigSound == done =>
    /\ SigWellFormed(Sig(nodes, Root))
    /\ \A r \in Rows, p \in Points :
          EvalSigD(Sig(nodes, Root), [o \in Obs |-> [d \in 1..NDraws |-> Tables(nodes, {Root}, p, RowOf(o, d))]], ObsOf(r), DrawOf(r))
              = Val(nodes, Root, r, p)

\* the numbering is by name: ranks form 0..K-1, and do not depend on the order of BetaTab
NumberingByName ==
    /\ {FreeRank(b) : b \in FreeIdx} = 0..(K - 1)
    /\ \A a, b \in FreeIdx : NM!Less(BetaTab[a].name, BetaTab[b].name) <=> FreeRank(a) < FreeRank(b)
    /\ NM!TotalOrderOn(FreeNames \cup FixedNames)

\* gradient entries of a parameter that does not occur below the root are structurally zero
GradSupport == done /\ Differentiable(nodes, Root) =>
    \A r \in Rows, p \in Points : \A b \in FreeIdx :
        (~\E i \in Reach(nodes, Root) : nodes[i].op = "Beta" /\ nodes[i].name = b)
            => IsZero(Jet(nodes, Root, r, p).g[FreeRank(b) + 1])

\* the Hessian is symmetric as a structure
HessSym == done /\ Differentiable(nodes, Root) =>
    \A r \in Rows, p \in Points :
        LET j == Jet(nodes, Root, r, p) IN
        \A k, l \in KK : IsZero(j.h[<<k, l>>]) <=> IsZero(j.h[<<l, k>>])

(***************************************************************************)
(* Emission of finished DAGs with their expected observables.              *)
(***************************************************************************)
\* compact JSON form of a value: rational = <<n, d>>, application = [f, a]
RECURSIVE Compact(_)
Compact(t) == IF IsQ(t) THEN <<t.n, t.d>>
              ELSE [f |-> t.f, a |-> [j \in 1..Len(t.a) |-> Compact(t.a[j])]]
CompactNode(n) == [op |-> n.op, kids |-> n.kids, num |-> <<n.num.n, n.num.d>>, name |-> n.name, keys |-> n.keys]

\* the free parameters a formula knows are those that occur in it; entry k of its gradient
\* belongs to the k-th of THEIR names.  FreeOcc maps local position -> global rank + 1.
FreeOccSet(ns, root) == {b \in FreeIdx : \E i \in Reach(ns, root) : ns[i].op = "Beta" /\ ns[i].name = b}
FreeOcc(ns, root) ==
    LET occ == FreeOccSet(ns, root)
        nms == {BetaTab[b].name : b \in occ}
    IN  [k \in 1..Cardinality(occ) |->
            FreeRank(CHOOSE b \in occ : NM!Rank(BetaTab[b].name, nms) = k - 1) + 1]

EmitUnits == 1..Cardinality(Units)      \* units are numbered 1..NU
\* VT, JT: the bottom-up tables per point (proposed formulas), or << >> (enumerated formulas: recursive definitions)
EmittedWith(diff, VT, JT) ==
    LET EV(r, p) == IF Proposed THEN VT[p][r][Root] ELSE Val(nodes, Root, r, p)
        EJ(r, p) == IF Proposed THEN JT[p][r][Root] ELSE Jet(nodes, Root, r, p)
    IN
    [ops |-> [i \in 1..NOps(nodes) |-> CompactNode(nodes[NL + i])],
     root |-> Root, nleaves |-> NL, diff |-> diff, freeocc |-> FreeOcc(nodes, Root),
     closed |-> ~Open(nodes, Root),
     \* per OBSERVATION: the value, or with draws the Monte-Carlo mean over the draws of that observation
     \* (on panel data: per INDIVIDUAL)
     vals |-> [u \in EmitUnits |-> [p \in Points |->
                 IF NDraws = 1 \/ ~Open(nodes, Root) THEN Compact(EV(RowOf(FirstObs(u), 1), p))
                 ELSE Compact(Div(SumSeq([d \in 1..NDraws |-> EV(RowOf(FirstObs(u), d), p)]), I(NDraws)))]],
     table |-> [u \in EmitUnits |-> [d \in 1..NDraws |-> LET oD == OccDraws(nodes, {Root}) IN
                 [k \in 1..Cardinality(oD) |-> Compact(DrawTab[DrawAtRank(k - 1, oD)].vals[u][d])]]],
     jets |-> IF diff
              THEN [u \in EmitUnits |-> [p \in Points |->
                      IF NDraws = 1 \/ ~Open(nodes, Root)
                      THEN LET j == EJ(RowOf(FirstObs(u), 1), p) IN
                           [g |-> [k \in KK |-> Compact(j.g[k])],
                            h |-> [k \in KK |-> [l \in KK |-> Compact(j.h[<<k, l>>])]]]
                      ELSE [g |-> [k \in KK |-> Compact(SDiv(SSumSeq([d \in 1..NDraws |-> EJ(RowOf(FirstObs(u), d), p).g[k]]), I(NDraws)))],
                            h |-> [k \in KK |-> [l \in KK |->
                                     Compact(SDiv(SSumSeq([d \in 1..NDraws |-> EJ(RowOf(FirstObs(u), d), p).h[<<k, l>>]]), I(NDraws)))]]]]]
              ELSE << >>]
Emitted ==
    IF ~Proposed THEN EmittedWith(Differentiable(nodes, Root), << >>, << >>)
    ELSE Once(UNION {{EmittedWith(diff, vt, jt) :
                         jt \in {IF diff THEN [p \in Points |-> JetTab(nodes, Len(nodes), vt[p])] ELSE << >>}} :
                     vt \in {[p \in Points |-> ValTab(nodes, Len(nodes), p).t]}, diff \in {Differentiable(nodes, Root)}})
\* the bottom-up computation coincides with the recursive definitions
TabAgrees == done =>
    \A p \in Points :
        LET vt == ValTab(nodes, Len(nodes), p) IN
        /\ vt.ok
        /\ \A r \in Rows : vt.t[r][Root] = Val(nodes, Root, r, p)
        /\ Differentiable(nodes, Root) =>
              LET jt == JetTab(nodes, Len(nodes), vt.t) IN
              \A r \in Rows : jt[r][Root] = Jet(nodes, Root, r, p)

EmitInv == done => PrintT(ToJson(Emitted))
=============================================================================
