------------------------------- MODULE Term -------------------------------
(***************************************************************************)
(* Numbers of the specifications.  A value is either an exact rational     *)
(*   [k |-> "q", n |-> num, d |-> den]   (den > 0, gcd = 1)                *)
(* or the application of an uninterpreted primitive to values              *)
(*   [k |-> "f", f |-> name, a |-> <<args>>].                              *)
(* Arithmetic on two rationals folds; anything touching a primitive stays  *)
(* a term.  TLC never sees a float: the primitives (exp, log, sin, cos,    *)
(* phi, pow, sqrt, ...) are interpreted only by the Python driver.         *)
(* The S* operators build terms WITHOUT folding (except 0/1 laws); they    *)
(* are used for derivatives, whose intermediate rationals could overflow   *)
(* TLC's 32-bit integers: there TLC decides the structure, the driver does *)
(* the exact arithmetic with fractions.                                    *)
(***************************************************************************)
EXTENDS Integers, Sequences

Abs(x) == IF x < 0 THEN -x ELSE x

RECURSIVE Gcd(_, _)
Gcd(a, b) == IF b = 0 THEN Abs(a) ELSE Gcd(b, a % b)

Q(n, d) == LET s == IF d < 0 THEN -1 ELSE 1
               g == Gcd(Abs(n), Abs(d))
           IN  [k |-> "q", n |-> (s * n) \div g, d |-> (s * d) \div g]
I(n)  == [k |-> "q", n |-> n, d |-> 1]
Zero  == I(0)
One   == I(1)
IsQ(t)    == t.k = "q"
IsZero(t) == IsQ(t) /\ t.n = 0
IsOne(t)  == IsQ(t) /\ t.n = 1 /\ t.d = 1
App(f, args) == [k |-> "f", f |-> f, a |-> args]

\* exact rational arithmetic (arguments must be rationals)
QAdd(x, y) == Q(x.n * y.d + y.n * x.d, x.d * y.d)
QNeg(x)    == [k |-> "q", n |-> -x.n, d |-> x.d]
QSub(x, y) == QAdd(x, QNeg(y))
QMul(x, y) == Q(x.n * y.n, x.d * y.d)
QInv(x)    == Q(x.d, x.n)
QDiv(x, y) == QMul(x, QInv(y))
QLess(x, y) == x.n * y.d < y.n * x.d
QLeq(x, y)  == x.n * y.d <= y.n * x.d
QEq(x, y)   == x.n = y.n /\ x.d = y.d
QSign(x)    == IF x.n > 0 THEN 1 ELSE IF x.n < 0 THEN -1 ELSE 0
QIsInt(x)   == x.d = 1
RECURSIVE IPow(_, _)
IPow(b, e) == IF e = 0 THEN 1 ELSE b * IPow(b, e - 1)
QPowInt(x, e) == IF e >= 0 THEN Q(IPow(x.n, e), IPow(x.d, e))
                 ELSE Q(IPow(x.d, -e), IPow(x.n, -e))
QBig(x, bound) == Abs(x.n) > bound \/ x.d > bound

\* folding arithmetic on values
Add(x, y) == IF IsQ(x) /\ IsQ(y) THEN QAdd(x, y)
             ELSE IF IsZero(x) THEN y ELSE IF IsZero(y) THEN x
             ELSE App("add", <<x, y>>)
Neg(x)    == IF IsQ(x) THEN QNeg(x) ELSE App("neg", <<x>>)
Sub(x, y) == IF IsQ(x) /\ IsQ(y) THEN QSub(x, y)
             ELSE IF IsZero(y) THEN x
             ELSE App("sub", <<x, y>>)
Mul(x, y) == IF IsQ(x) /\ IsQ(y) THEN QMul(x, y)
             ELSE IF IsZero(x) \/ IsZero(y) THEN Zero
             ELSE IF IsOne(x) THEN y ELSE IF IsOne(y) THEN x
             ELSE App("mul", <<x, y>>)
Div(x, y) == IF IsQ(x) /\ IsQ(y) THEN QDiv(x, y)
             ELSE IF IsZero(x) THEN Zero
             ELSE IF IsOne(y) THEN x
             ELSE App("div", <<x, y>>)
Bool(b)   == IF b THEN One ELSE Zero

\* structure-only arithmetic (no folding of rationals; 0/1 laws only)
SAdd(x, y) == IF IsZero(x) THEN y ELSE IF IsZero(y) THEN x ELSE App("add", <<x, y>>)
SNeg(x)    == IF IsZero(x) THEN Zero ELSE App("neg", <<x>>)
SSub(x, y) == IF IsZero(y) THEN x ELSE IF IsZero(x) THEN SNeg(y) ELSE App("sub", <<x, y>>)
SMul(x, y) == IF IsZero(x) \/ IsZero(y) THEN Zero
              ELSE IF IsOne(x) THEN y ELSE IF IsOne(y) THEN x
              ELSE App("mul", <<x, y>>)
SDiv(x, y) == IF IsZero(x) THEN Zero ELSE IF IsOne(y) THEN x ELSE App("div", <<x, y>>)

RECURSIVE SSumSeq(_)
SSumSeq(s) == IF s = << >> THEN Zero ELSE SAdd(Head(s), SSumSeq(Tail(s)))
RECURSIVE SumSeq(_)
SumSeq(s) == IF s = << >> THEN Zero ELSE Add(Head(s), SumSeq(Tail(s)))
=============================================================================
