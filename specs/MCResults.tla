------------------------------ MODULE MCResults ------------------------------
(***************************************************************************)
(* Model-checking instances of Results: the finite families of raw         *)
(* outcomes that TLC enumerates (quick: every scalar configuration on one  *)
(* default matrix configuration per K, and every matrix configuration on   *)
(* two scalar configurations; thorough: the full product, and every        *)
(* negative semi-definite Hessian with small integer entries).             *)
(* MC_Rat*: the rational family -- Hessians hs * H and BHHH bs * B whose   *)
(* entries (thirds, sevenths, tenths, ...) are not binary floating-point   *)
(* numbers, including singular matrices whose rounded image is NOT exactly *)
(* singular (an LU factorisation of it meets no zero pivot).               *)
(***************************************************************************)
EXTENDS Results

No      == [ex |-> FALSE, v |-> Zero]
Yes(x)  == [ex |-> TRUE, v |-> x]
NoBoot  == [ex |-> FALSE, r |-> << >>]
Boot(r) == [ex |-> TRUE, r |-> r]

\* H, B: records [m |-> integer matrix, s |-> rational scale > 0]
OutcomeS(id, sc, th, H, B, boot) ==
    [id |-> id, K |-> Len(th.v), names |-> th.names, theta |-> th.v, lb |-> th.lb, ub |-> th.ub,
     N |-> sc.N, nobs |-> sc.nobs, excl |-> sc.excl, L |-> sc.L, L0 |-> sc.L0, Ln |-> sc.Ln,
     g |-> th.g, H |-> H.m, hs |-> H.s, B |-> B.m, bs |-> B.s, boot |-> boot, mc |-> sc.mc]
Sc(M, s) == [m |-> M, s |-> s]
Outcome(id, sc, th, H, B, boot) == OutcomeS(id, sc, th, Sc(H, One), Sc(B, One), boot)

(* ---------------- scalar configurations ---------------- *)
Scal(L, L0, Ln, N) == [L |-> L, L0 |-> L0, Ln |-> Ln, N |-> N,
                       nobs |-> IF N = 7 THEN 10 ELSE N,          \* panel-like: observations # sample size
                       excl |-> IF N = 2 THEN 3 ELSE 0,
                       mc |-> N = 100]
MC_Scalars == { Scal(L, L0, Ln, N) :
                  L \in {I(-5), Q(-23, 2)}, L0 \in {No, Yes(I(-12)), Yes(I(-5))},
                  Ln \in {No, Yes(I(-20))}, N \in {1, 2, 7, 100} }
MC_ScalarsMid == { sc \in MC_Scalars : sc.N \in {2, 100} }
MC_ScalarsTwo == { Scal(I(-5), Yes(I(-12)), No, 7), Scal(Q(-23, 2), No, Yes(I(-20)), 100) }
MC_ScalarsOne == { Scal(Q(-23, 2), Yes(I(-12)), Yes(I(-20)), 7) }

(* ---------------- estimates, bounds, gradient ---------------- *)
N1 == <<"b2">>
N2 == <<"B10", "b2">>
N3 == <<"B10", "a_1", "b2">>      \* Python order: "B10" < "a_1" < "b2"
N2L == <<"beta_time_B10", "beta_time_b2">>   \* long names that share their first ten characters (the F12 report shows ten)
Th(names, v, lb, ub, g) == [names |-> names, v |-> v, lb |-> lb, ub |-> ub, g |-> g]
MC_Theta1 == { Th(N1, <<Q(1, 2)>>, <<No>>, <<No>>, <<2>>),
               Th(N1, <<I(0)>>, <<Yes(I(0))>>, <<No>>, <<0>>),                 \* on its lower bound
               Th(N1, <<I(-3)>>, <<No>>, <<Yes(I(5))>>, <<-1>>) }
MC_Theta2 == { Th(N2, <<I(2), Q(-1, 2)>>, <<No, No>>, <<No, No>>, <<3, -4>>),
               Th(N2, <<I(1), I(1)>>, <<Yes(I(-10)), No>>, <<No, Yes(I(1))>>, <<0, 0>>),    \* equal estimates, upper bound active
               Th(N2L, <<I(3), Q(-1, 4)>>, <<No, No>>, <<No, No>>, <<1, -2>>) }
MC_Theta3 == { Th(N3, <<I(0), Q(3, 2), I(-2)>>, <<No, No, No>>, <<No, No, No>>, <<1, 2, -2>>),
               Th(N3, <<Q(1, 2), Q(1, 2), I(3)>>, <<Yes(Q(1, 2)), No, No>>, <<No, No, Yes(I(10))>>, <<0, 0, 0>>) }
MC_Theta(K) == IF K = 1 THEN MC_Theta1 ELSE IF K = 2 THEN MC_Theta2 ELSE MC_Theta3

(* ---------------- Hessians ---------------- *)
MC_H1 == { << <<-2>> >>, << <<-1>> >>, << <<0>> >>,
           << <<1>> >> }                                                   \* not a maximum: negative variance
MC_H2 == { << <<-1, 0>>, <<0, -2>> >>,                                     \* negative definite, diagonal
           << <<-2, 1>>, <<1, -2>> >>,                                     \* negative definite
           << <<0, 0>>, <<0, 0>> >>,                                       \* zero
           << <<-2, 0>>, <<0, 0>> >>,                                      \* diagonal with a zero
           << <<-1, -1>>, <<-1, -1>> >>,                                   \* rank one
           << <<-1, 2>>, <<2, -1>> >> }                                    \* indefinite, regular
MC_H3 == { << <<-1, 0, 0>>, <<0, -2, 0>>, <<0, 0, -4>> >>,
           << <<-2, 1, 0>>, <<1, -2, 1>>, <<0, 1, -2>> >>,
           << <<0, 0, 0>>, <<0, 0, 0>>, <<0, 0, 0>> >>,
           << <<-1, 0, 0>>, <<0, -2, 0>>, <<0, 0, 0>> >>,                  \* diagonal with a zero (rank two)
           << <<-1, -1, -1>>, <<-1, -1, -1>>, <<-1, -1, -1>> >>,           \* rank one
           << <<-1, 1, 0>>, <<1, -1, 0>>, <<0, 0, 0>> >>,                  \* rank one
           << <<-1, -1, 0>>, <<-1, -1, 0>>, <<0, 0, -2>> >>,               \* rank two, not diagonal
           << <<-1, 0, 0>>, <<0, 2, 0>>, <<0, 0, -1>> >> }                 \* indefinite, regular
MC_H(K) == IF K = 1 THEN MC_H1 ELSE IF K = 2 THEN MC_H2 ELSE MC_H3

\* every negative semi-definite symmetric matrix with small integer entries
SymFrom(K, d, u) == IF K = 1 THEN << <<d[1]>> >>
                    ELSE IF K = 2 THEN << <<d[1], u[1]>>, <<u[1], d[2]>> >>
                    ELSE << <<d[1], u[1], u[2]>>, <<u[1], d[2], u[3]>>, <<u[2], u[3], d[3]>> >>
MC_HAllNSD(K, D, U) == { h \in { SymFrom(K, d, u) : d \in [1..K -> D], u \in [1..((K * (K - 1)) \div 2) -> U] } :
                           MIsPSD(MNeg(h, K), K) }

(* ---------------- rational Hessians ---------------- *)
\* -(v v^T): rank one
OuterNeg(v) == [i \in 1..Len(v) |-> [j \in 1..Len(v) |-> -(v[i] * v[j])]]
\* -(sum_k d[k] c_k c_k^T) for pairwise orthogonal integer vectors c_k of equal length l: l^2 times
\* -(Q diag(d) Q^T) with the rational orthogonal matrix Q = (c_1 .. c_n) / l; a zero in d = a kernel direction
SpectralNeg(cols, d) == [i \in 1..Len(cols) |-> [j \in 1..Len(cols) |->
                           -SumN([k \in 1..Len(cols) |-> d[k] * cols[k][i] * cols[k][j]], Len(cols))]]
Cols2 == << <<3, 4>>, <<4, -3>> >>                           \* length 5
Cols3 == << <<1, 2, 2>>, <<2, 1, -2>>, <<2, -2, 1>> >>       \* length 3
\* singular matrices on which Gaussian elimination in floating point does not end on an exact zero, and
\* regular matrices with a moderately small eigenvalue (ratio 1/20, 1/40: 32-bit arithmetic of TLC)
MC_HX1 == { }
MC_HX2 == { OuterNeg(<<1, 3>>), OuterNeg(<<3, 5>>),                       \* rank one
            SpectralNeg(Cols2, <<1, 0>>) }                                \* rank one, kernel (4, -3)
MC_HX3 == { OuterNeg(<<1, 3, 5>>),                                        \* rank one
            << <<-2, -2, -2>>, <<-2, -4, -6>>, <<-2, -6, -10>> >>,        \* rank two: -(u u^T + w w^T), u = (1,2,3), w = (1,0,-1)
            SpectralNeg(Cols3, <<1, 3, 0>>), SpectralNeg(Cols3, <<1, 2, 0>>) }  \* rank two, kernel (2, -2, 1)
MC_HX(K) == IF K = 1 THEN MC_HX1 ELSE IF K = 2 THEN MC_HX2 ELSE MC_HX3
\* regular, negative definite, nearly rank deficient: large entries and a small determinant (100 / 200), the
\* eigenvalues of the 2x2 block are about -1000.9 and -0.0999 (ratio 10^4)
MC_HIll(K) == IF K = 1 THEN { } ELSE IF K = 2 THEN { << <<-1000, 30>>, <<30, -1>> >> }
              ELSE { << <<-1000, 30, 0>>, <<30, -1, 0>>, <<0, 0, -2>> >>,
                     << <<-100, 9, 0>>, <<9, -2, 1>>, <<0, 1, -3>> >> }                     \* determinant -257
Scaled(Ms, scales) == { Sc(M, s) : M \in Ms, s \in scales }
\* the integer families by thirds and sevenths; the additional matrices also unscaled and by tenths
MC_HRatQuick(K) == Scaled(MC_H(K), {Q(1, 3), Q(1, 7)}) \cup Scaled(MC_HX(K), {One, Q(1, 7), Q(1, 10)})
                   \cup Scaled(MC_HIll(K), {Q(1, 3)})
MC_HRat(K)      == Scaled(MC_H(K), {Q(1, 3), Q(1, 7), Q(3, 7), Q(1, 10)})
                   \cup Scaled(MC_HX(K), {One, Q(1, 3), Q(1, 7), Q(3, 7), Q(1, 10)})
                   \cup Scaled(MC_HIll(K), {One, Q(1, 3)})

(* ---------------- BHHH (positive semi-definite) ---------------- *)
MC_B1 == { << <<3>> >>, << <<0>> >> }
MC_B2 == { << <<2, 1>>, <<1, 2>> >>, << <<1, 2>>, <<2, 4>> >>, << <<1, 0>>, <<0, 3>> >> }
MC_B3 == { << <<2, 1, 0>>, <<1, 2, 1>>, <<0, 1, 2>> >>,
           << <<1, 0, 0>>, <<0, 2, 0>>, <<0, 0, 3>> >>,
           << <<1, 2, 1>>, <<2, 4, 2>>, <<1, 2, 1>> >> }
MC_B(K) == IF K = 1 THEN MC_B1 ELSE IF K = 2 THEN MC_B2 ELSE MC_B3

(* ---------------- bootstrap replications ---------------- *)
MC_Boot1 == { NoBoot, Boot(<< <<1>>, <<3>>, <<2>> >>), Boot(<< <<0>>, <<2>>, <<-1>>, <<2>> >>),
              Boot(<< <<1>>, <<1>>, <<1>> >>) }                                             \* no variation
MC_Boot2 == { NoBoot, Boot(<< <<1, 2>>, <<3, 1>>, <<2, 2>> >>),
              Boot(<< <<0, 1>>, <<2, 1>>, <<-1, 1>>, <<2, 1>> >>) }                          \* one constant column
MC_Boot3 == { NoBoot, Boot(<< <<1, 2, 0>>, <<3, 1, 1>>, <<2, 2, -1>> >>),
              Boot(<< <<0, 1, 2>>, <<2, 1, 0>>, <<-1, 1, 1>>, <<2, 1, 3>> >>) }
MC_Boot(K) == IF K = 1 THEN MC_Boot1 ELSE IF K = 2 THEN MC_Boot2 ELSE MC_Boot3
MC_BootTwo(K) == IF K = 1 THEN {NoBoot, Boot(<< <<1>>, <<3>>, <<2>> >>)}
                 ELSE IF K = 2 THEN {NoBoot, Boot(<< <<1, 2>>, <<3, 1>>, <<2, 2>> >>)}
                 ELSE {NoBoot, Boot(<< <<1, 2, 0>>, <<3, 1, 1>>, <<2, 2, -1>> >>)}

(* ---------------- the models compiled next to the current one ---------------- *)
MC_C1 == Outcome("c1", Scal(I(-5), Yes(I(-12)), No, 7),
                 Th(<<"a_1", "c1">>, <<I(1), Q(-1, 2)>>, <<No, No>>, <<No, No>>, <<1, 0>>),
                 << <<-1, 0>>, <<0, -4>> >>, << <<2, 1>>, <<1, 2>> >>, NoBoot)
MC_C2 == Outcome("c2", Scal(I(-8), Yes(I(-12)), Yes(I(-20)), 2),
                 Th(<<"B10", "b2", "z">>, <<I(2), I(0), Q(1, 2)>>, <<No, Yes(I(0)), No>>, <<No, No, No>>, <<0, 0, 0>>),
                 << <<-2, 1, 0>>, <<1, -2, 1>>, <<0, 1, -2>> >>, << <<1, 0, 0>>, <<0, 2, 0>>, <<0, 0, 3>> >>,
                 Boot(<< <<1, 2, 0>>, <<3, 1, 1>>, <<2, 2, -1>> >>))
MC_Companions == <<MC_C1, MC_C2>>
MC_CompanionSet == {MC_C1, MC_C2}
MC_CompileStats == <<"Number of estimated parameters", "Sample size", "Final log likelihood",
                     "Akaike Information Criterion", "Bayesian Information Criterion",
                     "Excluded observations", "Likelihood ratio test for the init. model",
                     "Rho-square-bar for the init. model", "Final gradient norm">>

(* ---------------- families ---------------- *)
Product(K, scalars, hs, bs, boots, thetas) ==
    { Outcome("m0", sc, th, H, B, bt) : sc \in scalars, th \in thetas, H \in hs, B \in bs, bt \in boots }
\* the same over scaled matrices
ProductS(K, scalars, hs, bs, boots, thetas) ==
    { OutcomeS("m0", sc, th, H, B, bt) : sc \in scalars, th \in thetas, H \in hs, B \in bs, bt \in boots }

DefaultH(K) == IF K = 1 THEN {<< <<-2>> >>} ELSE IF K = 2 THEN {<< <<-2, 1>>, <<1, -2>> >>}
               ELSE {<< <<-2, 1, 0>>, <<1, -2, 1>>, <<0, 1, -2>> >>}
DefaultB(K) == IF K = 1 THEN {<< <<3>> >>} ELSE IF K = 2 THEN {<< <<2, 1>>, <<1, 2>> >>}
               ELSE {<< <<2, 1, 0>>, <<1, 2, 1>>, <<0, 1, 2>> >>}
DefaultTheta(K) == {CHOOSE th \in MC_Theta(K) : \A i \in 1..K : ~th.lb[i].ex /\ ~th.ub[i].ex}

QuickK(K) ==
    Product(K, MC_Scalars, DefaultH(K), DefaultB(K), MC_BootTwo(K), DefaultTheta(K))
    \cup Product(K, MC_ScalarsTwo, MC_H(K), MC_B(K), MC_Boot(K), MC_Theta(K))
FullK(K) == Product(K, MC_ScalarsMid, MC_H(K), MC_B(K), MC_Boot(K), MC_Theta(K))
NSDK(K) == Product(K, MC_ScalarsOne,
                   IF K = 1 THEN MC_HAllNSD(1, -4..0, {0})
                   ELSE IF K = 2 THEN MC_HAllNSD(2, -3..0, -2..2) ELSE MC_HAllNSD(3, -2..0, -1..1),
                   MC_B(K), MC_BootTwo(K), MC_Theta(K))

\* rational family.  Scalars: N = 7 individuals with 10 observations (panel data).
BRatQuick(K) == Scaled(DefaultB(K), {One, Q(1, 3)}) \cup Scaled(MC_B(K) \ DefaultB(K), {Q(2, 7)})
BRat(K)      == Scaled(DefaultB(K), {One}) \cup Scaled(MC_B(K), {Q(1, 3), Q(2, 7)})
RatQuickK(K) ==
    ProductS(K, MC_ScalarsOne, MC_HRatQuick(K), BRatQuick(K), {NoBoot}, DefaultTheta(K))
    \cup ProductS(K, MC_ScalarsOne, MC_HRatQuick(K), Scaled(DefaultB(K), {Q(1, 3)}), MC_BootTwo(K) \ {NoBoot}, DefaultTheta(K))
RatK(K) == ProductS(K, MC_ScalarsOne, MC_HRat(K), BRat(K), MC_BootTwo(K), MC_Theta(K))
\* every negative semi-definite Hessian of NSDK(K), by thirds and by sevenths
RatNSDK(K) == ProductS(K, MC_ScalarsOne,
                       Scaled(IF K = 2 THEN MC_HAllNSD(2, -3..0, -2..2) ELSE MC_HAllNSD(3, -2..0, -1..1), {Q(1, 3), Q(1, 7)}),
                       Scaled(DefaultB(K), {Q(1, 3)}), {NoBoot}, DefaultTheta(K))

MC_Quick     == QuickK(1) \cup QuickK(2) \cup QuickK(3) \cup MC_CompanionSet
\* a handful of outcomes on which the three families disagree: enough for the seeded defects to show
MC_Tiny      == Product(2, MC_ScalarsOne, DefaultH(2), DefaultB(2), MC_BootTwo(2), MC_Theta2) \cup MC_CompanionSet
\* The other families are selected BY NAME (a generated root module defines `RunOutcomes == MC_Family("...")`):
\* TLC evaluates every constant definition without parameters when it starts, whether the run uses it or not.
MC_Family(f) ==
    CASE f = "MC_Quick"    -> MC_Quick
      [] f = "MC_RatQuick" -> RatQuickK(1) \cup RatQuickK(2) \cup RatQuickK(3) \cup MC_CompanionSet
      [] f = "MC_Rat12"    -> RatK(1) \cup RatK(2) \cup RatNSDK(2) \cup MC_CompanionSet
      [] f = "MC_Rat3"     -> RatK(3) \cup RatNSDK(3) \cup MC_CompanionSet
      [] f = "MC_Full1"    -> FullK(1) \cup MC_CompanionSet
      [] f = "MC_Full2"    -> FullK(2) \cup MC_CompanionSet
      [] f = "MC_Full3"    -> FullK(3) \cup MC_CompanionSet
      [] f = "MC_NSD12"    -> NSDK(1) \cup NSDK(2) \cup MC_CompanionSet
      [] f = "MC_NSD3"     -> NSDK(3) \cup MC_CompanionSet
      [] f = "MC_Tiny"     -> MC_Tiny
=============================================================================
