------------------------------ MODULE MCResults ------------------------------
(***************************************************************************)
(* Model-checking instances of Results: the finite families of raw         *)
(* outcomes that TLC enumerates (quick: every scalar configuration on one  *)
(* default matrix configuration per K, and every matrix configuration on   *)
(* two scalar configurations; thorough: the full product, and every        *)
(* negative semi-definite Hessian with small integer entries).             *)
(***************************************************************************)
EXTENDS Results

No      == [ex |-> FALSE, v |-> Zero]
Yes(x)  == [ex |-> TRUE, v |-> x]
NoBoot  == [ex |-> FALSE, r |-> << >>]
Boot(r) == [ex |-> TRUE, r |-> r]

Outcome(id, sc, th, H, B, boot) ==
    [id |-> id, K |-> Len(th.v), names |-> th.names, theta |-> th.v, lb |-> th.lb, ub |-> th.ub,
     N |-> sc.N, nobs |-> sc.nobs, excl |-> sc.excl, L |-> sc.L, L0 |-> sc.L0, Ln |-> sc.Ln,
     g |-> th.g, H |-> H, B |-> B, boot |-> boot, mc |-> sc.mc]

(* ---------------- scalar configurations ---------------- *)
Scal(L, L0, Ln, N) == [L |-> L, L0 |-> L0, Ln |-> Ln, N |-> N,
                       nobs |-> IF N = 7 THEN 10 ELSE N,          \* panel-like: observations # sample size
                       excl |-> IF N = 2 THEN 3 ELSE 0,
                       mc |-> N = 100]
MC_Scalars == { Scal(L, L0, Ln, N) :
                  L \in {I(-5), Q(-23, 2)}, L0 \in {No, Yes(I(-12)), Yes(I(-5))},
                  Ln \in {No, Yes(I(-20))}, N \in {1, 2, 7, 100} }
MC_ScalarsMid == { sc \in MC_Scalars : sc.N \in {2, 100} }
MC_ScalarsTwo == { Scal(I(-5), Yes(I(-12)), No, 7), Scal(Q(-23, 2), No, Yes(I(-20)), 100) }
MC_ScalarsOne == { Scal(Q(-23, 2), Yes(I(-12)), Yes(I(-20)), 7) }

(* ---------------- estimates, bounds, gradient ---------------- *)
N1 == <<"b2">>
N2 == <<"B10", "b2">>
N3 == <<"B10", "a_1", "b2">>      \* Python order: "B10" < "a_1" < "b2"
Th(names, v, lb, ub, g) == [names |-> names, v |-> v, lb |-> lb, ub |-> ub, g |-> g]
MC_Theta1 == { Th(N1, <<Q(1, 2)>>, <<No>>, <<No>>, <<2>>),
               Th(N1, <<I(0)>>, <<Yes(I(0))>>, <<No>>, <<0>>),                 \* on its lower bound
               Th(N1, <<I(-3)>>, <<No>>, <<Yes(I(5))>>, <<-1>>) }
MC_Theta2 == { Th(N2, <<I(2), Q(-1, 2)>>, <<No, No>>, <<No, No>>, <<3, -4>>),
               Th(N2, <<I(1), I(1)>>, <<Yes(I(-10)), No>>, <<No, Yes(I(1))>>, <<0, 0>>) }   \* equal estimates, upper bound active
MC_Theta3 == { Th(N3, <<I(0), Q(3, 2), I(-2)>>, <<No, No, No>>, <<No, No, No>>, <<1, 2, -2>>),
               Th(N3, <<Q(1, 2), Q(1, 2), I(3)>>, <<Yes(Q(1, 2)), No, No>>, <<No, No, Yes(I(10))>>, <<0, 0, 0>>) }
MC_Theta(K) == IF K = 1 THEN MC_Theta1 ELSE IF K = 2 THEN MC_Theta2 ELSE MC_Theta3

(* ---------------- Hessians ---------------- *)
MC_H1 == { << <<-2>> >>, << <<-1>> >>, << <<0>> >>,
           << <<1>> >> }                                                   \* not a maximum: negative variance
MC_H2 == { << <<-1, 0>>, <<0, -2>> >>,                                     \* negative definite, diagonal
           << <<-2, 1>>, <<1, -2>> >>,                                     \* negative definite
           << <<0, 0>>, <<0, 0>> >>,                                       \* zero
           << <<-2, 0>>, <<0, 0>> >>,                                      \* diagonal with a zero
           << <<-1, -1>>, <<-1, -1>> >>,                                   \* rank one
           << <<-1, 2>>, <<2, -1>> >> }                                    \* indefinite, regular
MC_H3 == { << <<-1, 0, 0>>, <<0, -2, 0>>, <<0, 0, -4>> >>,
           << <<-2, 1, 0>>, <<1, -2, 1>>, <<0, 1, -2>> >>,
           << <<0, 0, 0>>, <<0, 0, 0>>, <<0, 0, 0>> >>,
           << <<-1, 0, 0>>, <<0, -2, 0>>, <<0, 0, 0>> >>,                  \* diagonal with a zero (rank two)
           << <<-1, -1, -1>>, <<-1, -1, -1>>, <<-1, -1, -1>> >>,           \* rank one
           << <<-1, 1, 0>>, <<1, -1, 0>>, <<0, 0, 0>> >>,                  \* rank one
           << <<-1, -1, 0>>, <<-1, -1, 0>>, <<0, 0, -2>> >>,               \* rank two, not diagonal
           << <<-1, 0, 0>>, <<0, 2, 0>>, <<0, 0, -1>> >> }                 \* indefinite, regular
MC_H(K) == IF K = 1 THEN MC_H1 ELSE IF K = 2 THEN MC_H2 ELSE MC_H3

\* every negative semi-definite symmetric matrix with small integer entries
SymFrom(K, d, u) == IF K = 1 THEN << <<d[1]>> >>
                    ELSE IF K = 2 THEN << <<d[1], u[1]>>, <<u[1], d[2]>> >>
                    ELSE << <<d[1], u[1], u[2]>>, <<u[1], d[2], u[3]>>, <<u[2], u[3], d[3]>> >>
MC_HAllNSD(K, D, U) == { h \in { SymFrom(K, d, u) : d \in [1..K -> D], u \in [1..((K * (K - 1)) \div 2) -> U] } :
                           MIsPSD(MNeg(h, K), K) }

(* ---------------- BHHH (positive semi-definite) ---------------- *)
MC_B1 == { << <<3>> >>, << <<0>> >> }
MC_B2 == { << <<2, 1>>, <<1, 2>> >>, << <<1, 2>>, <<2, 4>> >>, << <<1, 0>>, <<0, 3>> >> }
MC_B3 == { << <<2, 1, 0>>, <<1, 2, 1>>, <<0, 1, 2>> >>,
           << <<1, 0, 0>>, <<0, 2, 0>>, <<0, 0, 3>> >>,
           << <<1, 2, 1>>, <<2, 4, 2>>, <<1, 2, 1>> >> }
MC_B(K) == IF K = 1 THEN MC_B1 ELSE IF K = 2 THEN MC_B2 ELSE MC_B3

(* ---------------- bootstrap replications ---------------- *)
MC_Boot1 == { NoBoot, Boot(<< <<1>>, <<3>>, <<2>> >>), Boot(<< <<0>>, <<2>>, <<-1>>, <<2>> >>),
              Boot(<< <<1>>, <<1>>, <<1>> >>) }                                             \* no variation
MC_Boot2 == { NoBoot, Boot(<< <<1, 2>>, <<3, 1>>, <<2, 2>> >>),
              Boot(<< <<0, 1>>, <<2, 1>>, <<-1, 1>>, <<2, 1>> >>) }                          \* one constant column
MC_Boot3 == { NoBoot, Boot(<< <<1, 2, 0>>, <<3, 1, 1>>, <<2, 2, -1>> >>),
              Boot(<< <<0, 1, 2>>, <<2, 1, 0>>, <<-1, 1, 1>>, <<2, 1, 3>> >>) }
MC_Boot(K) == IF K = 1 THEN MC_Boot1 ELSE IF K = 2 THEN MC_Boot2 ELSE MC_Boot3
MC_BootTwo(K) == IF K = 1 THEN {NoBoot, Boot(<< <<1>>, <<3>>, <<2>> >>)}
                 ELSE IF K = 2 THEN {NoBoot, Boot(<< <<1, 2>>, <<3, 1>>, <<2, 2>> >>)}
                 ELSE {NoBoot, Boot(<< <<1, 2, 0>>, <<3, 1, 1>>, <<2, 2, -1>> >>)}

(* ---------------- the models compiled next to the current one ---------------- *)
MC_C1 == Outcome("c1", Scal(I(-5), Yes(I(-12)), No, 7),
                 Th(<<"a_1", "c1">>, <<I(1), Q(-1, 2)>>, <<No, No>>, <<No, No>>, <<1, 0>>),
                 << <<-1, 0>>, <<0, -4>> >>, << <<2, 1>>, <<1, 2>> >>, NoBoot)
MC_C2 == Outcome("c2", Scal(I(-8), Yes(I(-12)), Yes(I(-20)), 2),
                 Th(<<"B10", "b2", "z">>, <<I(2), I(0), Q(1, 2)>>, <<No, Yes(I(0)), No>>, <<No, No, No>>, <<0, 0, 0>>),
                 << <<-2, 1, 0>>, <<1, -2, 1>>, <<0, 1, -2>> >>, << <<1, 0, 0>>, <<0, 2, 0>>, <<0, 0, 3>> >>,
                 Boot(<< <<1, 2, 0>>, <<3, 1, 1>>, <<2, 2, -1>> >>))
MC_Companions == <<MC_C1, MC_C2>>
MC_CompanionSet == {MC_C1, MC_C2}
MC_CompileStats == <<"Number of estimated parameters", "Sample size", "Final log likelihood",
                     "Akaike Information Criterion", "Bayesian Information Criterion",
                     "Excluded observations", "Likelihood ratio test for the init. model",
                     "Rho-square-bar for the init. model", "Final gradient norm">>

(* ---------------- families ---------------- *)
Product(K, scalars, hs, bs, boots, thetas) ==
    { Outcome("m0", sc, th, H, B, bt) : sc \in scalars, th \in thetas, H \in hs, B \in bs, bt \in boots }

DefaultH(K) == IF K = 1 THEN {<< <<-2>> >>} ELSE IF K = 2 THEN {<< <<-2, 1>>, <<1, -2>> >>}
               ELSE {<< <<-2, 1, 0>>, <<1, -2, 1>>, <<0, 1, -2>> >>}
DefaultB(K) == IF K = 1 THEN {<< <<3>> >>} ELSE IF K = 2 THEN {<< <<2, 1>>, <<1, 2>> >>}
               ELSE {<< <<2, 1, 0>>, <<1, 2, 1>>, <<0, 1, 2>> >>}
DefaultTheta(K) == {CHOOSE th \in MC_Theta(K) : \A i \in 1..K : ~th.lb[i].ex /\ ~th.ub[i].ex}

QuickK(K) ==
    Product(K, MC_Scalars, DefaultH(K), DefaultB(K), MC_BootTwo(K), DefaultTheta(K))
    \cup Product(K, MC_ScalarsTwo, MC_H(K), MC_B(K), MC_Boot(K), MC_Theta(K))
FullK(K) == Product(K, MC_ScalarsMid, MC_H(K), MC_B(K), MC_Boot(K), MC_Theta(K))
NSDK(K) == Product(K, MC_ScalarsOne,
                   IF K = 1 THEN MC_HAllNSD(1, -4..0, {0})
                   ELSE IF K = 2 THEN MC_HAllNSD(2, -3..0, -2..2) ELSE MC_HAllNSD(3, -2..0, -1..1),
                   MC_B(K), MC_BootTwo(K), MC_Theta(K))

MC_Quick     == QuickK(1) \cup QuickK(2) \cup QuickK(3) \cup MC_CompanionSet
MC_Full1     == FullK(1) \cup MC_CompanionSet
MC_Full2     == FullK(2) \cup MC_CompanionSet
MC_Full3     == FullK(3) \cup MC_CompanionSet
MC_NSD12     == NSDK(1) \cup NSDK(2) \cup MC_CompanionSet
MC_NSD3      == NSDK(3) \cup MC_CompanionSet
\* a handful of outcomes on which the three families disagree: enough for the seeded defects to show
MC_Tiny      == Product(2, MC_ScalarsOne, DefaultH(2), DefaultB(2), MC_BootTwo(2), MC_Theta2) \cup MC_CompanionSet
=============================================================================
