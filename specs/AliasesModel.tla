---------------------------- MODULE AliasesModel ----------------------------
(***************************************************************************)
(* Binds the constants of Aliases to the facts the driver extracted from   *)
(* the imported package (vb/aliases.py:Model.to_json), read from the JSON  *)
(* file named by the environment variable ALIASES_MODEL.                   *)
(***************************************************************************)
EXTENDS Aliases, IOUtils

M == JsonDeserialize(IOEnv.ALIASES_MODEL)
EmptyFn == [x \in {} |-> x]

G_Spaces == Range(M.spaces)
G_Modules == Range(M.modules)
G_Bases == TLCEval([s \in G_Spaces |-> IF s \in DOMAIN M.bases THEN M.bases[s] ELSE << >>])
G_Table == TLCEval([s \in G_Spaces |-> IF s \in DOMAIN M.table THEN M.table[s] ELSE EmptyFn])
G_Fn == M.fn
G_Spelling == M.spelling
G_Renames == {<<M.renames[i][1], M.renames[i][2]>> : i \in 1..Len(M.renames)}
G_KwRenames == {[fid |-> r.fid, space |-> r.space, fname |-> r.fname, old |-> r.old, new |-> r.new, drop |-> r.drop,
                 params |-> Range(r.params), varkw |-> r.varkw] : r \in Range(M.kwrenames)}
=============================================================================
