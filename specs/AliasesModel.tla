---------------------------- MODULE AliasesModel ----------------------------
(***************************************************************************)
(* Binds the constants of Aliases to the extracted facts of AliasesData.   *)
(* TLC re-evaluates the right-hand side of a cfg substitution "X <- G_X"   *)
(* at every use of X but caches ordinary constant definitions: G_X only    *)
(* names the value C_X computed once.                                      *)
(***************************************************************************)
EXTENDS AliasesData, Aliases

G_Spaces == C_Spaces
G_Modules == C_Modules
G_Bases == C_Bases
G_Table == C_Table
G_Static == C_Static
G_Home == C_Home
G_Fn == C_Fn
G_Spelling == C_Spelling
G_Renames == C_Renames
G_KwRenames == C_KwRenames
G_ClassName == C_ClassName
=============================================================================
