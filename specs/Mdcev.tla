------------------------------- MODULE Mdcev -------------------------------
(***************************************************************************)
(* The consumer problem behind the MDCEV forecasts                         *)
(*                                                                         *)
(*      max  sum_k U_k(e_k)    s.t.   sum_k e_k = B,   e_k >= 0            *)
(*                                                                         *)
(* e_k is the EXPENDITURE on good k (the quantity is e_k / p_k), B the     *)
(* budget.  Goods are identified by a LABEL; nothing in the problem refers *)
(* to a position.  At most one good is the OUTSIDE good (always consumed). *)
(* psi_k = exp(V_k + eps_k / sigma) is the baseline marginal utility       *)
(* (V_k baseline utility of the observation, eps_k the error draw, sigma   *)
(* the scale parameter, 1 when absent).                                    *)
(*                                                                         *)
(* The four utility profiles (technical report "Estimating the MDCEV model *)
(* with Biogeme"; Bhat 2008; Kim et al. 2002; Wang et al. 2023):           *)
(*                                                                         *)
(*  gamma        U = psi g ln(1 + e/(p g))             outside  psi ln(e/p)*)
(*  translated   U = psi (e + g)^a                     outside  psi e^a    *)
(*  generalized  U = (g/a) psi ((1 + e/(p g))^a - 1)   outside  (psi/a)(e/p)^a *)
(*  nonmono      U = (g/a) psi0 ((1 + e/g)^a - 1) + m e                    *)
(*                                      outside  (psi0/a) e^a + m e        *)
(*               with psi0 = exp(V), m = mu + eps/sigma                    *)
(*                                                                         *)
(* Every U_k is strictly concave (0 < a < 1, g > 0), so the problem has    *)
(* exactly one solution and it is characterised by the first-order         *)
(* (Kuhn-Tucker) conditions: there is a multiplier lambda with             *)
(*    U_k'(e_k) = lambda   for the consumed goods (e_k > 0),               *)
(*    U_k'(0)  <= lambda   for the others,                                 *)
(*    sum e_k = B, e >= 0, and the outside good is consumed                *)
(*    (its marginal utility at zero is infinite).                          *)
(* These are the predicates KktVerdict below; they are stated once, over   *)
(* abstract comparison operators, and used (a) on the model with exact     *)
(* rationals and (b) by MdcevTrace on recorded forecasts (fixed point).    *)
(*                                                                         *)
(* EXACT CASES.  U_k' is monotone decreasing; writing s for a decreasing   *)
(* transform of lambda, the consumption that equalises the marginal        *)
(* utility is AFFINE in s,   e_k(s) = A_k s - B_k ,   in these cases:      *)
(*   gamma                     s = 1/lambda         A = psi g     B = p g  *)
(*                                       outside    A = psi       B = 0    *)
(*   translated,  a = 1/2      s = 1/lambda^2       A = psi^2/4   B = g    *)
(*   generalized, a = 1/2      s = 1/lambda^2       A = g psi^2/p B = p g  *)
(*                                       outside    A = psi^2/p   B = 0    *)
(*   nonmono, a = 1/2, m common  s = 1/(lambda-m)^2 A = g psi0^2  B = g    *)
(*                                       outside    A = psi0^2    B = 0    *)
(* so with rational psi (V = log k, eps = sigma log r) the optimum is      *)
(* rational: on the consumed set C,  s = (B + sum_C B_k) / (sum_C A_k).    *)
(* The image of the marginal utility under the same transform (MUq: U'     *)
(* for gamma, U'^2 for translated/generalized, (U'-m)^2 for nonmono) is    *)
(* rational too, and the transform is increasing on the domain, so the     *)
(* Kuhn-Tucker predicates are decided exactly on MUq.                      *)
(*                                                                         *)
(* The actions follow the forecasting procedure of Pinjari and Bhat        *)
(* (2021): Order the inside goods by decreasing marginal utility at zero;  *)
(* TryNext adds the next good iff, at the multiplier where that good       *)
(* starts to be consumed, the goods already chosen spend less than the     *)
(* budget; Solve computes the multiplier and the consumptions of the       *)
(* chosen set.  TLC checks on the model that the point reached is a        *)
(* Kuhn-Tucker point, that NO other consumed set yields one (uniqueness),  *)
(* that stopping at the first refusal is safe and that the result does not *)
(* depend on how ties are ordered; every finished instance is printed with *)
(* the expected consumptions (EmitInv).                                    *)
(*                                                                         *)
(* In Mode = "kkt" (general exponents, irrational optimum) the module only *)
(* generates the instance and prints the utility, its derivative and the   *)
(* inverse of the derivative as TERMS in the symbols X (expenditure) and   *)
(* L (multiplier); the verdict on the code's forecast is then MdcevTrace's.*)
(***************************************************************************)
EXTENDS Integers, Sequences, FiniteSets, TLC, Json, Term

CONSTANTS
    Variants,     \* subset of {"gamma", "translated", "generalized", "nonmono"}
    Mode,         \* "exact": rational optimum computed here; "kkt": instance + terms only;
                  \* "seq": exact, and the model object is used on several data sets in sequence (module MdcevSeq)
    Types,        \* [variant |-> sequence of good types]; a good type is a record
                  \*   [k, vq, r, eq, gam, pr, al, mu]:  V = vq + log k,  eps = eq + sigma log r
    MinGoods, MaxGoods,
    Budgets,      \* set of positive rationals
    Scales,       \* set of rationals; Zero = no scale parameter
    Ms,           \* exact nonmono: the common value of mu_k + eps_k / sigma
    Labelings,    \* set of sequences of distinct integers: labels the goods may carry
    ProbeS,       \* exact mode: multiples of the threshold at which "inverse inverts derivative" is checked
    Mutation      \* "none"; other values switch ONE definition to a known-wrong variant (negative controls)

VARIABLES stage, inst, order, chosen, next, sol
vars == <<stage, inst, order, chosen, next, sol>>

Half == Q(1, 2)
Last(s) == s[Len(s)]
HasPrices(v) == v \in {"gamma", "generalized"}
HasAlpha(v)  == v # "gamma"

(***************************************************************************)
(* The instance.                                                           *)
(***************************************************************************)
NG      == Len(inst.ts)
Goods   == 1..NG
ExactMode == Mode \in {"exact", "seq"}
\* A good type bundles what belongs to the MODEL OBJECT (gamma, price, alpha) and what the OBSERVATION at hand
\* contributes (baseline utility V, error draw eps, mu utility).  inst.ts[i] is the type of good i; inst.ds[i] the
\* type whose DATA good i currently sees: ds = ts while the model is used on the data it was generated with,
\* another data set (MdcevSeq) replaces ds and nothing else.
Ty(i)   == IF inst.ds[i] = inst.ts[i] THEN Types[inst.v][inst.ts[i]]
           ELSE LET d == Types[inst.v][inst.ds[i]] IN
                [Types[inst.v][inst.ts[i]] EXCEPT !.k = d.k, !.vq = d.vq, !.r = d.r, !.eq = d.eq, !.mu = d.mu]
IsOut(i) == i = inst.out
Sigma   == IF IsZero(inst.sc) THEN One ELSE inst.sc
Price(i) == IF inst.up THEN Ty(i).pr ELSE One
Gam(i)  == Ty(i).gam
Alpha(i) == Ty(i).al
\* mu of the non-monotonic profile: in the exact mode it is chosen so that mu + eps/sigma = m for every good
MuOf(i) == IF ExactMode /\ inst.v = "nonmono" THEN QSub(inst.m, QDiv(Ty(i).eq, Sigma)) ELSE Ty(i).mu

\* --- terms (for the driver): baseline utility, error draw, psi, m
X == App("var", <<Zero>>)      \* the expenditure
L == App("var", <<One>>)       \* the multiplier
Ln(t)     == App("log", <<t>>)
Ex(t)     == App("exp", <<t>>)
Pow(b, e) == App("pow", <<b, e>>)
VTerm(i)   == IF Ty(i).k = 1 THEN Ty(i).vq ELSE Add(Ty(i).vq, Ln(I(Ty(i).k)))
EpsTerm(i) == IF IsOne(Ty(i).r) THEN Ty(i).eq ELSE Add(Ty(i).eq, Mul(Sigma, Ln(Ty(i).r)))
PsiTerm(i) == IF inst.v = "nonmono" THEN Ex(VTerm(i)) ELSE Ex(Add(VTerm(i), Div(EpsTerm(i), Sigma)))
MTerm(i)   == Add(MuOf(i), Div(EpsTerm(i), Sigma))

\* --- exact psi: exp(log k + log r) = k r  (needs vq = 0, eq = 0; nonmono: exp(log k) = k)
ExactGood(i) ==
    LET t == Ty(i) IN
    /\ IsZero(t.vq)
    /\ IF inst.v = "nonmono" THEN IsOne(t.r) ELSE IsZero(t.eq)
    /\ HasAlpha(inst.v) => QEq(t.al, Half)
PsiQ(i) == IF inst.v = "nonmono" THEN I(Ty(i).k) ELSE QMul(I(Ty(i).k), Ty(i).r)

(***************************************************************************)
(* Utility, derivative, inverse of the derivative: terms in X resp. L.     *)
(***************************************************************************)
UTerm(i) ==
    LET psi == PsiTerm(i)  g == Gam(i)  p == Price(i)  a == Alpha(i)  m == MTerm(i) IN
    CASE inst.v = "gamma" ->
           IF IsOut(i) THEN Mul(psi, Ln(Div(X, p)))
           ELSE Mul(Mul(psi, g), Ln(Add(One, Div(X, Mul(p, g)))))
      [] inst.v = "translated" ->
           Mul(psi, Pow(IF IsOut(i) THEN X ELSE Add(X, g), a))
      [] inst.v = "generalized" ->
           IF IsOut(i) THEN Mul(Div(psi, a), Pow(Div(X, p), a))
           ELSE Mul(Div(Mul(g, psi), a), Sub(Pow(Add(One, Div(X, Mul(p, g))), a), One))
      [] inst.v = "nonmono" ->
           IF IsOut(i) THEN Add(Mul(Div(psi, a), Pow(X, a)), Mul(m, X))
           ELSE Add(Mul(Div(Mul(g, psi), a), Sub(Pow(Add(One, Div(X, g)), a), One)), Mul(m, X))

DUTerm(i) ==
    LET psi == PsiTerm(i)  g == Gam(i)  p == Price(i)  a == Alpha(i)  m == MTerm(i)
        a1 == QSub(a, One) IN
    CASE inst.v = "gamma" ->
           IF IsOut(i) THEN Div(psi, X) ELSE Div(Mul(psi, g), Add(X, Mul(p, g)))
      [] inst.v = "translated" ->
           Mul(Mul(psi, a), Pow(IF IsOut(i) THEN X ELSE Add(X, g), a1))
      [] inst.v = "generalized" ->
           IF IsOut(i) THEN Mul(Div(psi, p), Pow(Div(X, p), a1))
           ELSE Mul(Div(psi, p), Pow(Add(One, Div(X, Mul(p, g))), a1))
      [] inst.v = "nonmono" ->
           IF IsOut(i) THEN Add(Mul(psi, Pow(X, a1)), m)
           ELSE Add(Mul(psi, Pow(Add(One, Div(X, g)), a1)), m)

InvTerm(i) ==
    LET psi == PsiTerm(i)  g == Gam(i)  p == Price(i)  a == Alpha(i)  m == MTerm(i)
        ia == QInv(QSub(a, One)) IN
    CASE inst.v = "gamma" ->
           IF IsOut(i) THEN Div(psi, L) ELSE Sub(Div(Mul(psi, g), L), Mul(p, g))
      [] inst.v = "translated" ->
           IF IsOut(i) THEN Pow(Div(L, Mul(psi, a)), ia) ELSE Sub(Pow(Div(L, Mul(psi, a)), ia), g)
      [] inst.v = "generalized" ->
           IF IsOut(i) THEN Mul(p, Pow(Div(Mul(p, L), psi), ia))
           ELSE Mul(Mul(p, g), Sub(Pow(Div(Mul(p, L), psi), ia), One))
      [] inst.v = "nonmono" ->
           IF IsOut(i) THEN Pow(Div(Sub(L, m), psi), ia)
           ELSE Mul(g, Sub(Pow(Div(Sub(L, m), psi), ia), One))

(***************************************************************************)
(* Exact cases: e_i(s) = A_i s - B_i, and the rational image MUq of the    *)
(* marginal utility (see the header).  Sq = square.                        *)
(***************************************************************************)
Sq(q) == QMul(q, q)
Aq(i) ==
    LET psi == PsiQ(i)  g == Gam(i)  p == Price(i) IN
    CASE inst.v = "gamma"       -> IF IsOut(i) THEN psi ELSE QMul(psi, g)
      [] inst.v = "translated"  -> QDiv(Sq(psi), I(4))
      [] inst.v = "generalized" -> IF IsOut(i) THEN QDiv(Sq(psi), p) ELSE QDiv(QMul(g, Sq(psi)), p)
      [] inst.v = "nonmono"     -> IF IsOut(i) THEN Sq(psi) ELSE QMul(g, Sq(psi))
Bq(i) ==
    LET g == Gam(i)  p == Price(i) IN
    IF IsOut(i) THEN Zero
    ELSE CASE inst.v \in {"gamma", "generalized"} -> QMul(p, g)
           [] OTHER -> g
ExpAt(i, s) == QSub(QMul(Aq(i), s), Bq(i))          \* e_i(s)

\* image of U_i'(e) (e > 0 for the outside good); written from the derivative, independently of Aq / Bq
MUq(i, e) ==
    LET psi == PsiQ(i)  g == Gam(i)  p == Price(i) IN
    CASE inst.v = "gamma" ->
           IF IsOut(i) THEN QDiv(psi, e) ELSE QDiv(QMul(psi, g), QAdd(e, QMul(p, g)))
      [] inst.v = "translated" ->      \* (psi/2)^2 / (e + g)
           QDiv(Sq(psi), QMul(I(4), IF IsOut(i) THEN e ELSE QAdd(e, g)))
      [] inst.v = "generalized" ->     \* (psi/p)^2 / (1 + e/(p g));  outside (psi/p)^2 / (e/p)
           IF IsOut(i) THEN QDiv(Sq(psi), QMul(p, e))
           ELSE QDiv(Sq(QDiv(psi, p)), QAdd(One, QDiv(e, QMul(p, g))))
      [] inst.v = "nonmono" ->         \* psi0^2 / (1 + e/g);  outside psi0^2 / e
           IF IsOut(i) THEN QDiv(Sq(psi), e) ELSE QDiv(Sq(psi), QAdd(One, QDiv(e, g)))
MU0q(i) == MUq(i, Zero)                               \* inside goods only
Thr(i)  == QDiv(Bq(i), Aq(i))                         \* the s at which good i starts to be consumed

\* lambda as a term of s (for the record; the driver compares consumptions, not multipliers)
LambdaTerm(s) ==
    CASE inst.v = "gamma" -> QInv(s)
      [] inst.v \in {"translated", "generalized"} -> Pow(s, Q(-1, 2))
      [] inst.v = "nonmono" -> Add(inst.m, Pow(s, Q(-1, 2)))

(***************************************************************************)
(* The Kuhn-Tucker conditions, over abstract numbers.                      *)
(*   N: goods; x(i) consumption; pos(i): consumed; mu(i): marginal utility *)
(*   at x(i); mu0(i): at zero; out: the outside good (0 = none);           *)
(*   budgetOK: sum x = B in the arithmetic at hand.                        *)
(* The result is the name of the first failing clause, or "ok".            *)
(***************************************************************************)
KktVerdict(N, pos(_), mu(_), mu0(_), out, anyNeg, budgetOK, Same(_, _), NotAbove(_, _)) ==
    IF anyNeg THEN "NonNeg"
    ELSE IF ~budgetOK THEN "Budget"
    ELSE IF out # 0 /\ ~pos(out) THEN "OutsideConsumed"
    ELSE IF \E i, j \in N : pos(i) /\ pos(j) /\ ~Same(mu(i), mu(j)) THEN "EqualMU"
    ELSE IF \E k, i \in N : ~pos(k) /\ pos(i) /\ ~NotAbove(mu0(k), mu(i)) THEN "LowerAtZero"
    ELSE "ok"

\* a sequence of goods is ordered by decreasing key (ties in any order)
OrderedBy(o, key(_), NotBelow(_, _)) == \A a, b \in 1..Len(o) : a < b => NotBelow(key(o[a]), key(o[b]))

\* exact instance of the conditions
SumOver(C, f(_)) == SumSeq([i \in 1..NG |-> IF i \in C THEN f(i) ELSE Zero])
KktExact(x) ==
    LET pos(i) == QSign(x[i]) > 0
        mu(i)  == MUq(i, x[i])
    IN KktVerdict(Goods, pos, mu, MU0q, inst.out,
                  \E i \in Goods : QSign(x[i]) < 0,
                  QEq(SumOver(Goods, LAMBDA i : x[i]), inst.B),
                  QEq, QLeq)

\* the only candidate with consumed set C: first-order conditions + budget fix s
SOf(C)  == QDiv(QAdd(inst.B, SumOver(C, Bq)), SumOver(C, Aq))
Cand(C) == LET s == SOf(C) IN [i \in 1..NG |-> IF i \in C THEN ExpAt(i, s) ELSE Zero]
Demand(C, s) == SumOver(C, LAMBDA i : ExpAt(i, s))

(***************************************************************************)
(* Generator: the instance is built step by step.                          *)
(***************************************************************************)
Inside == Goods \ {inst.out}
SeqToSet(s) == {s[i] : i \in 1..Len(s)}
Perms(S) == {o \in [1..Cardinality(S) -> S] : \A a, b \in 1..Cardinality(S) : a # b => o[a] # o[b]}

Init == /\ stage = "goods"
        /\ inst \in {[v |-> v, ts |-> << >>, ds |-> << >>, out |-> 0, up |-> FALSE, sc |-> Zero, m |-> Zero, B |-> One] :
                     v \in Variants}
        /\ order = << >> /\ chosen = {} /\ next = 1 /\ sol = << >>

\* goods are added in non-decreasing type order (labels, not positions, distinguish the goods)
AddGood(t) ==
    /\ stage = "goods" /\ Len(inst.ts) < MaxGoods
    /\ t \in 1..Len(Types[inst.v])
    /\ IF Len(inst.ts) = 0 THEN TRUE ELSE t >= Last(inst.ts)
    /\ inst' = [inst EXCEPT !.ts = Append(@, t), !.ds = Append(@, t)]
    /\ UNCHANGED <<stage, order, chosen, next, sol>>

Configure(o, up, sc, m, b) ==
    /\ stage = "goods" /\ NG >= MinGoods
    /\ o \in 0..NG
    /\ up \in (IF HasPrices(inst.v) THEN BOOLEAN ELSE {FALSE})
    /\ up \/ \A i \in Goods : IsOne(Ty(i).pr)              \* without prices every price is 1
    /\ sc \in Scales
    /\ m \in (IF ExactMode /\ inst.v = "nonmono" THEN Ms ELSE {Zero})
    /\ b \in Budgets
    /\ inst' = [inst EXCEPT !.out = o, !.up = up, !.sc = sc, !.m = m, !.B = b]
    /\ stage' = IF Mode = "exact" THEN "order" ELSE IF Mode = "seq" THEN "plan" ELSE "emit"
    /\ UNCHANGED <<order, chosen, next, sol>>

(***************************************************************************)
(* The forecasting procedure (exact mode).                                 *)
(***************************************************************************)
Order ==
    /\ stage = "order"
    /\ \A i \in Goods : ExactGood(i)
    /\ \E o \in Perms(Inside) :
          /\ OrderedBy(o, MU0q, LAMBDA a, b : QLeq(b, a))
          /\ order' = o
    /\ chosen' = IF inst.out = 0 THEN {} ELSE {inst.out}
    /\ next' = 1 /\ stage' = "trying"
    /\ UNCHANGED <<inst, sol>>

\* would good k be consumed, given that the goods in C are?
Accepts(C, k) == IF Mutation = "always-accept" THEN TRUE
                 ELSE QLess(Demand(C, Thr(k)), inst.B)

TryNext ==
    /\ stage = "trying"
    /\ IF next <= Len(order) /\ Accepts(chosen, order[next])
       THEN /\ chosen' = chosen \cup {order[next]} /\ next' = next + 1 /\ stage' = stage
       ELSE /\ stage' = "solving" /\ UNCHANGED <<chosen, next>>
    /\ UNCHANGED <<inst, order, sol>>

Solve ==
    /\ stage = "solving"
    /\ sol' = Cand(chosen)
    /\ stage' = "solved"
    /\ UNCHANGED <<inst, order, chosen, next>>

Next == \/ \E t \in 1..Len(Types[inst.v]) : AddGood(t)
        \/ \E o \in 0..MaxGoods, up \in BOOLEAN, sc \in Scales, m \in Ms \cup {Zero}, b \in Budgets :
              Configure(o, up, sc, m, b)
        \/ Order \/ TryNext \/ Solve
Spec == Init /\ [][Next]_vars

(***************************************************************************)
(* Properties checked on the model (exact mode).                           *)
(***************************************************************************)
Solved == stage = "solved"

\* the point reached satisfies the first-order conditions
SolvedIsKkt == Solved => KktExact(sol) = "ok"

\* ... and it is the only such point: no other consumed set gives one
KktUnique ==
    Solved => \A C \in SUBSET Goods :
                 (C # {} /\ (inst.out # 0 => inst.out \in C) /\ QSign(SumOver(C, Aq)) > 0)
                 => (KktExact(Cand(C)) = "ok" => Cand(C) = sol)

\* the chosen set is exactly the set of consumed goods, the outside good among them
ChosenIsSupport == Solved => {i \in Goods : QSign(sol[i]) > 0} = chosen /\ (inst.out # 0 => inst.out \in chosen)

\* stopping at the first refusal loses nothing: no later good of the order would be accepted
StopIsSafe ==
    stage = "solving" => \A q \in next..Len(order) : ~QLess(Demand(chosen, Thr(order[q])), inst.B)

\* the goods tried so far are consumed at the candidate's threshold: demands are never negative
NoNegativeDemand ==
    stage = "trying" /\ next <= Len(order) =>
        \A j \in chosen : QSign(ExpAt(j, Thr(order[next]))) >= 0

\* the affine consumption inverts the derivative.  In every exact case the image of lambda is 1/s
\* (gamma: lambda = 1/s; translated, generalized: lambda^2 = 1/s; nonmono: (lambda - m)^2 = 1/s), so
\* MUq(i, e_i(s)) = 1/s wherever e_i(s) > 0, and the marginal utility at zero is reached at the threshold.
InverseInverts ==
    stage = "trying" =>
        /\ \A i \in Inside : QEq(MU0q(i), QInv(Thr(i)))
        /\ \A i \in Goods : \A k \in Inside : \A f \in ProbeS :
              LET s == QMul(f, Thr(k)) IN
              QSign(ExpAt(i, s)) > 0 => QEq(MUq(i, ExpAt(i, s)), QInv(s))

StagesOK == stage \in {"goods", "order", "trying", "solving", "solved", "emit"}
                     \cup (IF Mode = "seq" THEN {"plan", "idle", "reused", "seqdone"} ELSE {})

(***************************************************************************)
(* Emission: one JSON line per finished instance.                          *)
(***************************************************************************)
GoodRec(i) ==
    [V |-> VTerm(i), eps |-> EpsTerm(i), gam |-> Gam(i), pr |-> Price(i), al |-> Alpha(i), mu |-> MuOf(i),
     psi |-> PsiTerm(i), U |-> UTerm(i), dU |-> DUTerm(i), inv |-> InvTerm(i), ty |-> inst.ts[i]]

Common ==
    [mode |-> Mode, v |-> inst.v, n |-> NG, out |-> inst.out, up |-> inst.up, sc |-> inst.sc, m |-> inst.m,
     B |-> inst.B, goods |-> [i \in 1..NG |-> GoodRec(i)],
     labs |-> {l \in Labelings : Len(l) = NG}]

ExactRec ==
    [c |-> Common, order |-> order, chosen |-> chosen, s |-> SOf(chosen), lam |-> LambdaTerm(SOf(chosen)),
     x |-> sol, psiq |-> [i \in 1..NG |-> PsiQ(i)], mu0q |-> [i \in 1..NG |-> IF IsOut(i) THEN Zero ELSE MU0q(i)]]

EmitInv ==
    /\ Solved => PrintT(ToJson(ExactRec))
    /\ stage = "emit" => PrintT(ToJson([c |-> Common]))
=============================================================================
