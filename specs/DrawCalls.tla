----------------------------- MODULE DrawCalls -----------------------------
(***************************************************************************)
(* Histories of calls of catalogue generators inside ONE process (C11).    *)
(*                                                                         *)
(* The property speaks about "the generator returns an array ..." for      *)
(* each call: a result is a VALUE.  Nothing that happened before a call    *)
(* (which entries were asked before, in which order, what the caller did   *)
(* with the arrays it received) may change what the call returns, and a    *)
(* later call may not change an array returned earlier.                    *)
(*                                                                         *)
(*   Ask(nm, s)   a request generator(n, R) of entry nm is posted;         *)
(*   Reply        the action Gen of the design module DrawTypes answers it *)
(*                and the caller keeps the result (hist);                  *)
(*   Scribble(k)  the caller overwrites the k-th array it received (it     *)
(*                owns it: Database.generate_draws stacks the arrays, the  *)
(*                normal helper reshapes its argument in place).           *)
(*                                                                         *)
(* HistoryFree: every reply is what a first call would have returned.      *)
(* Retained: every array the caller has not overwritten still holds what   *)
(* was returned.  Both are consequences of results being values in the     *)
(* model; the driver replays every history in a fresh process of the real  *)
(* library and requires both of the real arrays.                           *)
(***************************************************************************)
EXTENDS DrawTypes

CONSTANTS
    CallNames,      \* entries that are asked
    CallSizes,      \* sizes <<n, R>>; one history uses one size
    MaxCalls,
    MaxScribbles

VARIABLES hist, log
cvars == <<name, n, R, u, out, done, hist, log>>

Fresh(nm, nn, RR) == {Build(Cat[nm], nn, RR, g) : g \in Underlying(Cat[nm], nn, RR)}
Scribbles == Cardinality({k \in 1..Len(hist) : ~hist[k].owned})
Pending == name # "" /\ ~done

CInit == /\ name = "" /\ n = 0 /\ R = 0 /\ u = << >> /\ out = << >> /\ done = FALSE
         /\ hist = << >> /\ log = << >>

Ask(nm, s) ==
    /\ ~Pending /\ Len(hist) < MaxCalls
    /\ IF hist = << >> THEN TRUE ELSE s = <<hist[1].n, hist[1].R>>
    /\ IF Cat[nm].anti THEN s[2] % 2 = 0 ELSE TRUE
    /\ name' = nm /\ n' = s[1] /\ R' = s[2]
    /\ u' = << >> /\ out' = << >> /\ done' = FALSE
    /\ UNCHANGED <<hist, log>>

Reply ==
    /\ Pending
    /\ Gen(name, n, R)                  \* the action of the design module
    /\ hist' = Append(hist, [name |-> name, n |-> n, R |-> R, val |-> out', owned |-> TRUE])
    /\ log' = Append(log, [op |-> "call", name |-> name, n |-> n, R |-> R, k |-> Len(hist) + 1, out |-> out'])

Scribble(k) ==
    /\ ~Pending /\ Len(hist) < MaxCalls /\ Scribbles < MaxScribbles
    /\ hist[k].owned
    /\ hist' = [hist EXCEPT ![k].owned = FALSE, ![k].val = << >>]
    /\ log' = Append(log, [op |-> "scribble", name |-> hist[k].name, n |-> hist[k].n, R |-> hist[k].R,
                           k |-> k, out |-> << >>])
    /\ UNCHANGED <<name, n, R, u, out, done>>

CNext == \/ \E nm \in CallNames : \E s \in CallSizes : Ask(nm, s)
         \/ Reply
         \/ \E k \in 1..Len(hist) : Scribble(k)
CallSpec == CInit /\ [][CNext]_cvars

---------------------------------------------------------------------------
HistoryFree == done => out \in Fresh(name, n, R)
Retained == \A k \in 1..Len(hist) :
                hist[k].owned => hist[k].val \in Fresh(hist[k].name, hist[k].n, hist[k].R)
\* a reply never changes what the caller holds
KeepsEarlier == [][\A k \in 1..Len(hist) : (hist[k].owned /\ hist'[k].owned) => hist'[k].val = hist[k].val]_cvars

Finished == done /\ Len(hist) = MaxCalls
CallsEmitted == [calls |-> log, retained |-> {k \in 1..Len(hist) : hist[k].owned}]
CallsEmitInv == Finished => PrintT(ToJson(CallsEmitted))
=============================================================================
