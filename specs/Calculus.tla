------------------------------- MODULE Calculus -------------------------------
(***************************************************************************)
(* The operators Derive and Integrate (property C10).                      *)
(*  Derive(f, name): the partial derivative of f with respect to the named *)
(*     parameter or variable.  Family: f = a*b^2 + c*b*x + d*x             *)
(*     d f / d b = 2*a*b + c*x        d f / d x = c*b + d                  *)
(*  Integrate(g, omega): the integral of g over the real line in omega.    *)
(*     Family: g = exp(-omega^2/2) * (p0 + p1*omega + p2*omega^2           *)
(*                                    + p3*omega^3 + p4*omega^4) * (b*x)   *)
(*     By the Gaussian moments (1, 0, 1, 0, 3):                            *)
(*     integral = sqrt(2*pi) * (p0 + p2 + 3*p4) * b * x                    *)
(* One behaviour = one case, emitted with its expected value (the integral *)
(* as the rational coefficient of sqrt(2*pi)).                             *)
(***************************************************************************)
EXTENDS Integers, Sequences, TLC, Json

CONSTANTS Coefs,    \* set of integer coefficients
          Bs, Xs    \* sets of integer values of the parameter and of the column

VARIABLES case, done
vars == <<case, done>>

DerivB(a, c, d, b, x) == 2 * a * b + c * x
DerivX(a, c, d, b, x) == c * b + d
Moment(k) == CASE k = 0 -> 1 [] k = 1 -> 0 [] k = 2 -> 1 [] k = 3 -> 0 [] k = 4 -> 3
IntCoef(p, b, x) == (p[1] * Moment(0) + p[2] * Moment(1) + p[3] * Moment(2) + p[4] * Moment(3) + p[5] * Moment(4)) * b * x

Init == /\ done = FALSE
        /\ \/ \E a, c, d \in Coefs, b \in Bs, x \in Xs :
                case = [kind |-> "derive", a |-> a, c |-> c, d |-> d, b |-> b, x |-> x,
                        db |-> DerivB(a, c, d, b, x), dx |-> DerivX(a, c, d, b, x)]
           \/ \E p \in [1..5 -> Coefs], b \in Bs, x \in Xs :
                /\ p[4] \in {0, 1} /\ p[5] \in {0, 1} /\ p[2] \in {0, 1}
                /\ case = [kind |-> "integrate", p |-> p, b |-> b, x |-> x, coef |-> IntCoef(p, b, x)]
Emit == ~done /\ done' = TRUE /\ UNCHANGED case
Next == Emit
Spec == Init /\ [][Next]_vars

\* odd powers contribute nothing; linearity in the coefficients
OddVanish == done /\ case.kind = "integrate" =>
    IntCoef([case.p EXCEPT ![2] = 0, ![4] = 0], case.b, case.x) = case.coef
\* the derivative in b of the family is linear in b: second difference vanishes
DerivLinear == done /\ case.kind = "derive" =>
    DerivB(case.a, case.c, case.d, case.b + 1, case.x) - case.db = 2 * case.a
EmitInv == done => PrintT(ToJson(case))
\* Next to draws: a draw variable whose series is constantly 1 is a constant factor; the derivative taken below or
\* above the Monte-Carlo operator of (formula x that draw) is the derivative of the formula (replayed by checks/c10.py:
\* the element a Derive NAMES keeps its meaning when the formula also contains draws).
=============================================================================
