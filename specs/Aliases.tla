------------------------------ MODULE Aliases ------------------------------
(***************************************************************************)
(* C20 -- every deprecated name behaves exactly like the function it       *)
(* points users to.                                                        *)
(*                                                                         *)
(* The model is Python attribute resolution, written from the language     *)
(* reference (not from biogeme):                                           *)
(*   - a NAMESPACE ("space") is a class or a module; a class has an        *)
(*     ordered list of direct bases, a module has none;                    *)
(*   - each space has its own dictionary  name -> function;                *)
(*   - the method resolution order of a class is the C3 linearisation of   *)
(*     its bases (Lin below, computed here, compared by the driver with    *)
(*     the interpreter's __mro__);                                         *)
(*   - looking a name up on an instance of class c (or on module c) finds  *)
(*     the entry of the first space of MRO[c] whose dictionary has it.     *)
(* A function is either ordinary ("fun") or a deprecation wrapper          *)
(* ("alias") that, when run, issues ONE warning "<own> is deprecated; use  *)
(* <newname> instead" and then forwards its arguments to the replacement,  *)
(* reached either through the function object CAPTURED when the alias was  *)
(* declared or DYNAMICally, by looking <newname> up on the receiver.       *)
(*                                                                         *)
(* Call(c, n) is "obj.n(args)" for obj an instance of exactly c (or        *)
(* "c.n(args)" for a module c).  Its outcome is the function that          *)
(* finally runs and the warnings issued on the way.                        *)
(*                                                                         *)
(* A space is an IDENTITY (the class object), not a name.  The name a      *)
(* class carries (__name__ / __qualname__, constant ClassName) takes no    *)
(* part in attribute resolution: Lin, Definer, Resolve and Exec below      *)
(* never mention it.  Two distinct classes may carry the same name         *)
(* ("class Database(biogeme.database.Database)" in a user's script, a      *)
(* module loaded twice); a subclass that carries the name of its parent    *)
(* and redefines the replacement is served by ITS OWN replacement like any *)
(* other subclass (SameNameInv).                                           *)
(*                                                                         *)
(* The property:                                                           *)
(*   ResolutionInv  for every receiver c and every alias n visible on c:   *)
(*                  Call(c, n) runs the function Call(c, newname) runs,    *)
(*                  and issues the same warnings plus exactly one          *)
(*                  (n -> newname) in front;                               *)
(*   ReplacementInv the advertised newname is the replacement the OLD NAME *)
(*                  designates: the unique non-deprecated name visible on  *)
(*                  c whose spelling equals the old one up to the casing   *)
(*                  convention (camelCase vs snake_case, i.e. case and     *)
(*                  underscores) after dropping a "_avail" suffix; or the  *)
(*                  pair is a documented rename;                           *)
(*   StaticDispatch an alias that is not handed the receiver (module-level *)
(*                  function, static method) never looks the replacement   *)
(*                  up on its first argument.                              *)
(* The constants are EXTRACTED from the imported package by the driver     *)
(* (vb/aliases.py); AliasesModel.tla binds them.  The second half of the   *)
(* module is the keyword-renaming decorator (KwForwardSets).               *)
(***************************************************************************)
EXTENDS Integers, Sequences, FiniteSets, TLC, Json

CONSTANTS
    Spaces,     \* set of space ids (strings)
    Modules,    \* subset of Spaces: the module spaces
    Bases,      \* [Spaces -> Seq(Spaces)]: direct bases in declaration order
    Table,      \* [Spaces -> [names -> function ids]]: own dictionaries
    Static,     \* set of <<space, name>>: bindings through staticmethod (the receiver is not passed)
    Home,       \* [Spaces -> Spaces \cup {""}]: the module whose body declares the class ("" if not modelled)
    Fn,         \* [function ids -> [kind, own, newname, captured, dispatch]]
    Spelling,   \* [names -> Seq(Nat)]: code points
    Renames,    \* set of <<old, new>>: documented renames (not a re-spelling)
    ClassName,  \* [Spaces -> STRING]: the __qualname__ of the class (NOT injective, never used to resolve)
    KwRenames   \* set of [fid, space, fname, old, new, drop, params, varkw, pos]  (pos = rank of the rule in the
                \* function's renaming table, 1..)

VARIABLES pc, recv, attr, ran, warned
vars == <<pc, recv, attr, ran, warned>>

Range(s) == {s[i] : i \in 1..Len(s)}
Min(S) == CHOOSE x \in S : \A y \in S : x <= y

(***************************************************************************)
(* C3 linearisation (Python reference, "The Python 2.3 Method Resolution   *)
(* Order"): L[C] = C + merge(L[B1], ..., L[Bn], <<B1..Bn>>); merge takes    *)
(* the first head that is in the tail of no list.                          *)
(***************************************************************************)
InTail(x, s) == \E i \in 2..Len(s) : s[i] = x

RECURSIVE Merge(_)
Merge(seqs) ==
    LET ne == SelectSeq(seqs, LAMBDA s : s # << >>) IN
    IF ne = << >> THEN << >>
    ELSE LET good == {i \in 1..Len(ne) : \A j \in 1..Len(ne) : ~InTail(Head(ne[i]), ne[j])} IN
         IF good = {} THEN <<"!inconsistent">>
         ELSE LET h == Head(ne[Min(good)]) IN
              <<h>> \o Merge([i \in 1..Len(ne) |-> IF Head(ne[i]) = h THEN Tail(ne[i]) ELSE ne[i]])

RECURSIVE Lin(_)
Lin(c) == IF Bases[c] = << >> THEN <<c>>
          ELSE <<c>> \o Merge([i \in 1..Len(Bases[c]) |-> Lin(Bases[c][i])] \o <<Bases[c]>>)

\* TLCEval: computed once (TLC would otherwise re-derive the lazy function at every application)
MRO == TLCEval([c \in Spaces |-> Lin(c)])

\* every class reachable upwards from c
RECURSIVE Ancestors(_)
Ancestors(c) == {c} \cup UNION {Ancestors(Bases[c][i]) : i \in 1..Len(Bases[c])}

\* (the facts about the constants are stated on the idle state: they never change)
MroInv == (pc = "idle") =>
    \A c \in Spaces :
        LET m == MRO[c] IN
        /\ m[1] = c
        /\ Range(m) = Ancestors(c)                                    \* everything inherited, nothing else
        /\ \A i, j \in 1..Len(m) : i # j => m[i] # m[j]               \* once each
        /\ \A k \in Range(m) :                                         \* local precedence, monotonicity
              LET pos(x) == CHOOSE i \in 1..Len(m) : m[i] = x IN
              /\ \A i \in 1..Len(Bases[k]) : pos(k) < pos(Bases[k][i])
              /\ \A i, j \in 1..Len(Bases[k]) : i < j => pos(Bases[k][i]) < pos(Bases[k][j])

(***************************************************************************)
(* Attribute lookup.                                                       *)
(***************************************************************************)
Defines(s, n) == n \in DOMAIN Table[s]
VisibleF == TLCEval([c \in Spaces |-> UNION {DOMAIN Table[MRO[c][i]] : i \in 1..Len(MRO[c])}])
Visible(c) == VisibleF[c]
FirstDefiner(c, n) == LET m == MRO[c] IN m[Min({i \in 1..Len(m) : Defines(m[i], n)})]
DefinerF == TLCEval([c \in Spaces |-> [n \in VisibleF[c] |-> FirstDefiner(c, n)]])      \* (computed once)
Definer(c, n) == DefinerF[c][n]                      \* the space that supplies n; needs n \in Visible(c)
Resolve(c, n) == Table[Definer(c, n)][n]            \* function id
IsAlias(f) == Fn[f].kind = "alias"

\* obj.n(args) runs f(obj, args) for a function found in a class, f(args) for a static method
\* and for a function of a module
PassesReceiver(c, n) == c \notin Modules /\ <<Definer(c, n), n>> \notin Static

(***************************************************************************)
(* Running function f for a call on receiver c: what finally runs, and the *)
(* warnings.  A wrapper that finds nothing to forward to "runs" the pseudo *)
(* function "!missing"; one that looks the replacement up on its first     *)
(* argument although that is not the receiver runs "!firstarg" (whatever   *)
(* the caller's argument happens to have under that name); a cycle of      *)
(* aliases runs "!loop".                                                   *)
(***************************************************************************)
Warn(f) == [old |-> Fn[f].own, new |-> Fn[f].newname]

RECURSIVE Exec(_, _, _, _)
Exec(c, f, passes, fuel) ==
    IF ~IsAlias(f) THEN [ran |-> f, warned |-> << >>]
    ELSE IF fuel = 0 THEN [ran |-> "!loop", warned |-> << >>]
    ELSE LET nxt == IF Fn[f].dispatch = "dynamic"
                    THEN (IF ~passes THEN "!firstarg"
                          ELSE IF Fn[f].newname \in Visible(c) THEN Resolve(c, Fn[f].newname) ELSE "!missing")
                    ELSE IF Fn[f].dispatch = "captured" THEN Fn[f].captured
                    ELSE "!missing"
         IN  IF nxt \in {"!missing", "!firstarg"} THEN [ran |-> nxt, warned |-> <<Warn(f)>>]
             ELSE LET r == Exec(c, nxt, passes, fuel - 1) IN [ran |-> r.ran, warned |-> <<Warn(f)>> \o r.warned]

Fuel == 4
Outcome(c, n) == Exec(c, Resolve(c, n), PassesReceiver(c, n), Fuel)

(***************************************************************************)
(* Spelling: the casing convention.  Norm drops a trailing "_avail", then  *)
(* lower-cases and removes the word separators, so that "getLaTeX",        *)
(* "get_latex", "calcPValue", "calc_p_value", "AIC_BIC_dimension",         *)
(* "aic_bic_dimension" fall together while "logcnl" and "cnl" do not.      *)
(***************************************************************************)
Lower(ch) == IF ch >= 65 /\ ch <= 90 THEN ch + 32 ELSE ch
AvailSuffix == <<95, 97, 118, 97, 105, 108>>        \* "_avail"
DropAvail(s) == IF Len(s) > 6 /\ SubSeq(s, Len(s) - 5, Len(s)) = AvailSuffix THEN SubSeq(s, 1, Len(s) - 6) ELSE s
Squash(s) == LET t == SelectSeq(s, LAMBDA ch : ch # 95) IN [i \in 1..Len(t) |-> Lower(t[i])]
NormF == TLCEval([n \in DOMAIN Spelling |-> Squash(DropAvail(Spelling[n]))])
Norm(n) == NormF[n]

\* the names on receiver c that the old name n can designate: visible, not deprecated themselves
Candidates(c, n) == {m \in Visible(c) : ~IsAlias(Resolve(c, m)) /\ Norm(m) = Norm(n)}
RenamedTo(n) == {p[2] : p \in {q \in Renames : q[1] = n}}

IsAliasAt(c, n) == IsAlias(Resolve(c, n))
NewOf(c, n) == Fn[Resolve(c, n)].newname

(***************************************************************************)
(* Where "use <new> instead" can be followed from a call of alias n on     *)
(* receiver c: on the receiver itself; or -- only for a binding that does  *)
(* not pass the receiver -- in the module whose body declares the class    *)
(* (a plain function there takes the same arguments as the static method). *)
(***************************************************************************)
NewSpace(c, n) ==
    LET new == NewOf(c, n)
        home == Home[Definer(c, n)]
    IN  IF new \in Visible(c) THEN c
        ELSE IF c \notin Modules /\ ~PassesReceiver(c, n) /\ home \in Spaces /\ new \in Visible(home) THEN home
        ELSE "!missing"

ReplacementOK(c, n, new) ==
    LET sp == NewSpace(c, n) IN
    /\ sp # "!missing"
    /\ sp # c => Candidates(c, n) = {}
    /\ \/ Candidates(sp, n) = {new}
       \/ /\ Candidates(sp, n) = {}
          /\ new \in RenamedTo(n)
          /\ ~IsAlias(Resolve(sp, new))

(***************************************************************************)
(* The state machine: from idle, any deprecated name visible on a receiver *)
(* (and any name such an alias advertises) may be called on it; Return     *)
(* goes back to idle.                                                      *)
(***************************************************************************)
Init == pc = "idle" /\ recv = "" /\ attr = "" /\ ran = "" /\ warned = << >>

Call(c, n) ==
    /\ pc = "idle"
    /\ LET o == Outcome(c, n) IN
       /\ ran' = o.ran
       /\ warned' = o.warned
    /\ pc' = "called" /\ recv' = c /\ attr' = n

Return == pc = "called" /\ pc' = "idle" /\ recv' = "" /\ attr' = "" /\ ran' = "" /\ warned' = << >>

\* the calls worth making: every deprecated name visible on the receiver, and every name one of them advertises
Interesting(c) == LET al == {n \in Visible(c) : IsAlias(Resolve(c, n))}
                  IN  al \cup ({Fn[Resolve(c, a)].newname : a \in al} \cap Visible(c))
Next == Return \/ \E c \in Spaces : \E n \in Interesting(c) : Call(c, n)
Spec == Init /\ [][Next]_vars

TypeOK ==
    /\ pc \in {"idle", "called"}
    /\ pc = "called" => recv \in Spaces /\ attr \in Visible(recv)

\* the extracted constants are well formed (checked in the idle state: they do not change)
StaticOK == (pc = "idle") =>
    /\ \A f \in DOMAIN Fn : Fn[f].kind \in {"fun", "alias"}
    /\ \A s \in Spaces : \A n \in DOMAIN Table[s] : Table[s][n] \in DOMAIN Fn
    /\ \A f \in DOMAIN Fn : IsAlias(f) => Fn[f].captured \in DOMAIN Fn
    /\ Modules \subseteq Spaces /\ \A m \in Modules : Bases[m] = << >>
    /\ \A b \in Static : b[1] \in Spaces \ Modules /\ b[2] \in DOMAIN Table[b[1]]
    /\ \A s \in Spaces : Home[s] \in Modules \cup {""}

CalledAlias == pc = "called" /\ IsAlias(Resolve(recv, attr))

\* an ordinary function runs itself, silently
PlainInv == (pc = "called" /\ ~IsAlias(Resolve(recv, attr))) => (ran = Resolve(recv, attr) /\ warned = << >>)

\* the warning names the name that was called (a wrapper bound under another name would lie)
OwnNameInv == CalledAlias => Fn[Resolve(recv, attr)].own = attr

ResolutionOK(c, n) ==
    LET new == NewOf(c, n)
        sp  == NewSpace(c, n)
        old == Outcome(c, n)
    IN  /\ sp # "!missing"
        /\ PassesReceiver(c, n) = PassesReceiver(sp, new)        \* same calling convention: same arguments accepted
        /\ old.ran \notin {"!missing", "!loop", "!firstarg"}
        /\ old.ran = Outcome(sp, new).ran
        /\ old.warned = <<[old |-> n, new |-> new]>> \o Outcome(sp, new).warned

ResolutionInv == CalledAlias => ResolutionOK(recv, attr)
ReplacementInv == CalledAlias => ReplacementOK(recv, attr, NewOf(recv, attr))
\* a wrapper that is not handed the receiver must not look the replacement up on its first argument
StaticDispatchOK(c, n) == ~PassesReceiver(c, n) => Fn[Resolve(c, n)].dispatch = "captured"
StaticDispatch == CalledAlias => StaticDispatchOK(recv, attr)

(***************************************************************************)
(* Resolution is by MRO, never by class name.  NamesakeAncestors(c) = the  *)
(* proper ancestors of c that carry the same name as c.  For a receiver    *)
(* that has one and itself redefines the advertised name, the alias (which *)
(* it inherits, the receiver being passed) must run what the receiver's    *)
(* OWN dictionary binds: the first space of MRO[c] is c, whatever c is     *)
(* called.  A wrapper that recognised "its" class by name and served it    *)
(* with the captured function would violate this (and ResolutionInv).      *)
(***************************************************************************)
NamesakeAncestors(c) == {d \in Ancestors(c) \ {c} : ClassName[d] = ClassName[c]}
Namesakes == {c \in Spaces \ Modules : NamesakeAncestors(c) # {}}
SameNameOK(c, n) ==
    LET new == NewOf(c, n) IN
    (c \in Namesakes /\ PassesReceiver(c, n) /\ Defines(c, new)) =>
        /\ Definer(c, new) = c                                         \* own dictionary first ...
        /\ Outcome(c, n).ran = Exec(c, Table[c][new], TRUE, Fuel).ran    \* ... and that is what the old name runs
SameNameInv == CalledAlias => SameNameOK(recv, attr)
\* the spaces are identities: a name shared by two spaces does not merge their dictionaries or bases
IdentityInv == (pc = "idle") =>
    \A c \in Namesakes : \A d \in NamesakeAncestors(c) : c # d /\ MRO[c] # MRO[d] /\ MRO[c][1] = c

(***************************************************************************)
(* What is handed to the driver: one record per (receiver, alias) with     *)
(* the spec's expectations and verdicts, and the linearisations.           *)
(***************************************************************************)
PairRecord(c, n) ==
    LET new == NewOf(c, n)
        sp  == NewSpace(c, n)
        vis == sp # "!missing"
    IN  [kind |-> "pair", space |-> c, alias |-> n, newname |-> new,
         alias_definer |-> Definer(c, n),
         passes_receiver |-> PassesReceiver(c, n),
         new_space |-> sp,
         expected_definer |-> IF vis THEN Definer(sp, new) ELSE "!missing",
         expected_fid |-> IF vis THEN Outcome(sp, new).ran ELSE "!missing",
         model_runs |-> Outcome(c, n).ran,
         dispatch |-> Fn[Resolve(c, n)].dispatch,
         resolution_ok |-> ResolutionOK(c, n),
         replacement_ok |-> ReplacementOK(c, n, new),
         candidates |-> IF vis THEN Candidates(sp, n) ELSE Candidates(c, n),
         static_dispatch_ok |-> StaticDispatchOK(c, n),
         own_ok |-> Fn[Resolve(c, n)].own = n,
         printed_name |-> ClassName[c],
         namesake_of |-> NamesakeAncestors(c),
         same_name_ok |-> SameNameOK(c, n)]

EmitInv == CalledAlias => PrintT(ToJson(PairRecord(recv, attr)))
EmitMro == (pc = "idle") => PrintT(ToJson([kind |-> "mro", mro |-> MRO]))

(***************************************************************************)
(* Keyword renaming (deprecated_parameters).  A call gives keyword         *)
(* arguments IN SOME ORDER (a sequence: Python hands **kwargs over in the  *)
(* order of the call); an obsolete keyword with a replacement is           *)
(* passed under the replacement's name with the same value and one         *)
(* warning; an obsolete keyword without replacement is dropped with one    *)
(* warning; everything else, positional arguments included, is untouched.  *)
(* When the old and the new keyword are BOTH given the documentation says  *)
(* nothing: the model only requires that one of the two values arrives.    *)
(***************************************************************************)
KwOf(f) == {r \in KwRenames : r.fid = f}
KwFns == {r.fid : r \in KwRenames}
IsObsolete(f, k) == \E r \in KwOf(f) : r.old = k
RuleFor(f, k) == CHOOSE r \in KwOf(f) : r.old = k

\* given: sequence of <<name, value>>.  The set of admissible forwarded keyword sets
\* (each a set of <<name, value>>).
RECURSIVE KwForwardSets(_, _)
KwForwardSets(f, given) ==
    IF given = << >> THEN {{}}
    ELSE LET k == Head(given)[1]
             v == Head(given)[2]
             rest == KwForwardSets(f, Tail(given))
             tgt == IF ~IsObsolete(f, k) THEN k ELSE IF RuleFor(f, k).drop THEN "" ELSE RuleFor(f, k).new
         IN  IF tgt = "" THEN rest
             ELSE UNION {IF \E p \in S : p[1] = tgt
                         THEN {S, {p \in S : p[1] # tgt} \cup {<<tgt, v>>}}      \* both given: either value
                         ELSE {S \cup {<<tgt, v>>}} : S \in rest}
KwWarnings(f, given) == Cardinality({i \in 1..Len(given) : IsObsolete(f, given[i][1])})

\* the replacement keyword exists in the wrapped function, and is not itself obsolete;
\* the spelling rule applies to keywords too
KwTargetOK(r) == r.drop \/ (/\ (r.new \in r.params \/ r.varkw)
                            /\ ~IsObsolete(r.fid, r.new)
                            /\ (Squash(Spelling[r.old]) = Squash(Spelling[r.new]) \/ <<r.old, r.new>> \in Renames))
KwOldGone(r) == r.old \notin r.params       \* the old keyword is not ALSO a live parameter
KwInv == (pc = "idle") => \A r \in KwRenames : KwTargetOK(r) /\ KwOldGone(r)

\* cases for one renaming rule r: the keywords given (values are small numbers the driver maps to objects; 3 is None)
KwCases(r) ==
    LET other == "zz_other" IN      \* a keyword that no rule mentions
    IF r.drop
    THEN {<<<<r.old, 1>>>>, <<<<r.old, 3>>>>, <<<<other, 2>>, <<r.old, 1>>>>, <<<<other, 2>>>>}
    ELSE {<<<<r.old, 1>>>>, <<<<r.old, 3>>>>, <<<<r.new, 1>>>>,
          <<<<r.old, 1>>, <<r.new, 2>>>>, <<<<r.new, 2>>, <<r.old, 1>>>>,
          <<<<other, 4>>, <<r.old, 1>>>>, <<<<other, 4>>>>}

KwRecord(r, given) ==
    [kind |-> "kw", fid |-> r.fid, space |-> r.space, fname |-> r.fname, old |-> r.old, new |-> r.new,
     given |-> given,
     obsolete_given |-> {given[i][1] : i \in {j \in 1..Len(given) : IsObsolete(r.fid, given[j][1])}},
     forwarded_options |-> KwForwardSets(r.fid, given),
     warnings |-> KwWarnings(r.fid, given),
     target_ok |-> KwTargetOK(r), old_gone |-> KwOldGone(r)]

\* model-level facts about the forwarding function itself
KwModelInv == (pc = "idle") =>
    \A r \in KwRenames : \A g \in KwCases(r) : \A S \in KwForwardSets(r.fid, g) :
        /\ \A p \in S : ~IsObsolete(r.fid, p[1])                              \* no obsolete keyword arrives
        /\ \A p, q \in S : p[1] = q[1] => p = q                                \* each keyword once
        /\ \A p \in S : \E i \in 1..Len(g) : g[i][2] = p[2]                    \* values are given values
        /\ \A i \in 1..Len(g) : ~IsObsolete(r.fid, g[i][1]) =>                 \* live keywords arrive...
              \E p \in S : p[1] = g[i][1] /\ (p[2] = g[i][2] \/ \E j \in 1..Len(g) : j # i /\ IsObsolete(r.fid, g[j][1]))

(***************************************************************************)
(* ORDER.  A call is a SEQUENCE of keywords; what arrives is a SET: the    *)
(* position of a keyword, in particular of an ignored one, changes nothing *)
(* for the others.  KwOrdered(f) = every injective sequence (length        *)
(* 2..KwMaxLen) over a pool of keywords of f that mixes the three kinds:   *)
(*   - every obsolete keyword that is IGNORED (rule without replacement),   *)
(*   - the first two obsolete keywords that are renamed (old style),       *)
(*   - new-style keywords: the replacement of the LAST renaming rule (when *)
(*     that rule's old keyword is not in the pool) and a keyword no rule   *)
(*     mentions.                                                           *)
(* No keyword of the pool is the replacement of another one, so exactly    *)
(* one forwarded set is admissible: KwDirect, the order-free statement of  *)
(* the documentation.  KwOrderInv: the recursive, order-following          *)
(* KwForwardSets agrees with it for every order; removing an ignored       *)
(* keyword from any position changes nothing else.                         *)
(***************************************************************************)
KwMaxLen == 5
KwOther == "zz_other"
KwDropped(f)  == {r \in KwOf(f) : r.drop}
KwRenamed(f)  == {r \in KwOf(f) : ~r.drop}
RankAmong(R, r) == Cardinality({q \in R : q.pos <= r.pos})
KwOldPool(f)  == {r \in KwRenamed(f) : RankAmong(KwRenamed(f), r) <= 2}
KwLastRule(f) == {r \in KwRenamed(f) : RankAmong(KwRenamed(f), r) = Cardinality(KwRenamed(f))} \ KwOldPool(f)
RECURSIVE SeqOfRules(_)
SeqOfRules(R) == IF R = {} THEN << >>
                 ELSE LET r == CHOOSE q \in R : \A q2 \in R : q.pos <= q2.pos IN <<r>> \o SeqOfRules(R \ {r})
Olds(sq) == [i \in 1..Len(sq) |-> sq[i].old]
\* the pool, as a sequence: the value a keyword carries is its rank in the pool (3 is None for the driver)
KwPool(f) == Olds(SeqOfRules(KwDropped(f))) \o Olds(SeqOfRules(KwOldPool(f)))
             \o [i \in 1..Cardinality(KwLastRule(f)) |-> (CHOOSE r \in KwLastRule(f) : TRUE).new] \o <<KwOther>>
InjSeqs(n, lo, hi) == UNION {{s \in [1..l -> 1..n] : \A i, j \in 1..l : i # j => s[i] # s[j]} : l \in lo..hi}
KwOrdered(f) == LET pool == KwPool(f) IN
                {[i \in 1..Len(s) |-> <<pool[s[i]], s[i]>>] : s \in InjSeqs(Len(pool), 2, KwMaxLen)}

KwTarget(f, k) == IF ~IsObsolete(f, k) THEN k ELSE IF RuleFor(f, k).drop THEN "" ELSE RuleFor(f, k).new
\* the documentation, order-free: every keyword that is not ignored arrives once, under its current name, with its value
KwDirect(f, given) == {<<KwTarget(f, given[i][1]), given[i][2]>> : i \in {j \in 1..Len(given) : KwTarget(f, given[j][1]) # ""}}
Without(sq, i) == [j \in 1..(Len(sq) - 1) |-> IF j < i THEN sq[j] ELSE sq[j + 1]]
KwKind(f, k) == IF ~IsObsolete(f, k) THEN "new-style" ELSE IF RuleFor(f, k).drop THEN "ignored" ELSE "old-style"

KwOrderInv == (pc = "idle") =>
    \A f \in KwFns : \A g \in KwOrdered(f) :
        /\ KwForwardSets(f, g) = {KwDirect(f, g)}                              \* one admissible set, the order-free one
        /\ Cardinality(KwDirect(f, g)) = Cardinality({i \in 1..Len(g) : KwKind(f, g[i][1]) # "ignored"})
        /\ \A i \in 1..Len(g) : KwKind(f, g[i][1]) = "ignored" =>               \* an ignored keyword, wherever it stands
              /\ KwForwardSets(f, g) = KwForwardSets(f, Without(g, i))
              /\ KwWarnings(f, g) = KwWarnings(f, Without(g, i)) + 1
        /\ \A i \in 1..Len(g) : KwKind(f, g[i][1]) # "ignored" =>               \* every other keyword arrives with ITS value
              <<KwTarget(f, g[i][1]), g[i][2]>> \in KwDirect(f, g)

KwSeqRecord(f, g) ==
    [kind |-> "kwseq", fid |-> f, given |-> g,
     kinds |-> [i \in 1..Len(g) |-> KwKind(f, g[i][1])],
     obsolete_given |-> {g[i][1] : i \in {j \in 1..Len(g) : IsObsolete(f, g[j][1])}},
     forwarded_options |-> KwForwardSets(f, g),
     warnings |-> KwWarnings(f, g)]
EmitKwOrder == (pc = "idle") => \A f \in KwFns : \A g \in KwOrdered(f) : PrintT(ToJson(KwSeqRecord(f, g)))

EmitKw == (pc = "idle") => \A r \in KwRenames : \A g \in KwCases(r) : PrintT(ToJson(KwRecord(r, g)))
=============================================================================
