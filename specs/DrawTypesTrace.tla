--------------------------- MODULE DrawTypesTrace ---------------------------
(***************************************************************************)
(* Trace validation for the draw catalogue (code -> spec).                 *)
(*                                                                         *)
(* The trace file is a sequence of events recorded from the real code:     *)
(*   kind = "gen"      one call native_random_number_generators[name]      *)
(*                     .generator(n, R): observed shape, and per point     *)
(*                     (row-major) the support flag, the value `v`, its    *)
(*                     advertised mirror `m` (1-v resp. -v, computed by    *)
(*                     the driver in floating point), `s` = 2x-1 of the    *)
(*                     unit entry under the same random stream, `q` = the  *)
(*                     value is the normal quantile of its underlying      *)
(*                     uniform; `st` = floor(u*G) of the generated part.   *)
(*                     Floats are carried as hex strings: TLC only decides *)
(*                     equalities between the positions the spec pairs.    *)
(*   kind = "quantile" one batch of samples u of one cell of (0,1) put     *)
(*                     through get_normal_wichura_draws(uniform_numbers=u) *)
(*                     with the flag Phi(z) = u per sample.                *)
(*   kind = "end"      closes the file: the quantile batches must cover    *)
(*                     every one of the `ncells` cells of the unit         *)
(*                     interval.                                           *)
(* Each event is consumed by one step, judged with the acceptance          *)
(* predicates of DrawTypes (the same that every behaviour of the model     *)
(* satisfies, invariant Accepted), and a verdict is printed per event, so  *)
(* verdicts are total; the driver requires "ok" for all.                   *)
(***************************************************************************)
EXTENDS DrawTypes, IOUtils

Trace == JsonDeserialize(IOEnv.TRACE_FILE)
NT == Len(Trace)

VARIABLES t
tvars == <<t, name, n, R, u, out, done>>

TInit == t = 1 /\ name = "" /\ n = 0 /\ R = 0 /\ u = << >> /\ out = << >> /\ done = FALSE

Obs(ev) == [rows |-> ev.rows, cols |-> ev.cols, pts |-> ev.pts, st |-> ev.st]

GenVerdict(ev) ==
    IF ev.name \notin Names THEN [tid |-> ev.tid, verdict |-> "unknown-name", fails |-> {"unknown-name"}, qbad |-> {}]
    ELSE LET fs == Fails(ev.name, ev.n, ev.R, Obs(ev)) IN
         [tid |-> ev.tid, verdict |-> FirstOf(fs), fails |-> fs,
          qbad |-> IF "shape" \in fs THEN {} ELSE QuantBad(Cat[ev.name], Obs(ev))]

\* the call Gen(name, n, R) of the design module as far as it is observable: the request is
\* the recorded one, the output must be an accepted observation
GenStep ==
    /\ t <= NT /\ Trace[t].kind = "gen"
    /\ LET v == GenVerdict(Trace[t]) IN
       /\ PrintT(ToJson(v))
       /\ done' = (v.verdict = "ok")
    /\ name' = Trace[t].name /\ n' = Trace[t].n /\ R' = Trace[t].R
    /\ t' = t + 1
    /\ UNCHANGED <<u, out>>

QuantileStep ==
    /\ t <= NT /\ Trace[t].kind = "quantile"
    /\ LET bad == ProbitBad(Trace[t].oks) IN
       PrintT(ToJson([tid |-> Trace[t].tid, verdict |-> IF bad = {} THEN "ok" ELSE "quantile",
                      fails |-> IF bad = {} THEN {} ELSE {"quantile"}, qbad |-> bad]))
    /\ t' = t + 1
    /\ UNCHANGED <<name, n, R, u, out, done>>

CellsSeen == {Trace[i].cell : i \in {k \in 1..NT : Trace[k].kind = "quantile"}}

EndStep ==
    /\ t <= NT /\ Trace[t].kind = "end"
    /\ LET missing == (0..(Trace[t].ncells - 1)) \ CellsSeen IN
       PrintT(ToJson([tid |-> Trace[t].tid, verdict |-> IF missing = {} THEN "ok" ELSE "coverage",
                      fails |-> IF missing = {} THEN {} ELSE {"coverage"}, qbad |-> missing]))
    /\ t' = t + 1
    /\ UNCHANGED <<name, n, R, u, out, done>>

TNext == GenStep \/ QuantileStep \/ EndStep
TraceSpec == TInit /\ [][TNext]_tvars

\* every event is consumed in order (the walk is linear: one successor per state)
Progress == t \in 1..(NT + 1)
=============================================================================
