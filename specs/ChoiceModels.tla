---------------------------- MODULE ChoiceModels ----------------------------
(***************************************************************************)
(* Discrete choice models as the documentation and the literature state    *)
(* them (McFadden 1978; Ben-Akiva & Lerman 1985; Bierlaire 2006 for the    *)
(* cross-nested logit; Train 2009 ch. 7 for the ordered models):           *)
(*                                                                         *)
(*   logit, nested logit (NL), cross-nested logit (CNL), each NL / CNL     *)
(*   with or without an explicit scale mu, MEV models given by the user    *)
(*   through the terms G_i, ordered logit and ordered probit.              *)
(*                                                                         *)
(* One observation = J alternatives with arbitrary integer LABELS, an      *)
(* availability pattern, utilities V_i = ln a_i with a_i a small positive  *)
(* integer, so that y_i = e^{V_i} = a_i is exact.  Everything is a pure    *)
(* definition over module Term: exact rationals where the value is         *)
(* rational (integer exponents, perfect powers), a TERM over the           *)
(* uninterpreted primitives pow / phi otherwise (the driver interprets     *)
(* them); which alternative enters which sum with which exponent -- where  *)
(* such formulas go wrong -- is always decided here.                       *)
(*                                                                         *)
(* Three independent statements of the NL / CNL probabilities are given    *)
(* and tied together by invariants:                                        *)
(*   (1) the MEV theorem:    P_i = y_i G_i(y) / sum_j y_j G_j(y),          *)
(*       with G the generating function and G_i its partial derivative;    *)
(*   (2) the decomposition:  P_i = sum_m P(m) P(i | m);                    *)
(*   (3) the textbook closed form of the nested logit.                     *)
(*                                                                         *)
(* What is NOT part of a model is stated as well:                          *)
(*   - the NAMES of the nest objects (component `names` of a case, read by *)
(*     no definition; invariant NamesIrrelevant quantifies over Namings);  *)
(*   - earlier constructions: a model is a function of the arguments it is *)
(*     built from, as they are at that moment.  With Steps = 2 a behaviour *)
(*     goes on after the first construction: the user's objects (utility   *)
(*     dictionary, availability dictionary; the nests stay the same) are   *)
(*     modified and the model is built again (Rebuild); the observable is  *)
(*     the value of the NEW arguments (invariant Memoryless).              *)
(*                                                                         *)
(* A small generator builds one CASE in stages (shape, structure,          *)
(* observation); TLC explores all cases, checks the invariants on the      *)
(* model and prints every finished case with the expected probability of   *)
(* every alternative, G and dG/dy_i (Emit); the drivers (vb/choicemodels)  *)
(* replay the case into the model functions of biogeme and compare.        *)
(***************************************************************************)
EXTENDS Integers, Sequences, FiniteSets, TLC, Json, Term

CONSTANTS
    Mutation,     \* "none"; other values switch ONE definition to a known-wrong variant (negative controls)
    Steps,        \* 1: a behaviour is one construction;  2: a second construction from the modified objects follows
    Namings,      \* set of <<name_1, name_2>>: ways of naming the two nest objects ("" = the nest is given no name)
    Kinds,        \* subset of {"logit", "nl", "cnl", "mev", "ologit", "oprobit"}
    LabelSeqs,    \* set of sequences of distinct integer labels (2..4 of them, not contiguous, any order)
    AVecs,        \* set of sequences over 1..4: y_i = e^{V_i}; those of the right length are used
    NlMuPairs,    \* set of <<mu_1, mu_2>> (rationals >= 1) offered to the two nests of a nested logit
    CnlMuPairs,   \* the same for the cross-nested logit
    TopMus,       \* set of rationals: the scale mu
    AlphaRows,    \* set of <<alpha_i1, alpha_i2>>: allocation of one alternative to the two nests (<<0,0>> = alone)
    ShiftCs,      \* set of integers c > 1:  a -> c a   (a constant ln c added to all utilities)
    GVals,        \* set of positive rationals: user-supplied G_i of a MEV model
    OrdLabelSeqs, \* set of sequences of category labels (2..4)
    OrdRs,        \* ordered logit: e^x      (positive rationals)
    OrdT1s,       \* ordered logit: e^{tau_1} (positive rationals)
    OrdRatios,    \* ordered logit: e^{tau_{k+1} - tau_k} >= 1
    PrbXs,        \* ordered probit: x
    PrbT1s,       \* ordered probit: tau_1
    PrbDiffs      \* ordered probit: tau_{k+1} - tau_k >= 0

VARIABLES stage, c, out, prev
vars == <<stage, c, out, prev>>

ChoiceKinds == {"logit", "nl", "cnl", "mev"}
OrdKinds    == {"ologit", "oprobit"}

(***************************************************************************)
(* Values.                                                                 *)
(***************************************************************************)
RECURSIVE Compact(_)
Compact(t) == IF IsQ(t) THEN <<t.n, t.d>>
              ELSE [f |-> t.f, a |-> [j \in 1..Len(t.a) |-> Compact(t.a[j])]]
CompactSeq(s) == [i \in 1..Len(s) |-> Compact(s[i])]
AllQ(s) == \A i \in 1..Len(s) : IsQ(s[i])
\* "equal wherever TLC can decide": both rational => equal
SameVal(x, y) == (IsQ(x) /\ IsQ(y)) => QEq(x, y)
SameSeq(s, t) == Len(s) = Len(t) /\ \A i \in 1..Len(s) : SameVal(s[i], t[i])

\* integer q-th root of n >= 0 (q in 2..4), or -1; roots above the bound are not looked for (the value
\* then stays a term, which is sound: the driver interprets it)
RPow(r, q) == CASE q = 2 -> r * r [] q = 3 -> r * r * r [] q = 4 -> r * r * r * r [] OTHER -> IPow(r, q)
RootBound(q) == CASE q = 2 -> 200 [] q = 3 -> 30 [] OTHER -> 12
RootOf(n, q) == LET B == IF n < RootBound(q) THEN n ELSE RootBound(q)
                    R == {r \in 0..B : RPow(r, q) = n}
                IN  IF R = {} THEN 0 - 1 ELSE CHOOSE r \in R : TRUE

\* x^e for a value x >= 0 and a rational exponent e (0^e only with e > 0)
Pow(x, e) ==
    IF IsZero(e) THEN One
    ELSE IF IsOne(e) THEN x
    ELSE IF ~IsQ(x) THEN App("pow", <<x, e>>)
    ELSE IF e.d = 1 THEN QPowInt(x, e.n)
    ELSE LET rn == RootOf(x.n, e.d)
             rd == RootOf(x.d, e.d)
         IN  IF rn >= 0 /\ rd > 0 THEN QPowInt(Q(rn, rd), e.n) ELSE App("pow", <<x, e>>)

(***************************************************************************)
(* The structure of a case.                                                *)
(*   labels : the alternatives, in the user's order                        *)
(*   alpha  : alpha[i] = <<alpha_i1, alpha_i2>>; NL: 0/1 entries, at most  *)
(*            one 1; a row of zeros = alternative alone in its own nest    *)
(*   mus    : <<mu_1, mu_2>>, mu: the scale                                *)
(*   a, av  : y_i = a_i, availability                                      *)
(*   names  : <<name_1, name_2>> the names the user gives to the two nest  *)
(*            objects ("" = none: the library then gives a default name,   *)
(*            "nest_<position>" or the like).  Names are labels for        *)
(*            messages: NO definition of this module reads them (only the  *)
(*            mutant "names-matter" does, through EffName).                *)
(***************************************************************************)
N(cc)    == Len(cc.labels)
Alts(cc) == 1..N(cc)
NestIds  == {1, 2}
\* the mutant keys the nests by their (effective) name: a second nest with the name of the first one
\* takes its place, i.e. both share the parameter of the second.  (Both nests in use: nest m is then the
\* m-th nest object handed to the library; the mutant's library names an unnamed one "nest_<m>".)
EffName(cc, m) == IF cc.names[m] = "" THEN (IF m = 1 THEN "nest_1" ELSE "nest_2") ELSE cc.names[m]
Al(cc, i, m)  == cc.alpha[i][m]
Alone(cc, i)  == \A m \in NestIds : IsZero(Al(cc, i, m))
Used(cc, m)   == \E i \in Alts(cc) : ~IsZero(Al(cc, i, m))
\* the availability factor (the mutant forgets it)
Av(cc, i)     == IF Mutation = "no-availability" THEN TRUE ELSE cc.av[i]
SumAlts(cc, F(_)) == SumSeq([i \in Alts(cc) |-> F(i)])
SumNests(cc, F(_)) == SumSeq([m \in 1..2 |-> IF Used(cc, m) THEN F(m) ELSE Zero])

(***************************************************************************)
(* LOGIT.   P_i = av_i e^{V_i} / sum_j av_j e^{V_j}                        *)
(***************************************************************************)
LogitW(cc, y, i) == IF Av(cc, i) THEN y[i] ELSE Zero
PLogit(cc, y) == LET den == SumAlts(cc, LAMBDA j : LogitW(cc, y, j))
                 IN  [i \in Alts(cc) |-> Div(LogitW(cc, y, i), den)]

(***************************************************************************)
(* MEV with user-supplied terms: logit on V_i + ln G_i.                    *)
(***************************************************************************)
PUser(cc, y) == LET w(i) == IF Av(cc, i) THEN Mul(y[i], cc.g[i]) ELSE Zero
                    den  == SumAlts(cc, w)
                IN  [i \in Alts(cc) |-> Div(w(i), den)]

(***************************************************************************)
(* GENERATING FUNCTION of the cross-nested logit (the nested logit is the  *)
(* case of 0/1 allocations), scale mu:                                     *)
(*                                                                         *)
(*   G(y) = sum_m ( sum_j (alpha_jm^{1/mu} y_j)^{mu_m} )^{mu/mu_m}         *)
(*          + sum_{i alone} y_i^mu                                         *)
(*                                                                         *)
(* Sums run over the available alternatives.  Its partial derivatives:     *)
(*                                                                         *)
(*   G_i(y) = mu sum_{m : alpha_im > 0} alpha_im^{mu_m/mu} y_i^{mu_m - 1}  *)
(*               S_m^{mu/mu_m - 1},      G_i = mu y_i^{mu-1} when alone,   *)
(*   S_m = sum_j alpha_jm^{mu_m/mu} y_j^{mu_m}.                            *)
(***************************************************************************)
MuOf(cc, m)    == IF Mutation = "names-matter" /\ Used(cc, 1) /\ Used(cc, 2) /\ EffName(cc, 1) = EffName(cc, 2)
                  THEN cc.mus[2] ELSE cc.mus[m]
W(cc, y, m, i) == IF Av(cc, i) /\ ~IsZero(Al(cc, i, m))
                  THEN Mul(Pow(Al(cc, i, m), QDiv(MuOf(cc, m), cc.mu)), Pow(y[i], MuOf(cc, m)))
                  ELSE Zero
S(cc, y, m)    == SumAlts(cc, LAMBDA j : W(cc, y, m, j))
\* <<S_1, S_2>>, computed once and handed to the definitions below
SVec(cc, y)    == <<S(cc, y, 1), S(cc, y, 2)>>
Active(cc, m)  == \E j \in Alts(cc) : Av(cc, j) /\ ~IsZero(Al(cc, j, m))
AloneTerm(cc, y, i) ==
    IF Av(cc, i) /\ Alone(cc, i)
    THEN (IF Mutation = "alone-unscaled" THEN y[i] ELSE Pow(y[i], cc.mu))   \* the mutant forgets the scale
    ELSE Zero
GFrom(cc, y, sv) ==
    Add(SumNests(cc, LAMBDA m : IF Active(cc, m) THEN Pow(sv[m], QDiv(cc.mu, MuOf(cc, m))) ELSE Zero),
        SumAlts(cc, LAMBDA i : AloneTerm(cc, y, i)))
GOf(cc, y) == GFrom(cc, y, SVec(cc, y))
DGFrom(cc, y, sv, i) ==
    IF ~Av(cc, i) THEN Zero
    ELSE IF Alone(cc, i) THEN Mul(cc.mu, Pow(y[i], QSub(cc.mu, One)))
    ELSE Mul(cc.mu,
             SumNests(cc, LAMBDA m :
                 IF IsZero(Al(cc, i, m)) THEN Zero
                 ELSE Mul(Mul(Pow(Al(cc, i, m), QDiv(MuOf(cc, m), cc.mu)), Pow(y[i], QSub(MuOf(cc, m), One))),
                          Pow(sv[m], QSub(QDiv(cc.mu, MuOf(cc, m)), One)))))
DGSeqFrom(cc, y, sv) == [i \in Alts(cc) |-> DGFrom(cc, y, sv, i)]
DGSeq(cc, y) == DGSeqFrom(cc, y, SVec(cc, y))

\* (1) MEV theorem
PMevFrom(cc, y, dg) ==
    LET w   == [i \in Alts(cc) |-> IF Av(cc, i) THEN Mul(y[i], dg[i]) ELSE Zero]
        den == SumSeq(w)
    IN  [i \in Alts(cc) |-> Div(w[i], den)]
PMev(cc, y) == PMevFrom(cc, y, DGSeq(cc, y))

\* (2) decomposition  P_i = sum_m P(m) P(i | m)
PCnlFrom(cc, y, sv, g) ==
    LET pm == <<IF Active(cc, 1) THEN Div(Pow(sv[1], QDiv(cc.mu, MuOf(cc, 1))), g) ELSE Zero,
                IF Active(cc, 2) THEN Div(Pow(sv[2], QDiv(cc.mu, MuOf(cc, 2))), g) ELSE Zero>>
        one(i) == IF ~Av(cc, i) THEN Zero
                  ELSE IF Alone(cc, i) THEN Div(Pow(y[i], cc.mu), g)
                  ELSE SumNests(cc, LAMBDA m :
                           IF IsZero(Al(cc, i, m)) THEN Zero
                           ELSE Mul(pm[m], Div(W(cc, y, m, i), sv[m])))
    IN  [i \in Alts(cc) |-> one(i)]
PCnl(cc, y) == LET sv == SVec(cc, y) IN PCnlFrom(cc, y, sv, GFrom(cc, y, sv))

(***************************************************************************)
(* (3) NESTED LOGIT, textbook closed form (nest[i] = 0: alone).            *)
(*   P_i = y_i^{mu_m} S_m^{mu/mu_m - 1} / sum_n S_n^{mu/mu_n},             *)
(*   S_m = sum_{j in m} y_j^{mu_m};   an alternative alone: y_i^mu.        *)
(***************************************************************************)
NestOf(cc, i) == IF ~IsZero(Al(cc, i, 1)) THEN 1 ELSE IF ~IsZero(Al(cc, i, 2)) THEN 2 ELSE 0
IsNlShape(cc) == \A i \in Alts(cc) :
                    /\ \A m \in NestIds : Al(cc, i, m) \in {Zero, One}
                    /\ ~(IsOne(Al(cc, i, 1)) /\ IsOne(Al(cc, i, 2)))
NlS(cc, y, m) == SumAlts(cc, LAMBDA j : IF Av(cc, j) /\ NestOf(cc, j) = m THEN Pow(y[j], MuOf(cc, m)) ELSE Zero)
NlSVec(cc, y) == <<NlS(cc, y, 1), NlS(cc, y, 2)>>
NlDenFrom(cc, y, mu, sv) ==
    Add(SumNests(cc, LAMBDA m : Pow(sv[m], QDiv(mu, MuOf(cc, m)))),
        SumAlts(cc, LAMBDA i : IF Av(cc, i) /\ NestOf(cc, i) = 0 THEN Pow(y[i], mu) ELSE Zero))
PNlFrom(cc, y, mu, sv, den) ==
    LET num(i) == IF ~Av(cc, i) THEN Zero
                  ELSE IF NestOf(cc, i) = 0 THEN Pow(y[i], mu)
                  ELSE LET m == NestOf(cc, i)
                       IN  Mul(Pow(y[i], MuOf(cc, m)), Pow(sv[m], QSub(QDiv(mu, MuOf(cc, m)), One)))
    IN  [i \in Alts(cc) |-> Div(num(i), den)]
PNl(cc, y, mu) == LET sv == NlSVec(cc, y) IN PNlFrom(cc, y, mu, sv, NlDenFrom(cc, y, mu, sv))

(***************************************************************************)
(* The same models as documented WITHOUT an explicit scale (mu normalised  *)
(* to one and absent from the formulas).                                   *)
(***************************************************************************)
W1(cc, y, m, i) == IF Av(cc, i) /\ ~IsZero(Al(cc, i, m))
                   THEN Mul(Pow(Al(cc, i, m), MuOf(cc, m)), Pow(y[i], MuOf(cc, m))) ELSE Zero
S1(cc, y, m)    == SumAlts(cc, LAMBDA j : W1(cc, y, m, j))
PCnl1(cc, y) ==
    LET sv == <<S1(cc, y, 1), S1(cc, y, 2)>>
        g  == Add(SumNests(cc, LAMBDA m : IF Active(cc, m) THEN Pow(sv[m], QInv(MuOf(cc, m))) ELSE Zero),
                  SumAlts(cc, LAMBDA i : IF Av(cc, i) /\ Alone(cc, i) THEN y[i] ELSE Zero))
        one(i) == IF ~Av(cc, i) THEN Zero
                  ELSE IF Alone(cc, i) THEN Div(y[i], g)
                  ELSE SumNests(cc, LAMBDA m :
                           IF IsZero(Al(cc, i, m)) THEN Zero
                           ELSE Div(Mul(W1(cc, y, m, i), Pow(sv[m], QSub(QInv(MuOf(cc, m)), One))), g))
    IN  [i \in Alts(cc) |-> one(i)]

(***************************************************************************)
(* ORDERED MODELS.  y* = x + eps, category k iff tau_{k-1} < y* <= tau_k   *)
(* (tau_0 = -oo, tau_K = +oo):  P_k = F(tau_k - x) - F(tau_{k-1} - x).     *)
(* Ordered logit with x = ln r, tau_k = ln t_k:  F(tau_k - x) = t_k/(t_k+r)*)
(* exactly.  Ordered probit: F = phi (primitive).                          *)
(***************************************************************************)
OrdF(cc, k) ==
    IF k = 0 THEN Zero
    ELSE IF k = Len(cc.labels) THEN One
    ELSE IF cc.kind = "ologit" THEN QDiv(cc.ts[k], QAdd(cc.ts[k], cc.x))
    ELSE App("phi", <<QSub(cc.ts[k], cc.x)>>)
POrd(cc) == [k \in 1..Len(cc.labels) |-> Sub(OrdF(cc, k), OrdF(cc, k - 1))]

(***************************************************************************)
(* Expected probabilities of a case, and everything derived from it.       *)
(***************************************************************************)
YOf(cc)       == [i \in Alts(cc) |-> I(cc.a[i])]
Scaled(cc, k) == [cc EXCEPT !.a = [i \in Alts(cc) |-> k * cc.a[i]]]
P(cc) == CASE cc.kind = "logit" -> PLogit(cc, YOf(cc))
           [] cc.kind = "mev"   -> PUser(cc, YOf(cc))
           [] cc.kind = "nl"    -> PNl(cc, YOf(cc), cc.mu)
           [] cc.kind = "cnl"   -> PCnl(cc, YOf(cc))
           [] OTHER             -> POrd(cc)
MevKinds == {"nl", "cnl"}
AllMusOne(cc) == IsOne(cc.mu) /\ \A m \in NestIds : Used(cc, m) => IsOne(MuOf(cc, m))
Reduction(cc) == IF cc.kind = "nl" /\ AllMusOne(cc) THEN "logit"
                 ELSE IF cc.kind = "cnl" /\ IsNlShape(cc) THEN "nl"
                 ELSE "none"
\* Irrational intermediate sums occur many times in the probabilities.  For the emission they are
\* named: slot k of `refs` holds the value, App("ref", <<k>>) stands for it (the driver substitutes).
\* Slots: 1, 2 = S_1, S_2;  3 = G;  4, 5 = the nest sums of the closed form (3);  6 = its denominator.
Ref(k, v) == IF IsQ(v) THEN v ELSE App("ref", <<I(k)>>)
Outcome(cc) ==
    LET y   == YOf(cc)
        mk  == cc.kind \in MevKinds
        red == Reduction(cc)
        sv0 == IF mk THEN SVec(cc, y) ELSE <<Zero, Zero>>
        sv  == <<Ref(1, sv0[1]), Ref(2, sv0[2])>>
        g0  == IF mk THEN GFrom(cc, y, sv) ELSE Zero
        g   == Ref(3, g0)
        dg  == IF mk THEN DGSeqFrom(cc, y, sv) ELSE << >>
        dec == IF mk THEN PCnlFrom(cc, y, sv, g) ELSE << >>
        nl  == cc.kind = "nl" \/ red = "nl"
        nv0 == IF nl THEN NlSVec(cc, y) ELSE <<Zero, Zero>>
        nv  == <<Ref(4, nv0[1]), Ref(5, nv0[2])>>
        nd0 == IF nl THEN NlDenFrom(cc, y, cc.mu, nv) ELSE Zero
        pnl == IF nl THEN PNlFrom(cc, y, cc.mu, nv, Ref(6, nd0)) ELSE << >>
    IN  [p     |-> CASE cc.kind = "cnl" -> dec [] cc.kind = "nl" -> pnl [] OTHER -> P(cc),
         refs  |-> <<sv0[1], sv0[2], g0, nv0[1], nv0[2], nd0>>,
         pmev  |-> IF mk THEN PMevFrom(cc, y, dg) ELSE << >>,
         pdec  |-> dec,
         p1    |-> IF mk /\ IsOne(cc.mu) THEN PCnl1(cc, y) ELSE << >>,
         g     |-> g,
         dg    |-> dg,
         red   |-> red,
         redp  |-> CASE red = "logit" -> PLogit(cc, y)
                     [] red = "nl"    -> pnl
                     [] OTHER         -> << >>,
         shift |-> IF cc.kind \in {"logit", "nl", "cnl"}
                   THEN [k \in ShiftCs |-> P(Scaled(cc, k))] ELSE << >>]

(***************************************************************************)
(* Generator.                                                              *)
(***************************************************************************)
Blank == [kind |-> "none", labels |-> << >>, alpha |-> << >>, mus |-> <<One, One>>, mu |-> One,
          a |-> << >>, av |-> << >>, g |-> << >>, x |-> Zero, ts |-> << >>, names |-> <<"", "">>]
NoOut == [p |-> << >>]
Init == stage = "shape" /\ c = Blank /\ out = NoOut /\ prev = Blank

ChooseShape ==
    /\ stage = "shape"
    /\ \E k \in Kinds : \E ls \in (IF k \in OrdKinds THEN OrdLabelSeqs ELSE LabelSeqs) :
          c' = [c EXCEPT !.kind = k, !.labels = ls,
                         !.alpha = [i \in 1..Len(ls) |-> <<Zero, Zero>>],
                         !.g = [i \in 1..Len(ls) |-> One]]
    /\ stage' = "struct" /\ UNCHANGED <<out, prev>>

\* a nest that no alternative uses keeps parameter one (one representative)
MusFit(cc, mm) == \A m \in NestIds : Used(cc, m) \/ IsOne(mm[m])
NlRows == {<<Zero, Zero>>, <<One, Zero>>, <<Zero, One>>}
\* one representative of the two numberings of the nests: the first nested alternative is in nest 1
Canon(al) == \A i \in 1..Len(al) : IsZero(al[i][1]) /\ ~IsZero(al[i][2]) =>
                 \E j \in 1..(i - 1) : ~IsZero(al[j][1])
StructPlain == stage = "struct" /\ c.kind = "logit" /\ c' = c /\ stage' = "obs" /\ UNCHANGED <<out, prev>>
\* (the filters are inside the sets: a disjunction in an action would be explored twice)
StructNests ==
    /\ stage = "struct" /\ c.kind \in MevKinds
    /\ \E al \in {f \in [Alts(c) -> (IF c.kind = "nl" THEN NlRows ELSE AlphaRows)] :
                     c.kind = "nl" => Canon([i \in Alts(c) |-> f[i]])} :
       \E mm \in {pair \in (IF c.kind = "nl" THEN NlMuPairs ELSE CnlMuPairs) :
                     MusFit([c EXCEPT !.alpha = [i \in Alts(c) |-> al[i]]], pair)} :
       \E mu \in TopMus :
          c' = [c EXCEPT !.alpha = [i \in Alts(c) |-> al[i]], !.mus = mm, !.mu = mu]
    /\ stage' = "obs" /\ UNCHANGED <<out, prev>>
StructUser ==
    /\ stage = "struct" /\ c.kind = "mev"
    /\ \E gs \in [Alts(c) -> GVals] : c' = [c EXCEPT !.g = [i \in Alts(c) |-> gs[i]]]
    /\ stage' = "obs" /\ UNCHANGED <<out, prev>>

RECURSIVE Thresholds(_, _, _)
\* all nondecreasing threshold sequences of length n starting from the set `firsts`
Thresholds(cc, n, firsts) ==
    IF n = 0 THEN {<< >>}
    ELSE IF n = 1 THEN {<<t>> : t \in firsts}
    ELSE LET shorter == Thresholds(cc, n - 1, firsts)
         IN  IF cc.kind = "ologit"
             THEN {Append(s, QMul(s[Len(s)], r)) : s \in shorter, r \in OrdRatios}
             ELSE {Append(s, QAdd(s[Len(s)], d)) : s \in shorter, d \in PrbDiffs}
StructOrdered ==
    /\ stage = "struct" /\ c.kind \in OrdKinds
    /\ \E x \in (IF c.kind = "ologit" THEN OrdRs ELSE PrbXs) :
       \E ts \in Thresholds(c, Len(c.labels) - 1, IF c.kind = "ologit" THEN OrdT1s ELSE PrbT1s) :
          /\ c' = [c EXCEPT !.x = x, !.ts = ts]
          /\ out' = Outcome(c')
    /\ stage' = "done" /\ UNCHANGED prev

ChooseObs ==
    /\ stage = "obs"
    /\ \E a \in AVecs : \E av \in [Alts(c) -> BOOLEAN] :
          /\ Len(a) = N(c)
          /\ {i \in Alts(c) : av[i]} # {}      \* at least one alternative (the chosen one) is available
          /\ c' = [c EXCEPT !.a = a, !.av = [i \in Alts(c) |-> av[i]]]
          /\ out' = Outcome(c')
    /\ stage' = "done" /\ UNCHANGED prev

(***************************************************************************)
(* A SECOND CONSTRUCTION.  The user keeps the objects the first model was  *)
(* built from -- the dictionary of utilities, the dictionary of            *)
(* availabilities, the nests (and the terms G_i of a MEV model) --, puts   *)
(* other expressions into ONE of the two dictionaries (one entry, or all   *)
(* of them) and calls the model function again with the same objects.      *)
(* The model functions are functions: what the second call returns is the  *)
(* model of the arguments AS THEY ARE NOW; nothing of the first            *)
(* construction is remembered (Built does not read `previous`; the mutant  *)
(* keeps the nest sums S_m of the first construction).                     *)
(***************************************************************************)
SessionKinds == {"nl", "cnl", "mev"}
Built(previous, args) ==
    IF Mutation = "remembers" /\ args.kind \in MevKinds
    THEN LET sv == SVec(previous, YOf(previous))
         IN  [Outcome(args) EXCEPT !.p = PCnlFrom(args, YOf(args), sv, GFrom(args, YOf(args), sv))]
    ELSE Outcome(args)
\* the arguments after the modification of one dictionary
OtherUtilities(cc) ==
    {[cc EXCEPT !.a = [cc.a EXCEPT ![i] = v]] : i \in Alts(cc), v \in 1..4}                  \* one entry replaced
    \cup {[cc EXCEPT !.a = a] : a \in {x \in AVecs : Len(x) = N(cc)}}                         \* all entries replaced
OtherAvailabilities(cc) ==
    {[cc EXCEPT !.av = [i \in Alts(cc) |-> av[i]]] : av \in {f \in [Alts(cc) -> BOOLEAN] : \E i \in Alts(cc) : f[i]}}
Rebuild ==
    /\ Steps = 2 /\ stage = "done" /\ c.kind \in SessionKinds
    /\ \E c2 \in (OtherUtilities(c) \cup OtherAvailabilities(c)) \ {c} :
          /\ c' = c2
          /\ out' = Built(c, c2)
    /\ prev' = c
    /\ stage' = "done2"

Next == ChooseShape \/ StructPlain \/ StructNests \/ StructUser \/ StructOrdered \/ ChooseObs \/ Rebuild
Spec == Init /\ [][Next]_vars

(***************************************************************************)
(* Invariants: the properties, on the model.                               *)
(***************************************************************************)
Done      == stage \in {"done", "done2"}
IsChoice  == c.kind \in ChoiceKinds
IsMevKind == c.kind \in MevKinds

\* probabilities lie in [0, 1] ...
ProbUnit == Done => \A i \in 1..Len(out.p) :
                IsQ(out.p[i]) => QLeq(Zero, out.p[i]) /\ QLeq(out.p[i], One)
\* ... sum to one ...
SumOne == Done /\ AllQ(out.p) => QEq(SumSeq(out.p), One)
\* ... and are zero (exactly, also in the term cases) for unavailable alternatives
ZeroUnavail == Done /\ IsChoice => \A i \in Alts(c) : ~c.av[i] => IsZero(out.p[i])
\* the chosen -- here: every -- available alternative has a positive probability
PositiveAvail == Done /\ IsChoice => \A i \in Alts(c) : c.av[i] /\ IsQ(out.p[i]) => QLess(Zero, out.p[i])
\* a constant added to all utilities changes nothing
ShiftInvariant == Done /\ c.kind \in {"logit", "nl", "cnl"} =>
                      \A k \in ShiftCs : SameSeq(out.shift[k], out.p)

\* the three statements of the NL / CNL probabilities agree
MevTheorem    == Done /\ IsMevKind => SameSeq(out.pmev, out.p)
Decomposition == Done /\ IsMevKind => SameSeq(out.pdec, out.p)
\* G is homogeneous of degree mu (Euler):  sum_i y_i G_i = mu G
Euler == Done /\ IsMevKind /\ IsQ(out.g) /\ AllQ(out.dg) =>
             QEq(SumSeq([i \in Alts(c) |-> Mul(I(c.a[i]), out.dg[i])]), QMul(c.mu, out.g))
\* G_i is the partial derivative of G: where G is a polynomial of degree <= 2 in y
\* (mu_m and mu/mu_m integers, mu <= 2) the central difference is exact
PolyCase == /\ c.mu \in {One, I(2)}
            /\ \A m \in NestIds : Used(c, m) => MuOf(c, m).d = 1 /\ QDiv(c.mu, MuOf(c, m)).d = 1
Bump(y, i, d) == [y EXCEPT ![i] = QAdd(y[i], I(d))]
DerivativeExact ==
    Done /\ IsMevKind /\ PolyCase =>
        \A i \in Alts(c) :
            LET up == GOf(c, Bump(YOf(c), i, 1))
                dn == GOf(c, Bump(YOf(c), i, 0 - 1))
            IN  c.av[i] /\ IsQ(up) /\ IsQ(dn) /\ IsQ(out.dg[i]) => QEq(QDiv(QSub(up, dn), I(2)), out.dg[i])

\* reductions
ReduceToSimpler == Done /\ out.red # "none" => SameSeq(out.redp, out.p)
ScaleOne        == Done /\ IsMevKind /\ IsOne(c.mu) => SameSeq(out.p1, out.p)
\* the names of the nest objects are not part of the model: whatever the naming, the same probabilities
NamesIrrelevant == Done /\ IsMevKind => \A nm \in Namings : P([c EXCEPT !.names = nm]) = P(c)
\* a model is a function of its current arguments: after  Build(prev); modify; Build(c)  the observable is
\* what a first construction from c gives
Memoryless == stage = "done2" => out = Outcome(c)
\* thresholds are sorted, so that the ordered probit's differences are non-negative
OrdSorted == Done /\ c.kind \in OrdKinds =>
                 \A k \in 1..(Len(c.ts) - 1) : QLeq(c.ts[k], c.ts[k + 1])

(***************************************************************************)
(* Emission of one finished case.                                          *)
(***************************************************************************)
Bit(b) == IF b THEN 1 ELSE 0
Avs    == [i \in 1..Len(c.av) |-> Bit(c.av[i])]
Common == [kind |-> c.kind, labels |-> c.labels, a |-> c.a, av |-> Avs, p |-> CompactSeq(out.p), exact |-> AllQ(out.p)]
\* `namings`: the expected values hold for every one of these ways of naming the nest objects (NamesIrrelevant)
Nested == [alpha |-> [i \in 1..Len(c.alpha) |-> CompactSeq(c.alpha[i])], mus |-> CompactSeq(c.mus), mu |-> Compact(c.mu),
           refs |-> CompactSeq(out.refs), red |-> out.red, redp |-> CompactSeq(out.redp), namings |-> Namings]
Record1 ==
    CASE c.kind = "logit" -> Common
      [] c.kind = "mev"   -> Common @@ [gi |-> CompactSeq(c.g)]
      [] c.kind = "nl"    -> Common @@ Nested @@ [g |-> Compact(out.g), dg |-> CompactSeq(out.dg)]
      [] c.kind = "cnl"   -> Common @@ Nested
      [] OTHER            -> [kind |-> c.kind, labels |-> c.labels, x |-> Compact(c.x), ts |-> CompactSeq(c.ts),
                              p |-> CompactSeq(out.p), exact |-> AllQ(out.p)]
\* a two-step behaviour: the arguments of the first construction; everything else describes the second one
Record == IF stage = "done2"
          THEN Record1 @@ [first |-> [a |-> prev.a, av |-> [i \in 1..Len(prev.av) |-> Bit(prev.av[i])]]]
          ELSE Record1
Emit == Done => PrintT(ToJson(Record))
=============================================================================
