----------------------------- MODULE AliasesData -----------------------------
(***************************************************************************)
(* The facts the driver extracted from the imported package                *)
(* (vb/aliases.py:Model.to_dict), read from the JSON file named by the     *)
(* environment variable ALIASES_MODEL.  Kept in a module of its own, and   *)
(* extended BEFORE Aliases by AliasesModel, so that TLC has computed (and  *)
(* cached) these values before it meets the definitions that use them.     *)
(***************************************************************************)
EXTENDS Integers, Sequences, FiniteSets, TLC, Json, IOUtils

M == JsonDeserialize(IOEnv.ALIASES_MODEL)
EmptyFn == [x \in {} |-> x]
RangeOf(s) == {s[i] : i \in 1..Len(s)}

C_Spaces == RangeOf(M.spaces)
C_Modules == RangeOf(M.modules)
C_Bases == TLCEval([s \in C_Spaces |-> IF s \in DOMAIN M.bases THEN M.bases[s] ELSE << >>])
C_Table == TLCEval([s \in C_Spaces |-> IF s \in DOMAIN M.table THEN M.table[s] ELSE EmptyFn])
C_Static == {<<M.static[i][1], M.static[i][2]>> : i \in 1..Len(M.static)}
C_Home == TLCEval([s \in C_Spaces |-> IF s \in DOMAIN M.home THEN M.home[s] ELSE ""])
C_Fn == M.fn
C_Spelling == M.spelling
C_Renames == {<<M.renames[i][1], M.renames[i][2]>> : i \in 1..Len(M.renames)}
C_KwRenames == {[fid |-> r.fid, space |-> r.space, fname |-> r.fname, old |-> r.old, new |-> r.new, drop |-> r.drop,
                 params |-> RangeOf(r.params), varkw |-> r.varkw, pos |-> r.pos] : r \in RangeOf(M.kwrenames)}
\* the name a class carries (__qualname__); several spaces may carry the same name (they stay distinct spaces)
C_ClassName == TLCEval([s \in C_Spaces |-> IF s \in DOMAIN M.cname THEN M.cname[s] ELSE s])
=============================================================================
