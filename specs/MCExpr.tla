------------------------------- MODULE MCExpr -------------------------------
(* Model-checking instance of ExprLang: pools of leaves, parameters, columns. *)
EXTENDS ExprLang

\* names as code points.  Sorted (Python order): "B10" < "Z_fix" < "a_fix" < "b2"; appearance order differs.
n_b2   == <<98, 50>>
n_B10  == <<66, 49, 48>>
n_afix == <<97, 95, 102, 105, 120>>
n_Zfix == <<90, 95, 102, 105, 120>>
n_x    == <<120>>
n_y    == <<121>>
n_av   == <<97, 118>>

MC_BetaTab == <<
    [name |-> n_b2,   free |-> TRUE,  vals |-> <<Q(1, 2), I(3)>>],
    [name |-> n_B10,  free |-> TRUE,  vals |-> <<I(2), I(-1)>>],
    [name |-> n_afix, free |-> FALSE, vals |-> <<Q(3, 2), Q(3, 2)>>],
    [name |-> n_Zfix, free |-> FALSE, vals |-> <<I(-2), I(-2)>>] >>
MC_VarTab == <<
    [name |-> n_x,  vals |-> <<I(2), Q(1, 2), I(-1)>>],
    [name |-> n_y,  vals |-> <<I(1), I(3), I(3)>>],
    [name |-> n_av, vals |-> <<I(1), I(0), I(1)>>] >>

LNum(q)  == Node("Numeric", << >>, q, 0, << >>)
LBeta(b) == Node("Beta", << >>, Zero, b, << >>)
LVar(x)  == Node("Variable", << >>, Zero, x, << >>)

MC_LeavesFull  == <<LNum(I(2)), LNum(Q(1, 2)), LBeta(1), LBeta(2), LBeta(3), LBeta(4), LVar(1), LVar(2), LVar(3)>>
MC_LeavesSmall == <<LNum(I(2)), LBeta(1), LBeta(2), LVar(1), LVar(2)>>
MC_LeavesMid   == <<LNum(I(2)), LBeta(1), LBeta(2), LBeta(3), LBeta(4), LVar(1), LVar(2), LVar(3)>>

MC_UnOps  == {"UnaryMinus", "exp", "log", "logzero", "sin", "cos", "bioNormalCdf", "PowerConstant"}
MC_BinOps == {"Plus", "Minus", "Times", "Divide", "Power", "bioMin", "bioMax", "And", "Or"} \cup Comparisons
MC_NaryOps == {"bioMultSum", "BelongsTo", "Elem", "ConditionalSum", "bioLinearUtility",
               "_bioLogLogit", "_bioLogLogitFullChoiceSet"}
MC_NaryOpsAll == MC_NaryOps \cup {"bioMultSum3"}
MC_Exponents == {I(2), I(3), I(-1), Q(1, 2)}
MC_KeySets == {<<1, 3>>, <<3, 1>>}
MC_None == {}
MC_DrawTab == << >>
MC_Thin == <<1>>
=============================================================================
