------------------------------ MODULE FilesTrace ------------------------------
(***************************************************************************)
(* Trace validation for the output directory (code -> spec).               *)
(*                                                                         *)
(* A trace is what one scratch directory looked like before and after      *)
(* every output operation performed by the REAL biogeme functions: the     *)
(* names present with a content id each (the sha256 of the file, numbered  *)
(* by first occurrence), the name the operation returned / recorded in the *)
(* results object, and the pickle file it opened for reading (if any).     *)
(*                                                                         *)
(* Each recorded step is judged against Files!Predict evaluated on the     *)
(* RECORDED directory before the step (so one wrong step does not hide the *)
(* following ones).  The first failing clause names the verdict:           *)
(*   old-file-changed  a file present before and after has another content *)
(*   old-file-lost     a file disappeared that the operation does not move *)
(*   not-removed       the source of a renaming backup is still there      *)
(*   new-names         the set of names that appeared is not exactly the   *)
(*                     fresh name(s) the documented rule prescribes        *)
(*                     (an implementation that reuses an existing name     *)
(*                     fails here: nothing new appears)                    *)
(*   returned-name     the operation reports another name than the file it *)
(*                     created                                             *)
(*   backup-content    the backup does not hold the content of its source  *)
(*   loaded-file       not the prescribed pickle was read                  *)
(*   files-of-type     BIOGEME.files_of_type(ext) (recorded by "list" and  *)
(*                     before every recycle) is not exactly the set of     *)
(*                     THE MODEL's files with that extension (m.ext,       *)
(*                     m~NN.ext), e.g. it holds a file of another model    *)
(*                     whose name starts alike                             *)
(* One verdict line is printed per trace ("ok" or <step>:<clause>).        *)
(***************************************************************************)
EXTENDS Files, IOUtils

Trace == JsonDeserialize(IOEnv.TRACE_FILE)
NT == Len(Trace)
NoOps == {}

VARIABLES t, l, bad
tvars == <<t, l, bad, dir, clock, log, pre>>

AsDir(seq) == [n \in {seq[i].n : i \in DOMAIN seq} |-> seq[CHOOSE i \in DOMAIN seq : seq[i].n = n].s]

StepVerdict(st) ==
    LET B == AsDir(st.before)
        A == AsDir(st.after)
        p == Predict(DOMAIN B, st.op)
    IN
    IF ~Enabled(DOMAIN B, st.op) THEN "not-enabled"
    ELSE IF \E n \in DOMAIN B \cap DOMAIN A : A[n] # B[n] THEN "old-file-changed"
    ELSE IF ~((DOMAIN B \ p.gone) \subseteq DOMAIN A) THEN "old-file-lost"
    ELSE IF p.gone \cap DOMAIN A # {} THEN "not-removed"
    ELSE IF DOMAIN A \ DOMAIN B # Range(p.new) THEN "new-names"
    ELSE IF st.ret # p.ret THEN "returned-name"
    ELSE IF \E i \in DOMAIN p.same : A[p.same[i][1]] # B[p.same[i][2]] THEN "backup-content"
    ELSE IF st.opened # p.from THEN "loaded-file"
    ELSE IF st.op.k = "recycle" /\ Range(st.listed) \ {"-"} # FilesOf(DOMAIN B, st.op.a, "pickle") THEN "files-of-type"
    ELSE IF st.op.k = "list" /\ Range(st.listed) \ {"-"} # FilesOf(DOMAIN B, st.op.a, st.op.b) THEN "files-of-type"
    ELSE "ok"

TInit == t = 1 /\ l = 0 /\ bad = "ok" /\ dir = << >> /\ clock = 0 /\ log = << >> /\ pre = {}

Judge == /\ t <= NT /\ l < Len(Trace[t].steps)
         /\ l' = l + 1
         /\ bad' = IF bad # "ok" THEN bad
                   ELSE LET v == StepVerdict(Trace[t].steps[l + 1])
                        IN  IF v = "ok" THEN "ok" ELSE ToString(l + 1) \o ":" \o v
         /\ UNCHANGED <<t, dir, clock, log, pre>>

Close == /\ t <= NT /\ l = Len(Trace[t].steps)
         /\ PrintT(ToJson([tid |-> Trace[t].tid, verdict |-> bad]))
         /\ t' = t + 1 /\ l' = 0 /\ bad' = "ok"
         /\ UNCHANGED <<dir, clock, log, pre>>

TNext == Judge \/ Close
TraceSpec == TInit /\ [][TNext]_tvars

Progress == t \in 1..(NT + 1) /\ (t <= NT => l \in 0..Len(Trace[t].steps))
=============================================================================
