------------------------------ MODULE PanelDraws ------------------------------
(***************************************************************************)
(* Panel likelihood (C09) and simulated integrals (C10).                   *)
(*                                                                         *)
(* Data: a sequence of rows [id, x].  Declaring the data panel on `id`     *)
(* is accepted iff every individual's rows are contiguous; the table is    *)
(* then sorted by id (stable) and the individual map gives, per            *)
(* individual in increasing id order, the first and last row position.     *)
(*                                                                         *)
(* Draws: each named draw variable has a TYPE; the generator registered    *)
(* for the type produces a series per unit (observation, or individual on  *)
(* panel data) and draw number:  Gen(type, u, r).  The draw table is       *)
(* T[u][r][k] with k the RANK OF THE NAME (Names order) of the variable.   *)
(*                                                                         *)
(* Monte-Carlo: value(u) = (1/R) sum_r g(u, r) where g uses for every      *)
(* draw variable the r-th draw of ITS OWN series for unit u; on panel data *)
(* g is the PRODUCT over exactly the rows of individual u of the row       *)
(* formula, all rows sharing the individual's draw.                        *)
(*                                                                         *)
(* Row formulas (b = parameter, x = column, A and B = draw variables whose *)
(* sorted order differs from their order of appearance):                   *)
(*   "one"   b*x + A          "two"   A*x + b*B         "prod"  A*B + x    *)
(*   "none"  b*x + 1  (no draw: plain trajectory product)                  *)
(***************************************************************************)
EXTENDS Integers, Sequences, FiniteSets, TLC, Json, Term

NM == INSTANCE Names

CONSTANTS IdPool,      \* set of id values (arbitrary integers, not consecutive)
          MaxLen,      \* maximal number of rows
          XVals,       \* sequence: the x value of the row at each position of the ORIGINAL table
          Rs,          \* set of numbers of draws
          Formulas,    \* subset of {"one", "two", "prod", "none"}
          VarA, VarB,  \* draw variables [name |-> code points, type |-> string]
          TypeCode,    \* type name -> integer offset of its generator
          B,           \* value of the parameter
          PanelModes   \* subset of BOOLEAN

VARIABLES ids, R, formula, panel, done
vars == <<ids, R, formula, panel, done>>

N == Len(ids)
Row(k) == [id |-> ids[k], x |-> XVals[k]]
Individuals == {ids[k] : k \in 1..N}
PositionsOf(i) == {k \in 1..N : ids[k] = i}
Contiguous == \A i \in Individuals : \A a, b \in PositionsOf(i) : \A k \in a..b : ids[k] = i

\* stable sort by id: individuals in increasing id order, rows of one individual in original order
IndRank(i) == Cardinality({j \in Individuals : j < i})            \* 0-based
IndAt(u) == CHOOSE i \in Individuals : IndRank(i) = u
RowsOf(i) == LET P == PositionsOf(i)
                 nth(m) == CHOOSE k \in P : Cardinality({q \in P : q < k}) = m - 1
             IN  [m \in 1..Cardinality(P) |-> Row(nth(m))]
RECURSIVE Concat(_, _)
Concat(u, acc) == IF u = Cardinality(Individuals) THEN acc ELSE Concat(u + 1, acc \o RowsOf(IndAt(u)))
Sorted == Concat(0, << >>)
FirstOf(i) == LET RECURSIVE S(_)
                  S(u) == IF u = IndRank(i) THEN 0 ELSE Cardinality(PositionsOf(IndAt(u))) + S(u + 1)
              IN  S(0)           \* 0-based position of the first row of i in the sorted table
Map == [u \in 1..Cardinality(Individuals) |->
          LET i == IndAt(u - 1) IN
          [id |-> i, first |-> FirstOf(i), last |-> FirstOf(i) + Cardinality(PositionsOf(i)) - 1]]

\* draws
Gen(type, u, r) == TypeCode[type] + ((2 * u + r) % 5)  \* u, r 0-based; what the registered generator returns
                                                        \* (kept small: products over rows stay inside 32 bits)
DrawVars == IF formula = "none" THEN {} ELSE IF formula = "one" THEN {VarA} ELSE {VarA, VarB}
RankOfVar(v) == NM!Rank(v.name, {w.name : w \in DrawVars})
Table(nunits) == [u \in 1..nunits |-> [r \in 1..R |-> [k \in 1..Cardinality(DrawVars) |->
                    LET v == CHOOSE w \in DrawVars : RankOfVar(w) = k - 1 IN Gen(v.type, u - 1, r - 1)]]]
DrawOf(v, u, r) == Gen(v.type, u, r)        \* the r-th draw of v's own series for unit u

RowVal(row, u, r) ==
    CASE formula = "one"  -> B * row.x + DrawOf(VarA, u, r)
      [] formula = "two"  -> DrawOf(VarA, u, r) * row.x + B * DrawOf(VarB, u, r)
      [] formula = "prod" -> DrawOf(VarA, u, r) * DrawOf(VarB, u, r) + row.x
      [] formula = "none" -> B * row.x + 1

RECURSIVE ProdSeq(_, _, _)
ProdSeq(rows, u, r) == IF rows = << >> THEN 1 ELSE RowVal(Head(rows), u, r) * ProdSeq(Tail(rows), u, r)
RECURSIVE SumR(_, _)
SumR(f, r) == IF r = 0 THEN 0 ELSE f[r] + SumR(f, r - 1)
Mean(f) == Q(SumR(f, R), R)

\* per individual (panel) or per row (not panel), keyed by unit position in the sorted / original table
PanelValue(u) == Mean([r \in 1..R |-> ProdSeq(RowsOf(IndAt(u)), u, r - 1)])
RowValue(k)   == Mean([r \in 1..R |-> RowVal(Row(k + 1), k, r - 1)])

Init == /\ ids \in UNION {[1..n -> IdPool] : n \in 1..MaxLen}
        /\ R \in Rs /\ formula \in Formulas /\ panel \in PanelModes /\ done = FALSE
Emit == ~done /\ done' = TRUE /\ UNCHANGED <<ids, R, formula, panel>>
Next == Emit
Spec == Init /\ [][Next]_vars

(***************************************************************************)
(* Properties of the model.                                                *)
(***************************************************************************)
\* the blocks of the map partition the rows of the sorted table; each block is one individual's rows
MapSound == (done /\ Contiguous) =>
    /\ \A k \in 0..(N - 1) : Cardinality({u \in 1..Len(Map) : Map[u].first <= k /\ k <= Map[u].last}) = 1
    /\ \A u \in 1..Len(Map) : \A k \in Map[u].first..Map[u].last : Sorted[k + 1].id = Map[u].id
    /\ \A u \in 1..Len(Map) : Map[u].last - Map[u].first + 1 = Cardinality(PositionsOf(Map[u].id))
\* sorting keeps the multiset of rows and the order inside an individual
SortSound == done => /\ Len(Sorted) = N
                     /\ \A k \in 1..(N - 1) : Sorted[k].id <= Sorted[k + 1].id
\* sample size of a panel = number of individuals
Units == IF panel THEN Cardinality(Individuals) ELSE N

Emitted ==
    [ids |-> ids, xs |-> [k \in 1..N |-> XVals[k]], R |-> R, formula |-> formula, panel |-> panel,
     contiguous |-> Contiguous,
     sorted |-> IF panel /\ Contiguous THEN [k \in 1..N |-> <<Sorted[k].id, Sorted[k].x>>] ELSE << >>,
     map |-> IF panel /\ Contiguous THEN [u \in 1..Len(Map) |-> <<Map[u].id, Map[u].first, Map[u].last>>] ELSE << >>,
     units |-> Units,
     table |-> IF panel /\ ~Contiguous THEN << >> ELSE Table(Units),
     values |-> IF panel
                THEN (IF Contiguous THEN [u \in 1..Units |-> LET v == PanelValue(u - 1) IN <<v.n, v.d>>] ELSE << >>)
                ELSE [k \in 1..N |-> LET v == RowValue(k - 1) IN <<v.n, v.d>>]]
EmitInv == done => PrintT(ToJson(Emitted))
=============================================================================
